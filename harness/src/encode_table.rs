//! Canonical numeric encoding of the symbol tables (twin of coq/theories/Judge/DumpTable.v).
//!
//! Layout (numbers; text = length + code points; list = length + items; opt = 0 | 1 item):
//!   range               = start end
//!   ident               = text(value) info          info = start end list(err)
//!   data type           = 0 (Int) | 1 (Bool) | 2 opt(size) opt(base type) text(creator)
//!   variable entry      = ident(name) is_ref(0/1) opt(data type) range opt(text doc)
//!   local entry         = 0 variable-entry (Variable) | 1 variable-entry (Parameter)
//!   local table         = list of [text(key) local-entry], sorted by key
//!   global entry        = 0 ident(name) opt(data type) range opt(text doc)                              (Type)
//!                       | 1 ident(name) list(variable-entry parameters) local-table range opt(text doc) (Procedure)
//!   global table        = list of [text(key) global-entry], sorted by key
use crate::encode::enc_text;
use crate::encode_ast::enc_err;
use spl_frontend::ast::Identifier;
use spl_frontend::table::*;
use std::ops::Range;

fn enc_range(r: &Range<usize>, out: &mut Vec<u64>) {
    out.push(r.start as u64);
    out.push(r.end as u64);
}

fn enc_name(i: &Identifier, out: &mut Vec<u64>) {
    enc_text(&i.value, out);
    enc_range(&i.info.range, out);
    out.push(i.info.errors.len() as u64);
    for e in &i.info.errors {
        enc_err(e, out);
    }
}

fn enc_opt_doc(d: &Option<String>, out: &mut Vec<u64>) {
    match d {
        Some(s) => {
            out.push(1);
            enc_text(s, out)
        }
        None => out.push(0),
    }
}

fn enc_data_type(d: &DataType, out: &mut Vec<u64>) {
    match d {
        DataType::Int => out.push(0),
        DataType::Bool => out.push(1),
        DataType::Array {
            size,
            base_type,
            creator,
        } => {
            out.push(2);
            match size {
                Some(v) => out.extend([1, *v as u64]),
                None => out.push(0),
            }
            match base_type {
                Some(b) => {
                    out.push(1);
                    enc_data_type(b, out)
                }
                None => out.push(0),
            }
            enc_text(creator, out)
        }
    }
}

fn enc_opt_data_type(d: &Option<DataType>, out: &mut Vec<u64>) {
    match d {
        Some(d) => {
            out.push(1);
            enc_data_type(d, out)
        }
        None => out.push(0),
    }
}

fn enc_variable_entry(v: &VariableEntry, out: &mut Vec<u64>) {
    enc_name(&v.name, out);
    out.push(v.is_ref as u64);
    enc_opt_data_type(&v.data_type, out);
    enc_range(&v.range, out);
    enc_opt_doc(&v.doc, out);
}

fn enc_local_table(t: &LocalTable, out: &mut Vec<u64>) {
    let mut keys: Vec<&String> = t.entries.keys().collect();
    keys.sort();
    out.push(keys.len() as u64);
    for k in keys {
        enc_text(k, out);
        match &t.entries[k] {
            LocalEntry::Variable(v) => {
                out.push(0);
                enc_variable_entry(v, out)
            }
            LocalEntry::Parameter(v) => {
                out.push(1);
                enc_variable_entry(v, out)
            }
        }
    }
}

pub fn enc_global_table(t: &GlobalTable, out: &mut Vec<u64>) {
    let mut keys: Vec<&String> = t.entries.keys().collect();
    keys.sort();
    out.push(keys.len() as u64);
    for k in keys {
        enc_text(k, out);
        match &t.entries[k] {
            GlobalEntry::Type(t) => {
                out.push(0);
                enc_name(&t.name, out);
                enc_opt_data_type(&t.data_type, out);
                enc_range(&t.range, out);
                enc_opt_doc(&t.doc, out);
            }
            GlobalEntry::Procedure(p) => {
                out.push(1);
                enc_name(&p.name, out);
                out.push(p.parameters.len() as u64);
                for v in &p.parameters {
                    enc_variable_entry(v, out);
                }
                enc_local_table(&p.local_table, out);
                enc_range(&p.range, out);
                enc_opt_doc(&p.doc, out);
            }
        }
    }
}
