use spl_frontend::error::{ErrorMessage, LexErrorMessage, SplError};
use spl_frontend::tokens::{IntResult, Token, TokenType};

pub fn enc_text(s: &str, out: &mut Vec<u64>) {
    out.push(s.chars().count() as u64);
    out.extend(s.chars().map(|c| c as u64));
}

pub fn kind_tag(t: &TokenType) -> u64 {
    use TokenType::*;
    match t {
        LParen => 0,
        RParen => 1,
        LBracket => 2,
        RBracket => 3,
        LCurly => 4,
        RCurly => 5,
        Eq => 6,
        Neq => 7,
        Lt => 8,
        Le => 9,
        Gt => 10,
        Ge => 11,
        Assign => 12,
        Colon => 13,
        Comma => 14,
        Semic => 15,
        Plus => 16,
        Minus => 17,
        Times => 18,
        Divide => 19,
        If => 20,
        Else => 21,
        While => 22,
        Array => 23,
        Of => 24,
        Proc => 25,
        Ref => 26,
        Type => 27,
        Var => 28,
        Ident(_) => 29,
        Char(_) => 30,
        Int(_) => 31,
        Hex(_) => 32,
        Comment(_) => 33,
        Unknown(_) => 34,
        Eof => 35,
        // a token kind the model does not know: encoded as such, so that the comparison with the model reports it
        #[allow(unreachable_patterns)]
        _ => 999,
    }
}

fn enc_int_result(r: &IntResult, out: &mut Vec<u64>) {
    match r {
        IntResult::Int(v) => {
            out.push(0);
            out.push(*v as u64);
        }
        IntResult::Err(s) => {
            out.push(1);
            enc_text(s, out);
        }
    }
}

pub fn enc_kind(t: &TokenType, out: &mut Vec<u64>) {
    use TokenType::*;
    out.push(kind_tag(t));
    match t {
        Ident(s) | Comment(s) | Unknown(s) => enc_text(s, out),
        Char(c) => out.push(*c as u64),
        Int(r) | Hex(r) => enc_int_result(r, out),
        _ => {}
    }
}

pub fn enc_lex_err(e: &SplError, out: &mut Vec<u64>) {
    out.push(e.0.start as u64);
    out.push(e.0.end as u64);
    match &e.1 {
        ErrorMessage::LexErrorMessage(m) => match m {
            LexErrorMessage::MissingClosingTick => out.push(0),
            LexErrorMessage::ExpectedHexNumber => out.push(1),
            LexErrorMessage::InvalidIntLit(s) => {
                out.push(2);
                enc_text(s, out);
            }
            // a lexical error message the model does not know
            #[allow(unreachable_patterns)]
            _ => out.push(98),
        },
        _ => out.push(99),
    }
}

pub fn enc_token(t: &Token, out: &mut Vec<u64>) {
    enc_kind(&t.token_type, out);
    out.push(t.range.start as u64);
    out.push(t.range.end as u64);
    out.push(t.errors.len() as u64);
    for e in &t.errors {
        enc_lex_err(e, out);
    }
}

pub fn enc_tokens(ts: &[Token], out: &mut Vec<u64>) {
    out.push(ts.len() as u64);
    for t in ts {
        enc_token(t, out);
    }
}

pub fn text_of(nums: &[u64]) -> Option<String> {
    nums.iter()
        .map(|&n| char::from_u32(n as u32))
        .collect::<Option<String>>()
}
