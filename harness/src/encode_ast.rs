//! Canonical numeric encoding of the syntax tree (twin of coq/theories/Judge/DumpAst.v).
use crate::encode::enc_text;
use spl_frontend::ast::*;
use spl_frontend::error::*;

fn enc_pmsg(m: &ParseErrorMessage, out: &mut Vec<u64>) {
    use ParseErrorMessage::*;
    match m {
        MissingOpening(c) => out.extend([0, *c as u64]),
        MissingClosing(c) => out.extend([1, *c as u64]),
        MissingTrailingSemic => out.push(2),
        UnexpectedCharacters(s) => {
            out.push(3);
            enc_text(s, out)
        }
        ExpectedToken(s) => {
            out.push(4);
            enc_text(s, out)
        }
        ConfusedToken(a, b) => {
            out.push(5);
            enc_text(a, out);
            enc_text(b, out)
        }
        // a message the model does not know
        #[allow(unreachable_patterns)]
        _ => out.push(998),
    }
}

fn enc_bmsg(m: &BuildErrorMessage, out: &mut Vec<u64>) {
    use BuildErrorMessage::*;
    let (tag, name): (u64, Option<&String>) = match m {
        UndefinedType(n) => (0, Some(n)),
        NotAType(n) => (1, Some(n)),
        RedeclarationAsType(n) => (2, Some(n)),
        MustBeAReferenceParameter(n) => (3, Some(n)),
        RedeclarationAsProcedure(n) => (4, Some(n)),
        RedeclarationAsParameter(n) => (5, Some(n)),
        RedeclarationAsVariable(n) => (6, Some(n)),
        MainIsMissing => (7, None),
        MainIsNotAProcedure => (8, None),
        MainMustNotHaveParameters => (9, None),
        // a message the model does not know
        #[allow(unreachable_patterns)]
        _ => (998, None),
    };
    out.push(tag);
    if let Some(n) = name {
        enc_text(n, out);
    }
}

fn enc_smsg(m: &SemanticErrorMessage, out: &mut Vec<u64>) {
    use SemanticErrorMessage::*;
    match m {
        AssignmentHasDifferentTypes => out.push(0),
        AssignmentRequiresIntegers => out.push(1),
        IfConditionMustBeBoolean => out.push(2),
        WhileConditionMustBeBoolean => out.push(3),
        UndefinedProcedure(n) => {
            out.push(4);
            enc_text(n, out)
        }
        CallOfNoneProcedure(n) => {
            out.push(5);
            enc_text(n, out)
        }
        ArgumentsTypeMismatch(n, i) => {
            out.push(6);
            enc_text(n, out);
            out.push(*i as u64)
        }
        ArgumentMustBeAVariable(n, i) => {
            out.push(7);
            enc_text(n, out);
            out.push(*i as u64)
        }
        TooFewArguments(n) => {
            out.push(8);
            enc_text(n, out)
        }
        TooManyArguments(n) => {
            out.push(9);
            enc_text(n, out)
        }
        OperatorDifferentTypes => out.push(10),
        ComparisonNonInteger => out.push(11),
        ArithmeticOperatorNonInteger => out.push(12),
        UndefinedVariable(n) => {
            out.push(13);
            enc_text(n, out)
        }
        NotAVariable(n) => {
            out.push(14);
            enc_text(n, out)
        }
        IndexingNonArray => out.push(15),
        IndexingWithNonInteger => out.push(16),
        // a message the model does not know
        #[allow(unreachable_patterns)]
        _ => out.push(998),
    }
}

pub fn enc_emsg(m: &ErrorMessage, out: &mut Vec<u64>) {
    match m {
        ErrorMessage::LexErrorMessage(_) => out.push(0),
        ErrorMessage::ParseErrorMessage(m) => {
            out.push(1);
            enc_pmsg(m, out)
        }
        ErrorMessage::BuildErrorMessage(m) => {
            out.push(2);
            enc_bmsg(m, out)
        }
        ErrorMessage::SemanticErrorMessage(m) => {
            out.push(3);
            enc_smsg(m, out)
        }
        #[allow(unreachable_patterns)]
        _ => out.push(998),
    }
}

pub fn enc_err(e: &SplError, out: &mut Vec<u64>) {
    out.push(e.0.start as u64);
    out.push(e.0.end as u64);
    enc_emsg(&e.1, out);
}

thread_local! {
    /// when set, only syntax errors are encoded (build and semantic messages are skipped)
    pub static PARSE_ERRORS_ONLY: std::cell::Cell<bool> = std::cell::Cell::new(false);
}

fn enc_info(i: &AstInfo, out: &mut Vec<u64>) {
    out.push(i.range.start as u64);
    out.push(i.range.end as u64);
    let only = PARSE_ERRORS_ONLY.with(|c| c.get());
    let errs: Vec<&SplError> = i
        .errors
        .iter()
        .filter(|e| !only || matches!(e.1, ErrorMessage::ParseErrorMessage(_)))
        .collect();
    out.push(errs.len() as u64);
    for e in errs {
        enc_err(e, out);
    }
}

fn enc_ident(i: &Identifier, out: &mut Vec<u64>) {
    enc_text(&i.value, out);
    enc_info(&i.info, out);
}

fn enc_intlit(i: &IntLiteral, out: &mut Vec<u64>) {
    match i.value {
        Some(v) => out.extend([1, v as u64]),
        None => out.push(0),
    }
    enc_info(&i.info, out);
}

fn op_tag(o: &Operator) -> u64 {
    use Operator::*;
    match o {
        Add => 0,
        Sub => 1,
        Mul => 2,
        Div => 3,
        Equ => 4,
        Neq => 5,
        Lst => 6,
        Lse => 7,
        Grt => 8,
        Gre => 9,
    }
}

fn enc_var(v: &Variable, out: &mut Vec<u64>) {
    match v {
        Variable::NamedVariable(i) => {
            out.push(0);
            enc_ident(i, out)
        }
        Variable::ArrayAccess(a) => {
            out.push(1);
            enc_var(&a.array, out);
            match &a.index {
                Some(r) => {
                    out.push(1);
                    out.push(r.offset as u64);
                    enc_expr(&r.reference, out)
                }
                None => out.push(0),
            }
            enc_info(&a.info, out)
        }
    }
}

fn enc_expr(e: &Expression, out: &mut Vec<u64>) {
    match e {
        Expression::Binary(b) => {
            out.push(0);
            out.push(op_tag(&b.operator));
            enc_expr(&b.lhs, out);
            enc_expr(&b.rhs, out);
            enc_info(&b.info, out)
        }
        Expression::Bracketed(b) => {
            out.push(1);
            enc_expr(&b.expr, out);
            enc_info(&b.info, out)
        }
        Expression::IntLiteral(i) => {
            out.push(2);
            enc_intlit(i, out)
        }
        Expression::Unary(u) => {
            out.push(3);
            out.push(op_tag(&u.operator));
            enc_expr(&u.expr, out);
            enc_info(&u.info, out)
        }
        Expression::Variable(v) => {
            out.push(4);
            enc_var(v, out)
        }
        Expression::Error(i) => {
            out.push(5);
            enc_info(i, out)
        }
    }
}

fn enc_texpr(t: &TypeExpression, out: &mut Vec<u64>) {
    match t {
        TypeExpression::NamedType(i) => {
            out.push(0);
            enc_ident(i, out)
        }
        TypeExpression::ArrayType {
            size,
            base_type,
            info,
        } => {
            out.push(1);
            match size {
                Some(s) => {
                    out.push(1);
                    enc_intlit(s, out)
                }
                None => out.push(0),
            }
            match base_type {
                Some(r) => {
                    out.push(1);
                    out.push(r.offset as u64);
                    enc_texpr(&r.reference, out)
                }
                None => out.push(0),
            }
            enc_info(info, out)
        }
    }
}

fn enc_docs(d: &[String], out: &mut Vec<u64>) {
    out.push(d.len() as u64);
    for s in d {
        enc_text(s, out);
    }
}

fn enc_opt_ref_expr(r: &Option<Reference<Expression>>, out: &mut Vec<u64>) {
    match r {
        Some(r) => {
            out.push(1);
            out.push(r.offset as u64);
            enc_expr(&r.reference, out)
        }
        None => out.push(0),
    }
}

fn enc_opt_ref_stmt(r: &Option<Box<Reference<Statement>>>, out: &mut Vec<u64>) {
    match r {
        Some(r) => {
            out.push(1);
            out.push(r.offset as u64);
            enc_stmt(&r.reference, out)
        }
        None => out.push(0),
    }
}

fn enc_opt_ref_texpr(r: &Option<Reference<TypeExpression>>, out: &mut Vec<u64>) {
    match r {
        Some(r) => {
            out.push(1);
            out.push(r.offset as u64);
            enc_texpr(&r.reference, out)
        }
        None => out.push(0),
    }
}

fn enc_opt_ident(i: &Option<Identifier>, out: &mut Vec<u64>) {
    match i {
        Some(i) => {
            out.push(1);
            enc_ident(i, out)
        }
        None => out.push(0),
    }
}

fn enc_stmts(l: &[Reference<Statement>], out: &mut Vec<u64>) {
    out.push(l.len() as u64);
    for r in l {
        out.push(r.offset as u64);
        enc_stmt(&r.reference, out);
    }
}

fn enc_stmt(s: &Statement, out: &mut Vec<u64>) {
    match s {
        Statement::Empty(i) => {
            out.push(0);
            enc_info(i, out)
        }
        Statement::Assignment(a) => {
            out.push(1);
            enc_var(&a.variable, out);
            enc_opt_ref_expr(&a.expr, out);
            enc_info(&a.info, out)
        }
        Statement::Call(c) => {
            out.push(2);
            enc_ident(&c.name, out);
            out.push(c.arguments.len() as u64);
            for r in &c.arguments {
                out.push(r.offset as u64);
                enc_expr(&r.reference, out);
            }
            enc_info(&c.info, out)
        }
        Statement::If(i) => {
            out.push(3);
            enc_opt_ref_expr(&i.condition, out);
            enc_opt_ref_stmt(&i.if_branch, out);
            enc_opt_ref_stmt(&i.else_branch, out);
            enc_info(&i.info, out)
        }
        Statement::While(w) => {
            out.push(4);
            enc_opt_ref_expr(&w.condition, out);
            enc_opt_ref_stmt(&w.statement, out);
            enc_info(&w.info, out)
        }
        Statement::Block(b) => {
            out.push(5);
            enc_stmts(&b.statements, out);
            enc_info(&b.info, out)
        }
        Statement::Error(i) => {
            out.push(6);
            enc_info(i, out)
        }
    }
}

fn enc_vardecl(v: &VariableDeclaration, out: &mut Vec<u64>) {
    match v {
        VariableDeclaration::Valid {
            doc,
            name,
            type_expr,
            info,
        } => {
            out.push(0);
            enc_docs(doc, out);
            enc_opt_ident(name, out);
            enc_opt_ref_texpr(type_expr, out);
            enc_info(info, out)
        }
        VariableDeclaration::Error(i) => {
            out.push(1);
            enc_info(i, out)
        }
    }
}

fn enc_paramdecl(p: &ParameterDeclaration, out: &mut Vec<u64>) {
    match p {
        ParameterDeclaration::Valid {
            doc,
            is_ref,
            name,
            type_expr,
            info,
        } => {
            out.push(0);
            enc_docs(doc, out);
            out.push(*is_ref as u64);
            enc_opt_ident(name, out);
            enc_opt_ref_texpr(type_expr, out);
            enc_info(info, out)
        }
        ParameterDeclaration::Error(i) => {
            out.push(1);
            enc_info(i, out)
        }
    }
}

fn enc_gdecl(g: &GlobalDeclaration, out: &mut Vec<u64>) {
    match g {
        GlobalDeclaration::Type(d) => {
            out.push(0);
            enc_docs(&d.doc, out);
            enc_opt_ident(&d.name, out);
            enc_opt_ref_texpr(&d.type_expr, out);
            enc_info(&d.info, out)
        }
        GlobalDeclaration::Procedure(d) => {
            out.push(1);
            enc_docs(&d.doc, out);
            enc_opt_ident(&d.name, out);
            out.push(d.parameters.len() as u64);
            for r in &d.parameters {
                out.push(r.offset as u64);
                enc_paramdecl(&r.reference, out);
            }
            out.push(d.variable_declarations.len() as u64);
            for r in &d.variable_declarations {
                out.push(r.offset as u64);
                enc_vardecl(&r.reference, out);
            }
            enc_stmts(&d.statements, out);
            enc_info(&d.info, out)
        }
        GlobalDeclaration::Error(i) => {
            out.push(2);
            enc_info(i, out)
        }
    }
}

pub fn enc_program(p: &Program, out: &mut Vec<u64>) {
    out.push(p.global_declarations.len() as u64);
    for r in &p.global_declarations {
        out.push(r.offset as u64);
        enc_gdecl(&r.reference, out);
    }
    enc_info(&p.info, out);
}
