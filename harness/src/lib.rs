//! Canonical numeric encoding of spl_frontend's observable values.
//! The same encoding is defined independently in Coq (coq/theories/Judge/Dump.v).
pub mod encode;
pub mod encode_ast;
pub mod encode_table;
