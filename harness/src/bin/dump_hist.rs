//! C01: edit histories through the real AnalyzedSource::update.
//! Command line: `17 n old[n] q ( k ( cs ce m ins[m] ){k} ){q}` - q notifications of k changes each.
//! Output: `0` then per notification  `r f_text f_tokens f_ast f_table f_errors len enc..` where r = 0 (done; the
//! flags compare the updated document with AnalyzedSource::new of its text, 1 = equal; enc = the whole updated
//! document: tree with all attached diagnostics, errors(), table; `len` numbers) or `1` (update panicked; the history ends) ; `3` = a change does not
//! address the current text.
use spl_frontend::{AnalyzedSource, ErrorContainer, TextChange};
use std::io::{BufRead, Write};
use std::panic::{catch_unwind, AssertUnwindSafe};
use verif_harness::encode::*;
use verif_harness::encode_ast::*;

fn run_hist(args: &[u64]) -> Vec<u64> {
    let mut i = 0;
    let n = args[i] as usize;
    i += 1;
    let old = text_of(&args[i..i + n]).expect("bad text");
    i += n;
    let q = args[i] as usize;
    i += 1;
    let mut doc = match catch_unwind(AssertUnwindSafe(|| AnalyzedSource::new(old))) {
        Ok(d) => d,
        Err(_) => return vec![1],
    };
    let mut out = vec![0];
    for _ in 0..q {
        let k = args[i] as usize;
        i += 1;
        let mut changes = Vec::new();
        let mut text = doc.text.clone();
        for _ in 0..k {
            let cs = args[i] as usize;
            let ce = args[i + 1] as usize;
            let m = args[i + 2] as usize;
            let ins = text_of(&args[i + 3..i + 3 + m]).expect("bad text");
            i += 3 + m;
            if ce < cs || ce > text.len() || !text.is_char_boundary(cs) || !text.is_char_boundary(ce) {
                out.push(3);
                return out;
            }
            text.replace_range(cs..ce, &ins);
            changes.push(TextChange {
                range: cs..ce,
                text: ins,
            });
        }
        let d = doc.clone();
        match catch_unwind(AssertUnwindSafe(move || d.update(changes))) {
            Ok(updated) => {
                let fresh = match catch_unwind(AssertUnwindSafe(|| AnalyzedSource::new(text.clone()))) {
                    Ok(f) => f,
                    Err(_) => {
                        out.push(4);
                        return out;
                    }
                };
                out.push(0);
                out.push((updated.text == fresh.text) as u64);
                out.push((updated.tokens == fresh.tokens) as u64);
                out.push((updated.ast == fresh.ast) as u64);
                out.push((updated.table == fresh.table) as u64);
                let e1 = catch_unwind(AssertUnwindSafe(|| updated.errors()));
                let e2 = catch_unwind(AssertUnwindSafe(|| fresh.errors()));
                out.push(match (e1, e2) {
                    (Ok(a), Ok(b)) => (a == b) as u64,
                    _ => 0,
                });
                let mut enc = Vec::new();
                enc_program(&updated.ast, &mut enc);
                match catch_unwind(AssertUnwindSafe(|| updated.errors())) {
                    Ok(errs) => {
                        enc.push(1);
                        enc.push(errs.len() as u64);
                        for e in &errs {
                            enc.push(e.0.start as u64);
                            enc.push(e.0.end as u64);
                            enc_emsg(&e.1, &mut enc);
                        }
                    }
                    Err(_) => enc.push(0),
                }
                verif_harness::encode_table::enc_global_table(&updated.table, &mut enc);
                out.push(enc.len() as u64);
                out.extend(enc);
                doc = updated;
            }
            Err(_) => {
                out.push(1);
                return out;
            }
        }
    }
    out
}

fn main() {
    std::panic::set_hook(Box::new(|_| {}));
    let stdin = std::io::stdin();
    let stdout = std::io::stdout();
    let mut w = std::io::BufWriter::new(stdout.lock());
    for line in stdin.lock().lines() {
        let line = line.unwrap();
        let nums: Vec<u64> = line
            .split_ascii_whitespace()
            .map(|s| s.parse().unwrap())
            .collect();
        let out = match nums.first() {
            Some(17) => run_hist(&nums[1..]),
            _ => vec![4],
        };
        let strs: Vec<String> = out.iter().map(|n| n.to_string()).collect();
        writeln!(w, "{}", strs.join(" ")).unwrap();
    }
}
