//! Prints the diagnostics (byte ranges) of the text given as first argument.
use spl_frontend::{AnalyzedSource, ErrorContainer};
fn main() {
    let text = std::env::args().nth(1).unwrap();
    let src = AnalyzedSource::new(text.clone());
    for e in src.errors() {
        println!("{:?} {:?} {}", e.0.clone(), text.get(e.0.clone()), e.1.to_string().trim());
    }
}
