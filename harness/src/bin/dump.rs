//! Runs the implementation on commands (one per line, numbers separated by spaces; the same
//! command language as coq/theories/Judge/Run.v) and prints the canonical encoding of the output.
use spl_frontend::{lexer, TextChange};
use std::io::{BufRead, Write};
use std::panic::{catch_unwind, AssertUnwindSafe};
use verif_harness::encode::*;
use verif_harness::encode_ast::*;

fn run_lex(args: &[u64]) -> Vec<u64> {
    let text = text_of(args).expect("bad text");
    match catch_unwind(AssertUnwindSafe(|| lexer::lex(&text))) {
        Ok(tokens) => {
            let mut out = vec![0];
            enc_tokens(&tokens, &mut out);
            out
        }
        Err(_) => vec![1],
    }
}

fn run_update(args: &[u64]) -> Vec<u64> {
    let n = args[0] as usize;
    let old = text_of(&args[1..1 + n]).expect("bad text");
    let cs = args[1 + n] as usize;
    let ce = args[2 + n] as usize;
    let ins = text_of(&args[3 + n..]).expect("bad text");
    if ce < cs || ce > old.len() || !old.is_char_boundary(cs) || !old.is_char_boundary(ce) {
        return vec![3];
    }
    let tokens = lexer::lex(&old);
    let mut new = old.clone();
    new.replace_range(cs..ce, &ins);
    let change = TextChange {
        range: cs..ce,
        text: ins,
    };
    match catch_unwind(AssertUnwindSafe(|| lexer::update(&new, tokens, &change))) {
        Ok((tokens, tc)) => {
            let mut out = vec![
                0,
                tc.deletion_range.start as u64,
                tc.deletion_range.end as u64,
                tc.insertion_len as u64,
            ];
            enc_tokens(&tokens, &mut out);
            out
        }
        Err(_) => vec![1],
    }
}

fn run_parse(args: &[u64]) -> Vec<u64> {
    let text = text_of(args).expect("bad text");
    match catch_unwind(AssertUnwindSafe(|| {
        let tokens = lexer::lex(&text);
        spl_frontend::parser::parse(&tokens)
    })) {
        Ok(program) => {
            let mut out = vec![0];
            enc_program(&program, &mut out);
            out
        }
        Err(_) => vec![1],
    }
}

fn run_incparse(args: &[u64]) -> Vec<u64> {
    let n = args[0] as usize;
    let old = text_of(&args[1..1 + n]).expect("bad text");
    let cs = args[1 + n] as usize;
    let ce = args[2 + n] as usize;
    let ins = text_of(&args[3 + n..]).expect("bad text");
    if ce < cs || ce > old.len() || !old.is_char_boundary(cs) || !old.is_char_boundary(ce) {
        return vec![3];
    }
    let tokens = lexer::lex(&old);
    let tree = spl_frontend::parser::parse(&tokens);
    let mut new = old.clone();
    new.replace_range(cs..ce, &ins);
    let change = TextChange {
        range: cs..ce,
        text: ins,
    };
    match catch_unwind(AssertUnwindSafe(|| {
        let (tokens, tc) = lexer::update(&new, tokens, &change);
        spl_frontend::parser::update(
            tree,
            spl_frontend::tokens::TokenStream::new_with_change(&tokens, tc),
        )
    })) {
        Ok(program) => {
            let mut out = vec![0];
            enc_program(&program, &mut out);
            out
        }
        Err(_) => vec![1],
    }
}

fn main() {
    std::panic::set_hook(Box::new(|_| {}));
    let stdin = std::io::stdin();
    let stdout = std::io::stdout();
    let mut w = std::io::BufWriter::new(stdout.lock());
    for line in stdin.lock().lines() {
        let line = line.unwrap();
        let nums: Vec<u64> = line
            .split_ascii_whitespace()
            .map(|s| s.parse().unwrap())
            .collect();
        let out = match nums.first() {
            Some(1) => run_lex(&nums[1..]),
            Some(2) => run_update(&nums[1..]),
            Some(7) => run_parse(&nums[1..]),
            Some(14) => run_incparse(&nums[1..]),
            Some(15) => run_parse(&nums[1..]),
            _ => vec![4],
        };
        let strs: Vec<String> = out.iter().map(|n| n.to_string()).collect();
        writeln!(w, "{}", strs.join(" ")).unwrap();
    }
}
