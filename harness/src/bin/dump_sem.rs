//! Judge command 8 on the implementation: `8 <code points>` -> AnalyzedSource::new(text), .errors()
//! and .table, printed in the canonical encoding (twin of coq/theories/Judge/RunSem.v):
//!   0 list(start-byte end-byte message) global-table | 1 (panic)
use spl_frontend::{AnalyzedSource, ErrorContainer};
use std::io::{BufRead, Write};
use std::panic::{catch_unwind, AssertUnwindSafe};
use verif_harness::encode::text_of;
use verif_harness::encode_ast::enc_err;
use verif_harness::encode_table::enc_global_table;

fn run_sem(args: &[u64]) -> Vec<u64> {
    let text = text_of(args).expect("bad text");
    match catch_unwind(AssertUnwindSafe(|| {
        let doc = AnalyzedSource::new(text);
        let errors = doc.errors();
        (doc, errors)
    })) {
        Ok((doc, errors)) => {
            let mut out = vec![0, errors.len() as u64];
            for e in &errors {
                enc_err(e, &mut out);
            }
            enc_global_table(&doc.table, &mut out);
            out
        }
        Err(_) => vec![1],
    }
}

fn main() {
    std::panic::set_hook(Box::new(|_| {}));
    let stdin = std::io::stdin();
    let stdout = std::io::stdout();
    let mut w = std::io::BufWriter::new(stdout.lock());
    for line in stdin.lock().lines() {
        let line = line.unwrap();
        let nums: Vec<u64> = line
            .split_ascii_whitespace()
            .map(|s| s.parse().unwrap())
            .collect();
        let out = match nums.first() {
            Some(8) => run_sem(&nums[1..]),
            _ => vec![4],
        };
        let strs: Vec<String> = out.iter().map(|n| n.to_string()).collect();
        writeln!(w, "{}", strs.join(" ")).unwrap();
    }
}
