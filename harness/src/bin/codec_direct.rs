//! C19: runs the real codec (lsp4spl/src/io.rs, included verbatim) on commands, one per line,
//! numbers separated by spaces; the same command language and output encoding as
//! coq/theories/Judge/RunCodec.v.
//!
//!   1 b1 .. bn                      LSCodec::decode on a BytesMut holding the n bytes
//!        -> 0                        Ok(None)
//!           1 consumed len body..    the buffer was advanced (Ok(Some(_)) or Err(InvalidContent))
//!           2                        Err(InvalidHeaders)
//!           3                        panic
//!           4 consumed len body..    Ok(None) although the buffer was advanced (must not happen)
//!   2 k n1 c1.. n2 c2.. ..          tokio_util::codec::FramedRead<_, LSCodec> over an AsyncRead that
//!                                   yields exactly the k chunks (empty chunks are not reads), then EOF
//!        -> count events..           0 len body..  Some(Ok(message))
//!                                   1             Some(Err(InvalidHeaders))          (stream stops)
//!                                   2 len body..  Some(Err(InvalidContent))          (stream stops)
//!                                   3             panic                              (stream stops)
//!                                   4             Some(Err(IOError)) = "bytes remaining on stream"
//!   3 b1 .. bn                      the n bytes are deserialised to a Message (as decode does) and given
//!                                   to LSCodec::encode
//!        -> 0 e1 .. em               the bytes appended to the output buffer
//!           1                        the bytes are not a Message / encode failed
#![allow(dead_code, unused_imports)]
#[path = "/repo/lsp4spl/src/error.rs"]
mod error;
#[path = "/repo/lsp4spl/src/io.rs"]
mod io;

use bytes::BytesMut;
use error::CodecError;
use futures::StreamExt;
use io::LSCodec;
use std::collections::VecDeque;
use std::io::{BufRead, Write};
use std::panic::{catch_unwind, AssertUnwindSafe};
use std::pin::Pin;
use std::task::{Context, Poll};
use tokio::io::{AsyncRead, ReadBuf};
use tokio_util::codec::{Decoder, Encoder, FramedRead};

/// start of the content of the frame at the beginning of `frame` (the same httparse call as the codec)
fn content_start(frame: &[u8]) -> usize {
    let mut headers = [httparse::EMPTY_HEADER; 2];
    match httparse::parse_headers(frame, &mut headers) {
        Ok(httparse::Status::Complete((start, _))) => start,
        other => fail(&format!("consumed frame without complete headers: {:?}", other.map(|_| ()))),
    }
}

fn fail(msg: &str) -> ! {
    eprintln!("codec_direct: {}", msg);
    std::process::exit(3)
}

/// `span` holds the frames consumed since the previous item; all but the last one were consumed
/// silently (must not happen, see output 4 of command 1).  Returns the offset of the last frame,
/// found by letting the codec itself consume the span frame by frame.
fn last_frame_start(span: &[u8]) -> usize {
    // padding: decode refuses buffers shorter than 21 bytes; more bytes do not change what is consumed
    const PAD: usize = 32;
    let mut scratch = BytesMut::from(span);
    scratch.extend_from_slice(&[b' '; PAD]);
    loop {
        let before = scratch.len();
        let _ = catch_unwind(AssertUnwindSafe(|| LSCodec.decode(&mut scratch)));
        if scratch.len() == PAD {
            return span.len() + PAD - before;
        }
        if scratch.len() == before || scratch.len() < PAD {
            fail("cannot locate the frame of an item");
        }
    }
}

fn push_body(out: &mut Vec<u64>, frame: &[u8]) {
    let frame = &frame[last_frame_start(frame)..];
    let body = &frame[content_start(frame)..];
    out.push(body.len() as u64);
    out.extend(body.iter().map(|b| *b as u64));
}

fn run_decode(args: &[u64]) -> Vec<u64> {
    let bytes: Vec<u8> = args.iter().map(|n| *n as u8).collect();
    let mut buf = BytesMut::from(&bytes[..]);
    let before = buf.len();
    let res = catch_unwind(AssertUnwindSafe(|| LSCodec.decode(&mut buf)));
    let consumed = before - buf.len();
    match res {
        Err(_) => vec![3],
        Ok(Ok(None)) if consumed == 0 => vec![0],
        Ok(Ok(None)) => {
            // "need more bytes" although a frame was consumed (the defect repaired by /repo e5c7771)
            let mut out = vec![4, consumed as u64];
            push_body(&mut out, &bytes[..consumed]);
            out
        }
        Ok(Err(CodecError::InvalidHeaders)) => {
            if consumed != 0 {
                fail("InvalidHeaders but the buffer was advanced");
            }
            vec![2]
        }
        Ok(Ok(Some(_))) | Ok(Err(CodecError::InvalidContent(_))) => {
            let mut out = vec![1, consumed as u64];
            push_body(&mut out, &bytes[..consumed]);
            out
        }
        Ok(Err(CodecError::IOError(_))) => vec![99],
    }
}

/// AsyncRead that yields exactly the given chunks, one per read, then EOF
struct Chunked {
    chunks: VecDeque<Vec<u8>>,
    delivered: usize,
    resplit: usize,
}

impl AsyncRead for Chunked {
    fn poll_read(mut self: Pin<&mut Self>, _cx: &mut Context<'_>, buf: &mut ReadBuf<'_>) -> Poll<std::io::Result<()>> {
        let me = &mut *self;
        while let Some(front) = me.chunks.front_mut() {
            if front.is_empty() {
                me.chunks.pop_front();
                continue;
            }
            let n = front.len().min(buf.remaining());
            buf.put_slice(&front[..n]);
            me.delivered += n;
            if n == front.len() {
                me.chunks.pop_front();
            } else {
                front.drain(..n); // the read buffer was smaller than the chunk: finer segmentation
                me.resplit += 1;
            }
            break;
        }
        Poll::Ready(Ok(()))
    }
}

fn run_stream(args: &[u64]) -> Vec<u64> {
    let k = args[0] as usize;
    let mut chunks = VecDeque::new();
    let mut all: Vec<u8> = Vec::new();
    let mut i = 1;
    for _ in 0..k {
        let n = args[i] as usize;
        let c: Vec<u8> = args[i + 1..i + 1 + n].iter().map(|x| *x as u8).collect();
        all.extend_from_slice(&c);
        chunks.push_back(c);
        i += 1 + n;
    }
    if i != args.len() {
        fail("malformed command 2");
    }
    let reader = Chunked { chunks, delivered: 0, resplit: 0 };
    let mut framed = FramedRead::with_capacity(reader, LSCodec, all.len().max(8 * 1024) + 64);
    let rt = tokio::runtime::Builder::new_current_thread().build().unwrap();
    let mut events: Vec<u64> = Vec::new();
    let mut count = 0u64;
    let mut consumed = 0usize;
    loop {
        let item = catch_unwind(AssertUnwindSafe(|| rt.block_on(framed.next())));
        let now = framed.get_ref().delivered - framed.read_buffer().len();
        match item {
            Err(_) => {
                events.push(3);
                count += 1;
                break;
            }
            Ok(None) => break,
            Ok(Some(Ok(_))) => {
                events.push(0);
                push_body(&mut events, &all[consumed..now]);
                count += 1;
            }
            Ok(Some(Err(CodecError::InvalidHeaders))) => {
                events.push(1);
                count += 1;
                break;
            }
            Ok(Some(Err(CodecError::InvalidContent(_)))) => {
                events.push(2);
                push_body(&mut events, &all[consumed..now]);
                count += 1;
                break;
            }
            Ok(Some(Err(CodecError::IOError(_)))) => {
                events.push(4);
                count += 1;
                break;
            }
        }
        consumed = now;
    }
    if framed.get_ref().resplit != 0 {
        fail("a chunk did not fit the read buffer");
    }
    let mut out = vec![count];
    out.extend(events);
    out
}

fn run_encode(args: &[u64]) -> Vec<u64> {
    let bytes: Vec<u8> = args.iter().map(|n| *n as u8).collect();
    let msg: io::Message = match serde_json::from_slice(&bytes) {
        Ok(m) => m,
        Err(_) => return vec![1],
    };
    let mut dst = BytesMut::new();
    match LSCodec.encode(msg, &mut dst) {
        Ok(()) => {
            let mut out = vec![0];
            out.extend(dst.iter().map(|b| *b as u64));
            out
        }
        Err(_) => vec![1],
    }
}

fn main() {
    std::panic::set_hook(Box::new(|_| {}));
    let stdin = std::io::stdin();
    let stdout = std::io::stdout();
    let mut w = std::io::BufWriter::new(stdout.lock());
    for line in stdin.lock().lines() {
        let line = line.unwrap();
        let nums: Vec<u64> = line.split_ascii_whitespace().map(|s| s.parse().unwrap()).collect();
        let out = match nums.first() {
            Some(1) => run_decode(&nums[1..]),
            Some(2) => run_stream(&nums[1..]),
            Some(3) => run_encode(&nums[1..]),
            _ => vec![98],
        };
        let strs: Vec<String> = out.iter().map(|n| n.to_string()).collect();
        writeln!(w, "{}", strs.join(" ")).unwrap();
    }
    w.flush().unwrap();
}
