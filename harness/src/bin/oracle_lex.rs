//! Implementation-only oracle for C07: `lexer::update` must return exactly `lexer::lex(new_text)` and a
//! truthful change window.  Two modes:
//!   oracle_lex                 reads "2 <n> <old...> <cs> <ce> <ins...>" commands, prints "ok" / "FAIL <why>"
//!   oracle_lex --exhaustive K I [ALPHABET...]   enumerates all texts of length <= K, all char-boundary ranges,
//!                               all insertions of length <= I; prints one failing command per line (max 50) and a summary
use spl_frontend::error::SplError;
use spl_frontend::tokens::Token;
use spl_frontend::{lexer, TextChange};
use std::io::{BufRead, Write};
use std::panic::{catch_unwind, AssertUnwindSafe};

fn shift_tok(t: &Token, off: isize) -> Token {
    let sh = |x: usize| (x as isize + off) as usize;
    Token {
        token_type: t.token_type.clone(),
        range: sh(t.range.start)..sh(t.range.end),
        errors: t
            .errors
            .iter()
            .map(|SplError(r, m)| SplError(sh(r.start)..sh(r.end), m.clone()))
            .collect(),
    }
}

pub fn check(old: &str, cs: usize, ce: usize, ins: &str) -> Result<(), String> {
    let old_tokens = lexer::lex(old);
    let mut new = old.to_string();
    new.replace_range(cs..ce, ins);
    let change = TextChange {
        range: cs..ce,
        text: ins.to_string(),
    };
    let fresh = lexer::lex(&new);
    let toks = old_tokens.clone();
    let res = catch_unwind(AssertUnwindSafe(|| lexer::update(&new, toks, &change)));
    let (upd, tc) = match res {
        Ok(r) => r,
        Err(_) => return Err("update panicked".into()),
    };
    if upd != fresh {
        return Err(format!("update != lex: {:?} vs {:?}", upd, fresh));
    }
    let (s, e, n) = (tc.deletion_range.start, tc.deletion_range.end, tc.insertion_len);
    if s > e || e > old_tokens.len() {
        return Err(format!("window {:?} out of the old stream", tc));
    }
    if upd.len() + (e - s) != old_tokens.len() + n {
        return Err(format!("window {:?} inconsistent with lengths {} -> {}", tc, old_tokens.len(), upd.len()));
    }
    if upd[..s] != old_tokens[..s] {
        return Err(format!("tokens before the window {:?} changed", tc));
    }
    let off = ins.len() as isize - (ce - cs) as isize;
    let tail_new = &upd[s + n..];
    let tail_old = &old_tokens[e..];
    if tail_new.len() != tail_old.len() {
        return Err(format!("window {:?}: tail lengths differ", tc));
    }
    for (a, b) in tail_new.iter().zip(tail_old) {
        if b.range.start as isize + off < 0 || *a != shift_tok(b, off) {
            return Err(format!("window {:?}: token after the window is not the shifted old token: {:?} vs {:?}", tc, a, b));
        }
    }
    Ok(())
}

/// "3 <n> <text...> (<cs> <ce> <m> <ins...>)*": a history; tokens are carried from update to update
/// (never re-lexed) and compared with a fresh tokenisation after every step.
fn check_chain(nums: &[u64]) -> Result<(), String> {
    let n = nums[0] as usize;
    let mut text = text_of(&nums[1..1 + n]);
    let mut tokens = lexer::lex(&text);
    let mut i = 1 + n;
    let mut step = 0;
    while i < nums.len() {
        let cs = nums[i] as usize;
        let ce = nums[i + 1] as usize;
        let m = nums[i + 2] as usize;
        let ins = text_of(&nums[i + 3..i + 3 + m]);
        i += 3 + m;
        step += 1;
        if ce < cs || ce > text.len() || !text.is_char_boundary(cs) || !text.is_char_boundary(ce) {
            return Err(format!("step {}: bad range (generator error)", step));
        }
        text.replace_range(cs..ce, &ins);
        let change = TextChange { range: cs..ce, text: ins };
        let toks = std::mem::take(&mut tokens);
        let t2 = text.clone();
        let res = catch_unwind(AssertUnwindSafe(move || lexer::update(&t2, toks, &change)));
        match res {
            Ok((upd, _)) => {
                let fresh = lexer::lex(&text);
                if upd != fresh {
                    return Err(format!("step {}: update != lex on {:?}: {:?} vs {:?}", step, text, upd, fresh));
                }
                tokens = upd;
            }
            Err(_) => return Err(format!("step {}: update panicked", step)),
        }
    }
    Ok(())
}

fn text_of(nums: &[u64]) -> String {
    nums.iter().map(|&n| char::from_u32(n as u32).unwrap()).collect()
}

fn exhaustive(k: usize, imax: usize, alpha: Vec<char>) {
    let mut inss: Vec<String> = vec![String::new()];
    let mut frontier = vec![String::new()];
    for _ in 0..imax {
        let mut next = Vec::new();
        for p in &frontier {
            for &c in &alpha {
                let mut s = p.clone();
                s.push(c);
                next.push(s);
            }
        }
        inss.extend(next.iter().cloned());
        frontier = next;
    }
    let mut texts: Vec<String> = vec![String::new()];
    let mut frontier = vec![String::new()];
    for _ in 0..k {
        let mut next = Vec::new();
        for p in &frontier {
            for &c in &alpha {
                let mut s = p.clone();
                s.push(c);
                next.push(s);
            }
        }
        texts.extend(next.iter().cloned());
        frontier = next;
    }
    let nthreads = 16;
    let texts = std::sync::Arc::new(texts);
    let inss = std::sync::Arc::new(inss);
    let mut handles = Vec::new();
    for t in 0..nthreads {
        let texts = texts.clone();
        let inss = inss.clone();
        handles.push(std::thread::spawn(move || {
            let mut count: u64 = 0;
            let mut fails: Vec<String> = Vec::new();
            let mut nfail: u64 = 0;
            for (i, text) in texts.iter().enumerate() {
                if i % nthreads != t {
                    continue;
                }
                let bounds: Vec<usize> = text.char_indices().map(|(i, _)| i).chain(std::iter::once(text.len())).collect();
                for (bi, &cs) in bounds.iter().enumerate() {
                    for &ce in &bounds[bi..] {
                        for ins in inss.iter() {
                            count += 1;
                            if let Err(why) = check(text, cs, ce, ins) {
                                nfail += 1;
                                if fails.len() < 4 {
                                    let t: Vec<String> = text.chars().map(|c| (c as u32).to_string()).collect();
                                    let i: Vec<String> = ins.chars().map(|c| (c as u32).to_string()).collect();
                                    fails.push(format!("FAIL 2 {} {} {} {} {} # {}", t.len(), t.join(" "), cs, ce, i.join(" "), why.chars().take(300).collect::<String>()));
                                }
                            }
                        }
                    }
                }
            }
            (count, nfail, fails)
        }));
    }
    let mut total = 0;
    let mut nfail = 0;
    for h in handles {
        let (c, n, f) = h.join().unwrap();
        total += c;
        nfail += n;
        for l in f {
            println!("{}", l);
        }
    }
    println!("SUMMARY cases={} failures={}", total, nfail);
}

fn main() {
    std::panic::set_hook(Box::new(|_| {}));
    let args: Vec<String> = std::env::args().collect();
    if args.len() >= 4 && args[1] == "--exhaustive" {
        let k: usize = args[2].parse().unwrap();
        let i: usize = args[3].parse().unwrap();
        let alpha: Vec<char> = args[4..].iter().map(|s| char::from_u32(s.parse().unwrap()).unwrap()).collect();
        exhaustive(k, i, alpha);
        return;
    }
    let stdin = std::io::stdin();
    let stdout = std::io::stdout();
    let mut w = std::io::BufWriter::new(stdout.lock());
    for line in stdin.lock().lines() {
        let line = line.unwrap();
        let nums: Vec<u64> = line.split_ascii_whitespace().map(|s| s.parse().unwrap()).collect();
        if nums[0] == 3 {
            match check_chain(&nums[1..]) {
                Ok(()) => writeln!(w, "ok").unwrap(),
                Err(why) => writeln!(w, "FAIL {}", why.replace('\n', " ")).unwrap(),
            }
            continue;
        }
        let n = nums[1] as usize;
        let old = text_of(&nums[2..2 + n]);
        let cs = nums[2 + n] as usize;
        let ce = nums[3 + n] as usize;
        let ins = text_of(&nums[4 + n..]);
        match check(&old, cs, ce, &ins) {
            Ok(()) => writeln!(w, "ok").unwrap(),
            Err(why) => writeln!(w, "FAIL {}", why.replace('\n', " ")).unwrap(),
        }
    }
}
