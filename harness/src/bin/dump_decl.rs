//! C05: containment of a single-token damage.  Command line:
//!   `18 i n1 text1[n1] n2 text2[n2]`  - text1 the original program, text2 the damaged one, i the index of the damaged
//!   global declaration of text1.
//! Output: `0 before after inside table nd1 nd2 delta` (1 = holds):
//!   before  the declarations in front of declaration i are parsed to identical subtrees at identical offsets
//!   after   the declarations behind it are parsed to identical subtrees, offsets shifted by the token-count difference
//!   inside  every syntax diagnostic of text2 lies within the token span of the damaged declaration
//!   table   every other named declaration that owned its table entry still owns an equal entry (range shifted)
//! or `1` when analysing text2 panics, `5` when text1 is not as expected (fewer than i+1 declarations, or has syntax errors).
use spl_frontend::ast::{GlobalDeclaration, Program, Reference};
use spl_frontend::error::ErrorMessage;
use spl_frontend::table::{GlobalEntry, SymbolTable};
use spl_frontend::{lexer, parser, table, ErrorContainer, Shiftable, ToRange};
use std::io::{BufRead, Write};
use std::panic::{catch_unwind, AssertUnwindSafe};
use verif_harness::encode::*;

fn name_of(gd: &GlobalDeclaration) -> Option<String> {
    match gd {
        GlobalDeclaration::Type(t) => t.name.as_ref().map(|n| n.value.clone()),
        GlobalDeclaration::Procedure(p) => p.name.as_ref().map(|n| n.value.clone()),
        GlobalDeclaration::Error(_) => None,
    }
}

/// what "keeps its symbol-table entry" compares: kind, name, documentation and token range of the entry (the
/// data types inside may legitimately change when they refer to the damaged declaration)
fn summary(e: &GlobalEntry, delta: i64) -> (u8, String, Option<String>, i64, i64, usize) {
    match e {
        GlobalEntry::Type(t) => (
            0,
            t.name.value.clone(),
            t.doc.clone(),
            t.range.start as i64 + delta,
            t.range.end as i64 + delta,
            0,
        ),
        GlobalEntry::Procedure(p) => (
            1,
            p.name.value.clone(),
            p.doc.clone(),
            p.range.start as i64 + delta,
            p.range.end as i64 + delta,
            p.parameters.len(),
        ),
    }
}

fn run(args: &[u64]) -> Vec<u64> {
    let i = args[0] as usize;
    let n1 = args[1] as usize;
    let text1 = text_of(&args[2..2 + n1]).expect("bad text");
    let n2 = args[2 + n1] as usize;
    let text2 = text_of(&args[3 + n1..3 + n1 + n2]).expect("bad text");
    let toks1 = lexer::lex(&text1);
    let prog1: Program = parser::parse(&toks1);
    let has_syntax_error = prog1
        .errors()
        .iter()
        .any(|e| matches!(e.1, ErrorMessage::ParseErrorMessage(_)));
    let n = prog1.global_declarations.len();
    if i >= n || has_syntax_error {
        return vec![5];
    }
    let r = catch_unwind(AssertUnwindSafe(|| {
        let toks2 = lexer::lex(&text2);
        let prog2 = parser::parse(&toks2);
        let mut p1 = prog1.clone();
        let mut p2 = prog2.clone();
        let t1 = table::build(&mut p1);
        let t2 = table::build(&mut p2);
        (toks2, prog2, t1, t2)
    }));
    let (toks2, prog2, t1, t2) = match r {
        Ok(x) => x,
        Err(_) => return vec![1],
    };
    let d1: &Vec<Reference<GlobalDeclaration>> = &prog1.global_declarations;
    let d2: &Vec<Reference<GlobalDeclaration>> = &prog2.global_declarations;
    let delta = toks2.len() as i64 - toks1.len() as i64;
    let before = (0..i).all(|j| d2.get(j) == Some(&d1[j]));
    let k = n - i - 1;
    let after = d2.len() >= k
        && (0..k).all(|t| {
            let a = &d1[n - 1 - t];
            let b = &d2[d2.len() - 1 - t];
            a.reference == b.reference && b.offset as i64 == a.offset as i64 + delta
        });
    // span of the damaged declaration in the damaged token vector
    let lo = d1[i].offset;
    let hi = if i + 1 < n {
        (d1[i + 1].offset as i64 + delta) as usize
    } else {
        toks2.len() - 1
    };
    let inside = prog2
        .errors()
        .iter()
        .filter(|e| matches!(e.1, ErrorMessage::ParseErrorMessage(_)))
        .all(|e| {
            if e.0.is_empty() && i + 1 < n {
                // an empty token range k..k stands for the position directly behind token k (AnalyzedSource::errors):
                // behind the first token of the next declaration is no longer inside the damaged one
                lo <= e.0.start && e.0.start < hi
            } else {
                lo <= e.0.start && e.0.end <= hi
            }
        });
    let mut table_ok = true;
    for (j, gd) in d1.iter().enumerate() {
        if j == i {
            continue;
        }
        if let Some(name) = name_of(gd) {
            if let Some(e1) = t1.lookup(&name) {
                let own = e1.to_range() == gd.to_range().shift(gd.offset);
                if own {
                    let want = summary(e1, if j > i { delta } else { 0 });
                    if t2.lookup(&name).map(|e| summary(e, 0)) != Some(want) {
                        table_ok = false;
                    }
                }
            }
        }
    }
    vec![
        0,
        before as u64,
        after as u64,
        inside as u64,
        table_ok as u64,
        n as u64,
        d2.len() as u64,
        (delta + 1000) as u64,
    ]
}

fn main() {
    std::panic::set_hook(Box::new(|_| {}));
    let stdin = std::io::stdin();
    let stdout = std::io::stdout();
    let mut w = std::io::BufWriter::new(stdout.lock());
    for line in stdin.lock().lines() {
        let line = line.unwrap();
        let nums: Vec<u64> = line
            .split_ascii_whitespace()
            .map(|s| s.parse().unwrap())
            .collect();
        let out = match nums.first() {
            Some(18) => run(&nums[1..]),
            _ => vec![4],
        };
        let strs: Vec<String> = out.iter().map(|n| n.to_string()).collect();
        writeln!(w, "{}", strs.join(" ")).unwrap();
    }
}
