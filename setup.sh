#!/bin/bash
# Builds the whole framework offline from files on disk: the Coq development (full .vo build),
# the extracted OCaml judge, the Rust harness and the lsp4spl binary with the `verif` hook.
set -e
cd "$(dirname "$0")"
export CARGO_NET_OFFLINE=true
mkdir -p .cache work evidence
(cd coq && coq_makefile -f _CoqProject -o Makefile && timeout 3000 make -j16)
python3 - <<'PY'
import sys
sys.path.insert(0, "tools")
import common
exe, log = common.build_judge()
assert exe, log
d, log = common.build_harness()
assert d, log
if hasattr(common, "build_server"):
    s, log = common.build_server()
    assert s, log
print("setup ok")
PY
