#!/bin/bash
# Builds the whole framework offline from files on disk: the Coq development needed by the registered checks (full .vo
# build of the extracted judge's sources and of every registered property file with everything they depend on), the
# extracted OCaml judge, the Rust harness and the lsp4spl binary with the `verif` hook.
set -e
cd "$(dirname "$0")"
export CARGO_NET_OFFLINE=true
mkdir -p .cache work evidence
targets=$(python3 - <<'PY'
import json
m = json.load(open("MANIFEST.json"))
print(" ".join(["theories/Judge/Extract.vo", "theories/Props/C16Findings.vo"] + ["theories/Props/%s.vo" % c["property_id"] for c in m["checks"]]))
PY
)
(cd coq && coq_makefile -f _CoqProject -o Makefile && timeout 3000 make -j16 "COQC=timeout 1200 coqc" $targets)
python3 - <<'PY'
import sys
sys.path.insert(0, "tools")
import common
exe, log = common.build_judge()
assert exe, log
d, log = common.build_harness()
assert d, log
s, log = common.build_server()
assert s, log
# prime the Print Assumptions cache (compiling a property file again takes up to three minutes)
import json
from concurrent.futures import ThreadPoolExecutor
pids = [c["property_id"] for c in json.load(open("MANIFEST.json"))["checks"]] + ["C16Findings"]
with ThreadPoolExecutor(8) as ex:
    for pid, rep in zip(pids, ex.map(common.props_report, pids)):
        assert rep["ok"], (pid, rep.get("open"), rep.get("log", "")[-1500:])
print("setup ok")
PY
