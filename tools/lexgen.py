"""Generators and implementation-side oracles for the lexer properties (C06, C07)."""
import itertools
from enc import SPELL, ulen, blen

ALPHA14 = [ord(c) for c in "aif0x'/\\<=:\n "] + [0xE9]
ALPHA16 = ALPHA14 + [ord("n"), ord("1")]
WS = [32, 9, 13, 10]
# code points that LOOK like (or are, for Unicode) white space / nothing at all but are NOT in SPL's blank set {SP, HT, CR, LF}:
# every Unicode White_Space character, the zero-width / format characters, BOM, soft hyphen, a few controls
LOOKALIKES = [0x0B, 0x0C, 0x1C, 0x1D, 0x1E, 0x1F, 0x85, 0xA0, 0xAD, 0x1680, 0x180E] + list(range(0x2000, 0x200E)) + \
             [0x2028, 0x2029, 0x202F, 0x205F, 0x2060, 0x3000, 0xFEFF, 0x00, 0x01, 0x7F, 0xFFFD, 0xE0020]
KEYWORDS = ["if", "else", "while", "array", "of", "proc", "ref", "type", "var"]
SYMS = [k for k in SPELL if SPELL[k] not in KEYWORDS]
KWS = [k for k in SPELL if SPELL[k] in KEYWORDS]


def exhaustive_texts(alpha, maxlen):
    for k in range(maxlen + 1):
        for t in itertools.product(alpha, repeat=k):
            yield list(t)


def random_text(rng, maxlen=40):
    n = rng.randint(0, maxlen)
    pools = [
        lambda: rng.choice(ALPHA16),
        lambda: rng.randint(32, 126),
        lambda: rng.choice([0xE9, 0x141, 0x20AC, 0x1F600, 0xA0, 0x0B, 0x0C, 0x85, 0x2028, 0xFF10, 0x661, 0xFEFF, 0x200B] + LOOKALIKES),
        lambda: rng.choice([ord(c) for c in "(){}[]=#<>:,;+-*/'\\_09azAZxXfFgG \t\r\n"]),
    ]
    w = rng.choice([[6, 2, 1, 3], [1, 6, 1, 2], [2, 2, 4, 2], [1, 1, 1, 6]])
    return [rng.choices(pools, w)[0]() for _ in range(n)]


def digit_texts(rng, n):
    """Number-shaped texts: long digit runs, leading zeros, values around 2^32 (model decides valid/invalid)."""
    out = []
    for _ in range(n):
        v = rng.choice([0, 1, 42, 4294967295, 4294967296, 4294967294, 99999999999, rng.randint(0, 2 ** 33), rng.randint(0, 2 ** 70)])
        body = ("%x" if rng.random() < 0.4 else "%d") % v
        pre = "0x" if body.strip("0123456789") or rng.random() < 0.3 else ""
        t = pre + "0" * rng.choice([0, 0, 1, 2, 8, 9, 10, 11, 12, 30]) + body
        t = rng.choice(["", " ", "a:=", "x"]) + t + rng.choice(["", " ", ";", "x", "g", "0x1"])
        out.append([ord(c) for c in t])
    return out


def lookalike_texts():
    """every look-alike on its own, between / in front of / behind tokens, inside a comment and a character literal"""
    a, b = ord("a"), ord("b")
    for c in LOOKALIKES:
        yield [c]
        yield [a, c, b]
        yield [c] + [ord(x) for x in "proc main() {}"] + [10]
        yield [ord("i"), ord("f"), c, ord("(")]
        yield [a, 32, c, 32, b, c]
        yield [47, 47, c, a, 10, c, b]
        yield [39, c, 39, c]
        yield [ord("0"), c, ord("x"), ord("1")]


def is_alnum_trunc(c):
    b = c % 256
    return (48 <= b <= 57) or (65 <= b <= 90) or (97 <= b <= 122) or c == 95


def is_hex(c):
    return (48 <= c <= 57) or (65 <= c <= 70) or (97 <= c <= 102)


def gen_lexeme(rng, last):
    """returns (kind, value, spelling as str). `last`: whether an end-of-text comment is allowed."""
    r = rng.random()
    if r < 0.25:
        k = rng.choice(SYMS)
        return (k, None, SPELL[k])
    if r < 0.40:
        k = rng.choice(KWS)
        return (k, None, SPELL[k])
    if r < 0.60:
        while True:
            s = rng.choice("abcxyz_ifwtABZ") + "".join(rng.choice("abexifn_019AZ") for _ in range(rng.randint(0, 6)))
            if rng.random() < 0.3:
                s = rng.choice(KEYWORDS) + rng.choice(["x", "_", "0", "if", ""]) if rng.random() < 0.7 else rng.choice(["i", "el", "whil", "typ", "o"])
            if s not in KEYWORDS:
                return ("Ident", s, s)
    if r < 0.72:
        s = rng.choice(["0", "7", "00", "0012", "4294967295", "4294967294", "123456789", "10", "99", "042"])
        if rng.random() < 0.5:
            s = str(rng.randint(0, 4294967295))
        if rng.random() < 0.3:
            # digit+ is the lexical grammar: any number of leading zeros keeps the literal valid
            s = "0" * rng.choice([1, 2, 9, 10, 11, 12, 20, 40]) + s
            s = s[-rng.choice([len(s), 10, 11, 12, 32]):] if rng.random() < 0.5 else s
            if int(s) > 4294967295:
                s = "0" + s[1:]
            if int(s) > 4294967295:
                s = "0" * len(s)
        return ("Int", ("ok", int(s)), s)
    if r < 0.82:
        d = rng.choice(["0", "A", "a", "fF", "FFFFFFFF", "00000000001", "7f", "DEADbeef", "10"])
        if rng.random() < 0.5:
            d = "%x" % rng.randint(0, 4294967295)
        if rng.random() < 0.3:
            d = "0" * rng.choice([1, 2, 7, 8, 9, 10, 20]) + d
        return ("Hex", ("ok", int(d, 16)), "0x" + d)
    if r < 0.90:
        if rng.random() < 0.3:
            return ("Char", "\n", "'\\n'")
        c = rng.choice(["a", "'", "\\", " ", "\n", "\t", "é", "€", "😀", "n", "0", "/"])
        return ("Char", c, "'" + c + "'")
    body = "".join(rng.choice(["a", " ", "/", "'", "é", "😀", "x", "0", "\t", "\r", ":="]) for _ in range(rng.randint(0, 8)))
    if last and rng.random() < 0.5:
        return ("Comment", body, "//" + body)
    return ("Comment", body, "//" + body + "\n")


def delimited(kind, spelling, nxt):
    """Spec-side predicate (LexSpec.Delimited): may `nxt` (code point or None) follow directly?"""
    if nxt is None:
        return True
    if kind == "Ident" or kind in KWS:
        return not is_alnum_trunc(nxt)
    if kind == "Int":
        return not (48 <= nxt <= 57) and not (spelling == "0" and nxt == 120)
    if kind == "Hex":
        return not is_hex(nxt)
    if kind in ("Lt", "Gt", "Colon"):
        return nxt != 61
    if kind == "Divide":
        return nxt != 47
    if kind == "Comment":
        return spelling.endswith("\n")
    return True


def lexeme_concat(rng, maxn=12):
    """A lexically valid text as a list of lexemes and separators; returns (codepoints, expected tokens)."""
    n = rng.randint(0, maxn)
    lex = [gen_lexeme(rng, i == n - 1) for i in range(n)]
    out = []
    exp = []
    sep = "".join(chr(rng.choice(WS)) for _ in range(rng.choice([0, 0, 1, 2])))
    out.append(sep)
    for i, (k, v, sp) in enumerate(lex):
        start = len("".join(out).encode())
        out.append(sp)
        exp.append(dict(kind=k, val=v, s=start, e=start + len(sp.encode()), errs=[]))
        nxt_sp = lex[i + 1][2] if i + 1 < n else None
        sep = "".join(chr(rng.choice(WS)) for _ in range(rng.choice([0, 0, 1, 1, 3])))
        if k == "Comment" and not sp.endswith("\n"):
            sep = ""
        nxt = ord(sep[0]) if sep else (ord(nxt_sp[0]) if nxt_sp else None)
        if not delimited(k, sp, nxt):
            sep = chr(rng.choice(WS)) + sep
        out.append(sep)
    text = "".join(out)
    n_bytes = len(text.encode())
    exp.append(dict(kind="Eof", val=None, s=n_bytes, e=n_bytes, errs=[]))
    return [ord(c) for c in text], exp


def tiling_oracle(cps, toks):
    """Implementation-side statement of the tiling part of C06 on one text. None if it holds."""
    offs = [0]
    for c in cps:
        offs.append(offs[-1] + ulen(c))
    bound = {o: i for i, o in enumerate(offs)}
    total = offs[-1]
    if not toks or toks[-1]["kind"] != "Eof":
        return "last token is not Eof"
    if any(t["kind"] == "Eof" for t in toks[:-1]):
        return "Eof token inside the stream"
    pos = 0
    for t in toks:
        if t["s"] not in bound or t["e"] not in bound:
            return "token %r not on character boundaries" % (t,)
        if t["s"] < pos:
            return "token %r overlaps its predecessor or is out of order" % (t,)
        if t["kind"] != "Eof" and t["e"] <= t["s"]:
            return "empty token %r" % (t,)
        gap = cps[bound[pos]:bound[t["s"]]]
        if any(c not in WS for c in gap):
            return "gap before %r contains non-whitespace %r" % (t, gap)
        if t["kind"] != "Eof" and cps[bound[t["s"]]] in WS:
            return "token %r starts with whitespace" % (t,)
        pos = t["e"]
    if toks[-1]["s"] != total or toks[-1]["e"] != total:
        return "Eof token is not at the end of the text"
    # own text: identifiers / unknown / comments carry their own slice
    for t in toks[:-1]:
        sl = "".join(chr(c) for c in cps[bound[t["s"]]:bound[t["e"]]])
        if t["kind"] in ("Ident", "Unknown") and t["val"] != sl:
            return "token %r does not carry its own text %r" % (t, sl)
        if t["kind"] == "Comment" and sl not in ("//" + t["val"], "//" + t["val"] + "\n"):
            return "comment %r does not carry its own text %r" % (t, sl)
        if t["kind"] in SPELL and SPELL[t["kind"]] != sl:
            return "token %r is not spelled %r" % (t, sl)
        for (es, ee, _, _) in t["errs"]:
            if not (t["s"] <= es <= ee <= t["e"]):
                return "lexical error of %r outside its token" % (t,)
    return None
