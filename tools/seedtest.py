#!/usr/bin/env python3
"""Confirms and evaluates seeded changes (seeded/<pid>/<name>/{patch.diff,demo/,meta.json}).

  seedtest.py confirm <pid>/<name> ...   in a scratch worktree of /repo: the patch applies, the workspace builds, the
                                         unedited suite passes, the demonstration fails with the patch and passes without
  seedtest.py detect  <pid>/<name> ...   runs ./check <pid> --tier quick against the scratch worktree (VERIF_REPO) and
                                         records whether a VIOLATION was reported
Results are merged into seeded/<pid>/<name>/meta.json (keys "confirmed", "detection").  Worktrees and their build
output are removed afterwards.  /repo itself is never modified.
"""
import glob
import json
import os
import re
import shutil
import subprocess
import sys
import time

VERIF = os.path.dirname(os.path.dirname(os.path.abspath(__file__)))
ENV = dict(os.environ, CARGO_NET_OFFLINE="true")


def sh(cmd, cwd=None, env=None, timeout=3600):
    p = subprocess.run(cmd, cwd=cwd, env=env or ENV, stdout=subprocess.PIPE, stderr=subprocess.STDOUT, shell=isinstance(cmd, str),
                       timeout=timeout)
    return p.returncode, p.stdout.decode("utf-8", "replace")


def worktree(tag, base="HEAD"):
    d = "/tmp/seed_" + tag.replace("/", "_")
    sh(["git", "-C", "/repo", "worktree", "remove", "--force", d])
    shutil.rmtree(d, ignore_errors=True)
    rc, out = sh(["git", "-C", "/repo", "worktree", "add", "--detach", d, base])
    assert rc == 0, out
    return d


def drop(d):
    sh(["git", "-C", "/repo", "worktree", "remove", "--force", d])
    shutil.rmtree(d, ignore_errors=True)
    sh(["git", "-C", "/repo", "worktree", "prune"])


def run_demo(sdir, wt, target):
    """returns (passed: bool, log)"""
    demo = os.path.join(sdir, "demo")
    rs = sorted(glob.glob(os.path.join(demo, "*.rs")))
    py = sorted(f for f in glob.glob(os.path.join(demo, "*.py")) if os.path.basename(f) not in ("lspclient.py",))
    env = dict(ENV, CARGO_TARGET_DIR=target)
    if rs:
        readme = open(os.path.join(demo, "README.md")).read() if os.path.exists(os.path.join(demo, "README.md")) else ""
        crate = "lsp4spl" if "lsp4spl/tests" in readme else "spl_frontend"
        os.makedirs(os.path.join(wt, crate, "tests"), exist_ok=True)
        names = []
        for f in rs:
            shutil.copy(f, os.path.join(wt, crate, "tests", os.path.basename(f)))
            names.append(os.path.basename(f)[:-3])
        ok, log = True, ""
        for n in names:
            rc, out = sh(["cargo", "test", "--offline", "-p", crate, "--test", n], cwd=wt, env=env)
            ok = ok and rc == 0
            log += out[-1500:]
        for f in rs:
            os.remove(os.path.join(wt, crate, "tests", os.path.basename(f)))
        return ok, log
    if py:
        feats = ["--features", "verif"]
        rc, out = sh(["cargo", "build", "--offline", "-p", "lsp4spl"] + feats, cwd=wt, env=env)
        if rc != 0:
            return False, "build failed: " + out[-1500:]
        exe = os.path.join(target, "debug", "lsp4spl")
        ok, log = True, ""
        for f in py:
            rc, out = sh(["python3", f, exe], cwd=demo, timeout=600)
            ok = ok and rc == 0
            log += out[-1500:]
        return ok, log
    return False, "no demonstration found"


def confirm(tag, base="HEAD"):
    """`base`: the /repo commit the change was written against (later repairs of /repo may touch the same lines or
    make the demonstration's sample program invalid; the change is confirmed where it was written)"""
    sdir = os.path.join(VERIF, "seeded", tag)
    wt = worktree(tag, base)
    target = os.path.join(wt, "target")
    env = dict(ENV, CARGO_TARGET_DIR=target)
    res = {"at_repo_commit": sh(["git", "-C", wt, "rev-parse", "--short", "HEAD"])[1].strip()}
    try:
        ok0, log0 = run_demo(sdir, wt, target)
        res["demo_passes_without_patch"] = ok0
        rc, out = sh(["git", "-C", wt, "apply", os.path.join(sdir, "patch.diff")])
        res["patch_applies"] = rc == 0
        if rc != 0:
            res["log"] = out[-800:]
            return res
        rc, out = sh(["cargo", "build", "--workspace", "--offline"], cwd=wt, env=env)
        res["builds"] = rc == 0
        rc, out = sh(["cargo", "test", "--workspace", "--no-fail-fast", "--offline"], cwd=wt, env=env)
        passed = sum(int(x) for x in re.findall(r"test result: \w+\. (\d+) passed", out))
        failed = sum(int(x) for x in re.findall(r"test result: \w+\. \d+ passed; (\d+) failed", out))
        res["suite"] = "%d passed, %d failed" % (passed, failed)
        res["suite_ok"] = rc == 0 and passed >= 142 and failed == 0
        ok1, log1 = run_demo(sdir, wt, target)
        res["demo_fails_with_patch"] = not ok1
        res["demo_log_with_patch_tail"] = log1[-600:]
        res["ok"] = bool(ok0 and res["builds"] and res["suite_ok"] and not ok1)
    finally:
        drop(wt)
    return res


def detect(tag, tier="quick"):
    pid = tag.split("/")[0]
    sdir = os.path.join(VERIF, "seeded", tag)
    wt = worktree(tag + "_d")
    try:
        # a change whose patch no longer applies to the current /repo (because a later repair touched the same lines)
        # is carried forward by hand as patch.rebased.diff next to the original
        rebased = os.path.join(sdir, "patch.rebased.diff")
        rc, out = sh(["git", "-C", wt, "apply", rebased if os.path.exists(rebased) else os.path.join(sdir, "patch.diff")])
        assert rc == 0, out
        t0 = time.time()
        env = dict(ENV, VERIF_REPO=wt)
        rc, out = sh([os.path.join(VERIF, "check"), pid, "--tier", tier], cwd=VERIF, env=env, timeout=7200)
        viol = [l for l in out.split("\n") if l.startswith("VIOLATION")]
        res = {"check": "./check %s --tier %s (VERIF_REPO=scratch worktree with the patch)" % (pid, tier),
               "exit_code": rc, "violation_lines": viol[:5], "detected": rc == 1 and bool(viol),
               "wall_s": round(time.time() - t0, 1), "tail": out[-600:]}
        # keep the first replay for the record
        if viol:
            m = re.search(r"replay=(\S+)", viol[0])
            if m and os.path.exists(os.path.join(VERIF, m.group(1))):
                txt = open(os.path.join(VERIF, m.group(1))).read()
                res["replay_excerpt"] = txt[:1500]
    finally:
        drop(wt)
        import hashlib
        alt = hashlib.sha256(os.path.realpath(wt).encode()).hexdigest()[:10]
        shutil.rmtree(os.path.join(VERIF, ".cache", "alt", alt), ignore_errors=True)
        shutil.rmtree(os.path.join(VERIF, "work", "alt", alt), ignore_errors=True)
    return res


def main():
    mode, tags = sys.argv[1], sys.argv[2:]
    base = "HEAD"
    if "--base" in tags:
        i = tags.index("--base")
        base = tags[i + 1]
        tags = tags[:i] + tags[i + 2:]
    for tag in tags:
        mp = os.path.join(VERIF, "seeded", tag, "meta.json")
        meta = json.load(open(mp)) if os.path.exists(mp) else {}
        if mode == "confirm":
            meta["confirmed"] = confirm(tag, base)
            print(tag, "confirmed" if meta["confirmed"].get("ok") else "NOT CONFIRMED", json.dumps(meta["confirmed"])[:400], flush=True)
        else:
            r = detect(tag, "thorough" if mode == "detect-thorough" else "quick")
            meta.setdefault("detection", {})[mode] = r
            print(tag, "DETECTED" if r["detected"] else "MISSED", r["violation_lines"][:2], "%.0fs" % r["wall_s"], flush=True)
        with open(mp, "w") as f:
            json.dump(meta, f, indent=1, ensure_ascii=False)
            f.write("\n")


if __name__ == "__main__":
    main()
