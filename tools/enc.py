"""Decoder for the canonical numeric encoding (see coq/theories/Judge/Dump.v)."""

KINDS = ["LParen", "RParen", "LBracket", "RBracket", "LCurly", "RCurly", "Eq", "Neq", "Lt", "Le", "Gt", "Ge",
         "Assign", "Colon", "Comma", "Semic", "Plus", "Minus", "Times", "Divide", "If", "Else", "While", "Array",
         "Of", "Proc", "Ref", "Type", "Var", "Ident", "Char", "Int", "Hex", "Comment", "Unknown", "Eof"]
KIND_TAG = {k: i for i, k in enumerate(KINDS)}
SPELL = {"LParen": "(", "RParen": ")", "LBracket": "[", "RBracket": "]", "LCurly": "{", "RCurly": "}", "Eq": "=",
         "Neq": "#", "Lt": "<", "Le": "<=", "Gt": ">", "Ge": ">=", "Assign": ":=", "Colon": ":", "Comma": ",",
         "Semic": ";", "Plus": "+", "Minus": "-", "Times": "*", "Divide": "/", "If": "if", "Else": "else",
         "While": "while", "Array": "array", "Of": "of", "Proc": "proc", "Ref": "ref", "Type": "type", "Var": "var"}


class Reader:
    def __init__(self, nums):
        self.n, self.i = nums, 0

    def get(self):
        v = self.n[self.i]
        self.i += 1
        return v

    def text(self):
        k = self.get()
        s = "".join(chr(c) for c in self.n[self.i:self.i + k])
        self.i += k
        return s

    def done(self):
        return self.i == len(self.n)


def read_token(r):
    tag = r.get()
    kind = KINDS[tag]
    val = None
    if kind in ("Ident", "Comment", "Unknown"):
        val = r.text()
    elif kind == "Char":
        val = chr(r.get())
    elif kind in ("Int", "Hex"):
        val = ("ok", r.get()) if r.get() == 0 else ("err", r.text())
    s, e = r.get(), r.get()
    errs = []
    for _ in range(r.get()):
        es, ee, m = r.get(), r.get(), r.get()
        errs.append((es, ee, m, r.text() if m == 2 else None))
    return dict(kind=kind, val=val, s=s, e=e, errs=errs)


def read_tokens(r):
    return [read_token(r) for _ in range(r.get())]


def nums(line):
    return [int(x) for x in line.split()]


def text_nums(s):
    return [ord(c) for c in s]


def ulen(c):
    return 1 if c < 128 else 2 if c < 2048 else 3 if c < 65536 else 4


def blen(cs):
    return sum(ulen(c) for c in cs)
