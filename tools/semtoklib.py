"""Shared helpers of the C15 (semantic tokens) and C16 (completion) checks: a thin session wrapper around
lspclient.Server, an independent LSP position model (lines end at LF, CRLF or a lone CR; columns count UTF-16 code
units), lexing through the Coq lexer model (judge command 1, proved against the lexical grammar in C06), and the
rendering of splgen programs together with the position of every token."""
import queue

import common
import enc
import lspclient
import splgen

TIMEOUT = 5.0


# ---------------------------------------------------------------------------------------------
# positions

def u16(c):
    return 2 if ord(c) >= 0x10000 else 1


def char_positions(t):
    """pos[i] = (line, utf-16 column) of the character offset i (0 <= i <= len(t))"""
    pos = []
    line = col = 0
    i = 0
    n = len(t)
    while i < n:
        c = t[i]
        pos.append((line, col))
        if c == "\n":
            line, col = line + 1, 0
        elif c == "\r":
            if i + 1 < n and t[i + 1] == "\n":
                pass  # the LF ends the line
            else:
                line, col = line + 1, 0
        else:
            col += u16(c)
        i += 1
    pos.append((line, col))
    return pos


def byte_offsets(t):
    """off[i] = byte offset of character offset i; back = dict byte offset -> character offset"""
    off = [0]
    for c in t:
        off.append(off[-1] + enc.ulen(ord(c)))
    return off, {b: i for i, b in enumerate(off)}


def u16len(s):
    return sum(u16(c) for c in s)


# ---------------------------------------------------------------------------------------------
# lexing through the Coq model of the lexer

KEYWORD_KINDS = {"If", "Else", "While", "Array", "Of", "Proc", "Ref", "Type", "Var"}
NUMBER_KINDS = {"Int", "Hex", "Char"}


def lex_class(kind):
    if kind == "Comment":
        return "comment"
    if kind in KEYWORD_KINDS:
        return "keyword"
    if kind in NUMBER_KINDS:
        return "number"
    if kind == "Ident":
        return "ident"
    if kind == "Eof":
        return "eof"
    return "other"


def par_lines(exe, lines, jobs=12):
    """common.run_lines with a fixed number of shards (its own sharding starts a process per 200 lines only;
    the commands here are expensive)"""
    if not lines:
        return []
    n = max(1, min(jobs, len(lines) // 8 + 1))
    res = [None] * len(lines)
    from concurrent.futures import ThreadPoolExecutor
    with ThreadPoolExecutor(n) as ex:
        for k, r in enumerate(ex.map(lambda k: common.run_lines(exe, lines[k::n], jobs=1), range(n))):
            res[k::n] = r
    return res


def lex_texts(judge, texts):
    """[ [dict(kind, val, s, e (bytes), cs, ce (chars), line, col, len16, cls, text)] ] via judge command 1"""
    outs = par_lines(judge, ["1 " + " ".join(str(ord(c)) for c in t) for t in texts])
    res = []
    for t, o in zip(texts, outs):
        r = enc.Reader(enc.nums(o))
        if r.get() != 0:
            raise RuntimeError("lexer model failed on %r" % t)
        toks = enc.read_tokens(r)
        _, back = byte_offsets(t)
        pos = char_positions(t)
        for k in toks:
            k["cs"], k["ce"] = back[k["s"]], back[k["e"]]
            k["line"], k["col"] = pos[k["cs"]]
            k["text"] = t[k["cs"]:k["ce"]]
            k["len16"] = u16len(k["text"])
            k["cls"] = lex_class(k["kind"])
        res.append(toks)
    return res


# ---------------------------------------------------------------------------------------------
# sessions

class Session:
    """one server process; `mute` is set when a request got no answer within TIMEOUT (handler panic)"""

    def __init__(self, exe, timeout=None):
        self.exe = exe
        self.timeout = timeout or TIMEOUT
        self.s = lspclient.Server(exe)
        r = self.s.initialize(diagnostics=False)
        caps = (r or {}).get("result", {}).get("capabilities", {})
        prov = caps.get("semanticTokensProvider") or {}
        self.legend = prov.get("legend") or {}
        self.caps = caps
        self.mute = False
        self.n = 0

    def open(self, text):
        self.n += 1
        uri = "file:///d%d.spl" % self.n
        self.s.open(uri, text)
        return uri

    def close(self, uri):
        self.s.close(uri)

    def request(self, method, params):
        """the `result` of the response; the string 'mute' when there is none; ('error', ..) on an error response"""
        if self.mute:
            return "mute"
        try:
            r = self.s.request(method, params, timeout=self.timeout)
        except queue.Empty:
            r = None
        if r is None:
            self.mute = True
            return "mute"
        if "error" in r:
            return ("error", r["error"].get("code"), r["error"].get("message"))
        return r.get("result")

    def semtok(self, uri):
        r = self.request("textDocument/semanticTokens/full", {"textDocument": {"uri": uri}})
        if isinstance(r, dict):
            return r.get("data")
        return r

    def completion(self, uri, line, col):
        return self.request("textDocument/completion",
                            {"textDocument": {"uri": uri}, "position": {"line": line, "character": col}})

    def kill(self):
        self.s.kill()


def retry_mute(exe, text, action, times=3, timeout=20.0):
    """`No alarms from timing`: a request that got no answer is repeated in up to `times` fresh processes with a long
    timeout; returns the first answer, or 'mute' when every one of them stays silent (a genuine handler panic)"""
    for _ in range(times):
        s = Session(exe, timeout=timeout)
        try:
            uri = s.open(text)
            r = action(s, uri)
        finally:
            s.kill()
        if r != "mute":
            return r
    return "mute"


def confirm_mute(exe, text, action, times=3):
    """True when `action(session, uri)` is answered by silence in `times` fresh processes"""
    return retry_mute(exe, text, action, times) == "mute"


# ---------------------------------------------------------------------------------------------
# semantic tokens: decoding against the legend

def decode(data, legend):
    """[(line, col, length, type name, [modifier names])] or a string describing why `data` is not decodable"""
    if not isinstance(data, list) or len(data) % 5 != 0 or any((not isinstance(x, int)) or x < 0 for x in data):
        return "data is not a list of 5-tuples of unsigned integers"
    types = legend.get("tokenTypes") or []
    mods = legend.get("tokenModifiers") or []
    out = []
    line = col = 0
    for i in range(0, len(data), 5):
        dl, ds, ln, ty, md = data[i:i + 5]
        line += dl
        col = col + ds if dl == 0 else ds
        if ty >= len(types):
            return "token type %d outside the legend" % ty
        if md >> len(mods):
            return "modifier bits %d outside the legend" % md
        out.append((line, col, ln, types[ty], [m for b, m in enumerate(mods) if md >> b & 1]))
    return out


def stream_problems(dec, toks):
    """well-formedness part of C15 on a decoded stream: strictly increasing, non-overlapping, every token
    coincides with one lexical token (same start, same UTF-16 length) whose lexical class agrees.
    Returns (list of problem strings, list of the lexical token index of every decoded token)."""
    probs = []
    at = {(k["line"], k["col"]): i for i, k in enumerate(toks) if k["cls"] != "eof"}
    idxs = []
    prev = None
    for n, (line, col, ln, ty, md) in enumerate(dec):
        if prev is not None:
            pl, pc, pn = prev
            if (line, col) <= (pl, pc):
                probs.append("token %d at %d:%d is not after its predecessor at %d:%d" % (n, line, col, pl, pc))
            elif line == pl and pc + pn > col:
                probs.append("token %d at %d:%d overlaps its predecessor (%d:%d length %d)" % (n, line, col, pl, pc, pn))
        prev = (line, col, ln)
        i = at.get((line, col))
        idxs.append(i)
        if i is None:
            probs.append("token %d at %d:%d (length %d) does not start at a lexical token" % (n, line, col, ln))
            continue
        k = toks[i]
        if k["len16"] != ln:
            probs.append("token %d at %d:%d has length %d, the lexical token %r has %d UTF-16 units" % (n, line, col, ln, k["text"], k["len16"]))
        want = {"comment": ("comment",), "keyword": ("keyword",), "number": ("number",),
                "ident": ("type", "function", "parameter", "variable")}.get(k["cls"], ())
        if ty not in want:
            probs.append("token %d at %d:%d: lexical token %r (%s) reported as %s" % (n, line, col, k["text"], k["kind"], ty))
        if md and k["cls"] != "ident":
            probs.append("token %d at %d:%d: modifier %s on a non-identifier" % (n, line, col, md))
    good = [i for i in idxs if i is not None]
    if any(a >= b for a, b in zip(good, good[1:])):
        probs.append("lexical tokens are not visited in text order")
    return probs, idxs


# ---------------------------------------------------------------------------------------------
# programs

def render_program(prog, rng, **kw):
    return splgen.render(splgen.flatten(prog), rng, **kw)


def align(prog, toks):
    """indices (into the lexical tokens `toks` of the rendered text) of the tokens of flatten(prog)"""
    flat = splgen.flatten(prog)
    idx = [i for i, k in enumerate(toks) if k["cls"] not in ("comment", "eof")]
    if len(idx) != len(flat) or any(toks[i]["text"] != sp for i, sp in zip(idx, flat)):
        raise RuntimeError("rendered text does not lex back to the program's tokens")
    return idx
