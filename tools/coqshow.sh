#!/bin/bash
# usage: coqshow.sh theories/X/Y.v LINE  -- prints the goals after the given line
f=$1; n=$2
tmp=/verif/work/Show_$$.v
mkdir -p /verif/work
head -n $n /verif/coq/$f > $tmp
echo "Show. " >> $tmp
cd /verif/coq && timeout 300 coqc -q -noglob -Q theories Spl -o /verif/work/Show_$$.vo $tmp 2>&1 | grep -v "^File\|There are pending proofs\|^Error: *$" | head -${3:-60}
rm -f /verif/work/Show_$$.*
