"""C16 - completion proposals respect scope and syntactic position."""
import json
import os
from concurrent.futures import ThreadPoolExecutor

import common
import enc
import semtoklib as L
import splgen
import splscope

PID = "C16"
K_FUNCTION, K_VARIABLE, K_KEYWORD, K_SNIPPET, K_STRUCT = 3, 6, 14, 15, 22


# ---------------------------------------------------------------------------------------------
# canonical encoding of a response (the same as Judge/RunSemTok.v enc_item / run_completion)

def _opt(s):
    return [0] if s is None else [1, len(s)] + [ord(c) for c in s]


def enc_item(it):
    label = it.get("label", "")
    doc = it.get("documentation")
    if isinstance(doc, dict):
        doc = doc.get("value") if doc.get("kind") == "markdown" else "<<kind %s>>%s" % (doc.get("kind"), doc.get("value"))
    ins = it.get("insertText")
    fmt = it.get("insertTextFormat")
    if (ins is None) != (fmt is None) or (fmt is not None and fmt != 2):
        ins = "<<format %r>>%s" % (fmt, ins)
    extra = sorted(set(it) - {"label", "kind", "detail", "documentation", "insertText", "insertTextFormat"})
    if extra:
        label = "<<extra fields %s>>%s" % (extra, label)
    return [len(label)] + [ord(c) for c in label] + [it.get("kind", 0)] + _opt(it.get("detail")) + _opt(doc) + _opt(ins)


def enc_response(r):
    if r == "mute":
        return [1]
    if r is None:
        return [0, 0]
    if isinstance(r, list):
        items = sorted(enc_item(it) for it in r)
        return [0, 1, len(items)] + [x for it in items for x in it]
    return ["unexpected", repr(r)]


def judge_cmd(text, line, col):
    return ("51 %d %d " % (line, col) + " ".join(str(ord(c)) for c in text)).strip()


# ---------------------------------------------------------------------------------------------
# position classes of a well-typed program, from the derivation

def sites_of(prog):
    """[(class, token index of the token BEFORE the gap, token index of the token AFTER the gap (or None at the end of
    the text), decl index, detail)] over flatten(prog); classes:
       stmt   - a statement starts after the gap (detail: nesting of the statement: 'body' | 'block' | 'then' | 'else' | 'loop')
       stmt_end - the gap in front of the closing brace of a body or block (a statement could start here)
       assign - the gap after `:=`;   paren - the gap after `(` of a call / if / while / parenthesised expression
                (detail 'expr-lhs': inside the index expression on the left-hand side of an assignment)
       colon  - a type position: the gap after `:` of a parameter or variable declaration, after `=` of a type declaration
                (detail typedecl-eq) and after every `of` of an array type (details *-of)
       top    - the gap between global declarations / before the first / after the last one"""
    out = []
    p = 0

    def texpr_len(t):
        return len(splgen.fl_texpr(t))

    def texpr_ofs(t, s, di, where):
        """the gaps behind every `of` of the type expression that starts at token s"""
        while t[0] != "named":
            out.append(("colon", s + 4, s + 5, di, where + "-of"))
            s += 5
            t = t[2]

    def expr(e, di, p, lhs=False):
        k = e[0]
        if k == "lit":
            return p + 1
        if k == "var":
            return var(e[1], di, p, lhs)
        if k == "neg":
            return expr(e[1], di, p + 1, lhs)
        if k == "par":
            out.append(("paren", p, p + 1, di, "expr-lhs" if lhs else "expr"))
            return expr(e[1], di, p + 1, lhs) + 1
        p = expr(e[2], di, p, lhs)
        return expr(e[3], di, p + 1, lhs)

    def var(v, di, p, lhs=False):
        if v[0] == "name":
            return p + 1
        p = var(v[1], di, p, lhs)
        p = expr(v[2], di, p + 1, lhs)
        return p + 1

    def stmt(s, di, p, ctx):
        out.append(("stmt", p - 1, p, di, ctx))
        k = s[0]
        if k == "empty":
            return p + 1
        if k == "assign":
            p = var(s[1], di, p, True)
            out.append(("assign", p, p + 1, di, ""))
            p = expr(s[2], di, p + 1)
            return p + 1
        if k == "call":
            out.append(("paren", p + 1, p + 2, di, "call"))
            p += 2
            for i, a in enumerate(s[2]):
                if i:
                    p += 1
                p = expr(a, di, p)
            return p + 2
        if k == "if":
            out.append(("paren", p + 1, p + 2, di, "if"))
            p = expr(s[1], di, p + 2)
            p = stmt(s[2], di, p + 1, "then")
            if s[3] is not None:
                p = stmt(s[3], di, p + 1, "else")
            return p
        if k == "while":
            out.append(("paren", p + 1, p + 2, di, "while"))
            p = expr(s[1], di, p + 2)
            return stmt(s[2], di, p + 1, "loop")
        p += 1
        for x in s[1]:
            p = stmt(x, di, p, "block")
        out.append(("stmt_end", p - 1, p, di, "block"))
        return p + 1

    for di, d in enumerate(prog):
        out.append(("top", p - 1 if p else None, p, di, ""))
        if d[0] == "type":
            out.append(("colon", p + 2, p + 3, di, "typedecl-eq"))      # behind `=`: a type position like the one behind `:`
            texpr_ofs(d[2], p + 3, di, "typedecl")
            p += 3 + texpr_len(d[2]) + 1
            continue
        p += 3
        for i, (r, n, t) in enumerate(d[2]):
            if i:
                p += 1
            if r:
                p += 1
            out.append(("colon", p + 1, p + 2, di, "param"))
            texpr_ofs(t, p + 2, di, "param")
            p += 2 + texpr_len(t)
        p += 2
        for n, t in d[3]:
            out.append(("colon", p + 2, p + 3, di, "var"))
            texpr_ofs(t, p + 3, di, "var")
            p += 3 + texpr_len(t) + 1
        for s in d[4]:
            p = stmt(s, di, p, "body")
        out.append(("stmt_end", p - 1, p, di, "body"))
        p += 1
    out.append(("top", p - 1 if p else None, None, None, ""))
    return out


def expectation(cls, di, prog, infos, scope):
    """dict(vars=set|None, procs=set|None|'none-or-all', types=set|None, only_top=bool) - None = not constrained"""
    procs_all = set(scope.procs)
    if cls in ("stmt", "stmt_end"):
        return dict(vars=set(infos[di]["locals"]), procs=procs_all, types=None, top=False)
    if cls in ("assign", "paren"):
        return dict(vars=set(infos[di]["locals"]), procs=None, types=None, top=False)
    if cls == "colon":
        return dict(vars=None, procs=None, types=set(scope.types), top=False)
    return dict(vars=set(), procs=set(), types=set(), top=True)


def judge_items(cls, exp, items, prog, infos, scope):
    """problems (strings) of a proposal list at a position of class `cls`"""
    if items == "mute":
        return ["no response (handler panic)"]
    if not isinstance(items, list):
        return ["answer is %r instead of a proposal list" % (items,)]
    probs = []
    by_kind = {}
    for it in items:
        by_kind.setdefault(it.get("kind"), []).append(it.get("label"))
    vs, ps, ts = sorted(by_kind.get(K_VARIABLE, [])), sorted(by_kind.get(K_FUNCTION, [])), sorted(by_kind.get(K_STRUCT, []))
    if exp["vars"] is not None and vs != sorted(exp["vars"]):
        probs.append("variables %s, expected %s" % (vs, sorted(exp["vars"])))
    if exp["procs"] is not None and ps != sorted(exp["procs"]):
        probs.append("procedures %s, expected all %d declared and predefined ones" % (ps if len(ps) < 6 else "%d names" % len(ps), len(exp["procs"]))
                     if exp["procs"] else "procedures %s, expected none" % ps)
    if exp["types"] is not None and ts != sorted(exp["types"]):
        probs.append("types %s, expected %s" % (ts, sorted(exp["types"])))
    if exp["top"]:
        have_main = any(d[0] == "proc" and d[1] == "main" for d in prog)
        want = sorted([("proc", K_KEYWORD), ("type", K_KEYWORD), ("proc", K_SNIPPET), ("type", K_SNIPPET)] + ([] if have_main else [("main", K_SNIPPET)]))
        got = sorted((it.get("label"), it.get("kind")) for it in items)
        if got != want:
            probs.append("top-level proposals %s, expected the declaration starters %s" % (got, want))
    return probs


def leak_problems(items, di, prog, infos):
    """`no name local to another procedure is ever proposed`: variables proposed must be local to the enclosing one"""
    if not isinstance(items, list):
        return []
    mine = set(infos[di]["locals"]) if di is not None and infos[di]["kind"] == "proc" else set()
    others = set()
    for k, inf in enumerate(infos):
        if inf["kind"] == "proc" and k != di:
            others |= set(inf["locals"])
    bad = sorted(set(it.get("label") for it in items if it.get("kind") == K_VARIABLE and it.get("label") in others - mine))
    return ["names local to another procedure proposed: %s" % bad] if bad else []


# ---------------------------------------------------------------------------------------------
# generation

def gen_programs(rng, n):
    out = []
    for i in range(n):
        prog, _ = splgen.well_typed_program(rng, ndecls=rng.choice([1, 2, 2, 3, 3, 4]), with_main=rng.random() < 0.7)
        r = rng.random()
        nl = rng.choice(["\n", "\n", "\r\n"])
        if r < 0.2:
            text = L.render_program(prog, rng, comments=0.0, dense=True, newline=nl)
        elif r < 0.45:
            text = L.render_program(prog, rng, comments=0.1, newline=nl)
        else:
            text = L.render_program(prog, rng, comments=0.0, newline=nl)
        out.append((text, prog))
    return out


def enclosing_decl(infos, tok_index):
    for k, inf in enumerate(infos):
        if inf["start"] <= tok_index < inf["end"]:
            return k
    return None


def positions_of(text, prog, toks, rng, per_gap=3):
    """[(line, col, class, sub, di, detail)] - oracle positions of one rendered program.
    sub: 'gap' (cursor preceded by white space, no comment in the gap before the cursor), 'adjacent' (cursor directly
    behind the token in front of the gap), 'commented' (a comment lies between that token and the cursor)"""
    idx = L.align(prog, toks)
    pos = L.char_positions(text)
    out = []
    for cls, before, after, di, detail in sites_of(prog):
        lo = toks[idx[before]]["ce"] if before is not None else 0
        hi = toks[idx[after]]["cs"] if after is not None else len(text)
        # comments inside the gap
        first = idx[before] + 1 if before is not None else 0
        last = idx[after] if after is not None else len(toks) - 1
        comments = [(toks[i]["cs"], toks[i]["ce"]) for i in range(first, last) if toks[i]["cls"] == "comment"]
        cand = []
        if before is not None:
            cand.append((lo, "adjacent"))
        inner = [c for c in range(lo + 1, hi + 1) if not any(a < c < b or (a < c == b and text[c - 1] != "\n") for a, b in comments)]
        # a position inside a CRLF pair is not addressable
        inner = [c for c in inner if not (text[c - 1] == "\r" and c < len(text) and text[c] == "\n")]
        if len(inner) > per_gap:
            inner = sorted(set([inner[0], inner[-1]] + rng.sample(inner, per_gap - 2)))
        for c in inner:
            cand.append((c, "commented" if any(b <= c for a, b in comments) else "gap"))
        if before is None:
            cand.append((0, "text-start"))
        for c, sub in cand:
            line, col = pos[c]
            out.append((line, col, cls, sub, di, detail))
    return out


def random_positions(text, rng, n):
    lines = text.split("\n")
    out = []
    for _ in range(n):
        r = rng.random()
        if r < 0.06:
            out.append((len(lines) + rng.randrange(0, 3), rng.randrange(0, 5)))
        else:
            ln = rng.randrange(len(lines))
            w = L.u16len(lines[ln])
            out.append((ln, rng.randrange(0, w + 1) if r < 0.92 else w + rng.randrange(1, 6)))
    return out


def gen_malformed(rng, n):
    out = []
    for _ in range(n):
        r = rng.random()
        if r < 0.55:
            prog, _ = splgen.well_typed_program(rng, ndecls=rng.randrange(1, 4))
            toks = splgen.damage(splgen.flatten(prog), rng, k=rng.choice([1, 1, 1, 2, 3, 6]))
            out.append(splgen.render(toks, rng, newline=rng.choice(["\n", "\n", "\r\n"])))
        elif r < 0.9:
            out.append(splgen.token_soup(rng))
        else:
            out.append(splgen.random_unicode(rng, rng.randrange(0, 60)))
    return out


# ---------------------------------------------------------------------------------------------
# running the implementation

def run_server(exe, jobs, workers=4, per_proc=25):
    """jobs: [(text, [(line, col)])] -> [[result]] (result: list / None / 'mute' / ('error', ..))"""
    res = [None] * len(jobs)
    parts = [list(range(i, min(i + per_proc, len(jobs)))) for i in range(0, len(jobs), per_proc)]

    def one(idx):
        s = L.Session(exe)
        try:
            for j in idx:
                text, pts = jobs[j]
                if s.mute or s.s.p.poll() is not None:
                    s.kill()
                    s = L.Session(exe)
                uri = s.open(text)
                rs = []
                for line, col in pts:
                    if s.mute:
                        # a handler panic silences the server for good: continue this document in a fresh process
                        s.kill()
                        s = L.Session(exe)
                        uri = s.open(text)
                    rs.append(s.completion(uri, line, col))
                res[j] = rs
                if not s.mute:
                    s.close(uri)
        finally:
            s.kill()

    with ThreadPoolExecutor(workers) as ex:
        list(ex.map(one, parts))
    return res


def _no_leak(case):
    return not any(p.startswith("names local to another procedure") for p in case["problems"])


# id -> predicate on a failing case (position class from the derivation + shape of the failure); a class is active only
# while known_findings.jsonl lists its id; a leak is never covered
KNOWN_CLASSES = {
    "C16-cursor-directly-behind-token": lambda c: c["sub"] == "adjacent" and _no_leak(c),
    "C16-comment-before-cursor": lambda c: c["sub"] == "commented" and _no_leak(c),
    "C16-text-start": lambda c: c["sub"] == "text-start" and _no_leak(c) and c["result"] is None,
    "C16-branch-statement-start": lambda c: c["cls"] == "stmt" and c["sub"] == "gap" and c["detail"] in ("then", "else", "loop")
    and all(p.startswith("procedures []") for p in c["problems"]),
    "C16-paren-left-of-assign": lambda c: c["cls"] == "paren" and c["sub"] == "gap" and c["detail"] == "expr-lhs" and c["result"] is None,
}


def classify_failure(case):
    for cid, pred in KNOWN_CLASSES.items():
        if pred(case):
            return cid
    return None


def run(ctx):
    proved = common.proof_stage(ctx, extra_targets=("theories/Props/C16Findings.vo",))
    if proved:
        # the second property file (the per-kind theorems and examples about the five finding classes)
        rep2 = common.props_report("C16Findings")
        ctx.cov["obligations"] += len(rep2["theorems"])
        ctx.cov["discharged"] += len(rep2["closed"]) if rep2["ok"] else 0
        ctx.cov["theorems"] = ctx.cov.get("theorems", []) + rep2["theorems"]
        if not rep2["ok"]:
            proved = False
            ctx.proof_failure = dict(kind="proof-obligation", target="theories/Props/C16Findings.vo", open_assumptions=rep2.get("open"),
                                     log_tail=(rep2.get("log") or "")[-3000:])
    exe, log = common.build_server()
    if exe is None:
        ctx.violation(dict(kind="build-failure", what="lsp4spl does not build", log=log[-3000:]), no_input=True)
        return
    judge, jlog = common.build_judge()
    if judge is None:
        ctx.violation(dict(kind="proof", property=PID, detail="judge does not build", log=jlog[-3000:]), no_input=True)
        return
    known_ids = {e["id"] for e in common.load_known_findings(PID)}
    th = ctx.thorough()
    rng = ctx.rng

    # ---- inputs
    jobs = []      # (text, [(line, col)])
    meta = []      # per job: None | (prog, infos, scope, [(class, sub, di, detail) | None per position])
    cdir = os.path.join(common.VERIF, "corpus", PID)
    corpus = []
    if os.path.isdir(cdir):
        for f in sorted(os.listdir(cdir)):
            if f.endswith(".json"):
                c = json.load(open(os.path.join(cdir, f)))
                corpus.append((f, c))
                jobs.append((c["text"], [tuple(c["position"])]))
                meta.append(None)
    progs = gen_programs(rng, 900 if th else 110)
    lexed = L.lex_texts(judge, [t for t, _ in progs])
    # a few programs with more declarations than any round number a server might cap its answers at (130 .. 260 globals)
    nbig = 3 if th else 1
    bigs = []
    for _ in range(nbig):
        bp = []
        for i in range(rng.randrange(90, 140)):
            bp.append(("type", "ty%03d" % i, ("named", "int") if i % 3 else ("array", "2", ("named", "int"))))
        for i in range(rng.randrange(90, 160)):
            bp.append(("proc", "helper%03d" % i, [(False, "a", ("named", "int"))][:i % 2], [("v", ("named", "int"))],
                       [("assign", ("name", "v"), ("lit", "1"))]))
        bp.append(("proc", "main", [], [("x", ("named", "int"))], [("assign", ("name", "x"), ("lit", "1")), ("assign", ("name", "x"), ("lit", "2"))]))
        bigs.append((L.render_program(bp, rng, comments=0.0, newline="\n"), bp))
    big_lexed = L.lex_texts(judge, [t for t, _ in bigs])
    progs, lexed = progs + bigs, lexed + big_lexed
    for (text, prog), toks in zip(progs, lexed):
        occs, infos, scope = splscope.analyse(prog)
        pts = positions_of(text, prog, toks, rng)
        if len(prog) >= 100:
            pts = rng.sample(pts, min(len(pts), 40))
        rnd = random_positions(text, rng, 12)
        jobs.append((text, [(l, c) for l, c, *_ in pts] + rnd))
        meta.append((prog, infos, scope, [p[2:] for p in pts] + [None] * len(rnd), toks))
    for text in gen_malformed(rng, 4000 if th else 500):
        jobs.append((text, random_positions(text, rng, 8)))
        meta.append(None)

    flat = [(j, k) for j, (text, pts) in enumerate(jobs) for k in range(len(pts))]
    with ThreadPoolExecutor(2) as ex:
        f_srv = ex.submit(run_server, exe, jobs)
        f_mod = ex.submit(L.par_lines, judge, [judge_cmd(jobs[j][0], *jobs[j][1][k]) for j, k in flat])
        srv, model = f_srv.result(), f_mod.result()

    # ---- no alarms from timing: a silent request is repeated in fresh processes before it counts as a panic
    retried = [(j, k) for (j, k) in flat if srv[j][k] == "mute"]
    for j, k in retried:
        text, pts = jobs[j]
        srv[j][k] = L.retry_mute(exe, text, lambda s, uri: s.completion(uri, *pts[k]))

    # ---- correspondence
    mism = []
    wf_false = []
    flags = {}
    answers = {"null": 0, "list": 0, "mute": 0, "other": 0}
    for n, (j, k) in enumerate(flat):
        r = srv[j][k]
        answers["mute" if r == "mute" else "null" if r is None else "list" if isinstance(r, list) else "other"] += 1
        mn = enc.nums(model[n])
        fl = mn[1] if len(mn) > 1 and mn[0] == 0 else None
        if fl is not None and fl >= 4:
            wf_false.append(n)       # Completion.compl_wf_b fails for this document (hypothesis of C16_no_panic)
            fl -= 4
        flags[(j, k)] = fl
        if enc_response(r) != (mn[:1] + mn[2:] if mn[0] == 0 else mn):
            mism.append(n)

    # ---- oracle
    viol, known_hits = [], {}
    hist = {}
    fail_hist = {}
    nontrivial = set()
    flag_hist, spec_disagree = {}, []
    offset_of = {}
    for j, m in enumerate(meta):
        if m is None:
            continue
        prog, infos, scope, classes, toks = m
        text, pts = jobs[j]
        for k, cl in enumerate(classes):
            r = srv[j][k]
            line, col = pts[k]
            di = None
            if cl is not None:
                cls, sub, di, detail = cl
                key = "%s/%s" % (cls, sub)
                hist[key] = hist.get(key, 0) + 1
                exp = expectation(cls, di, prog, infos, scope)
                probs = judge_items(cls, exp, r, prog, infos, scope)
                nontrivial.add((text, line, col))
                # the Coq statement completion_full_statement, decided by the judge for this document and position
                # (1 holds, 2 fails, 0 no claim), must agree with this oracle
                fl = flags.get((j, k))
                flag_hist[fl] = flag_hist.get(fl, 0) + 1
                if detail == "typedecl-eq" or str(detail).endswith("-of"):
                    # type positions behind `=` and `of` (repaired by /repo f933470): the formal statement's position classes
                    # stop at `:`; here only this oracle (and C16_type_decl_position / C16_type_position_valid) speaks
                    flag_hist["type-position-beyond-the-formal-classes"] = flag_hist.get("type-position-beyond-the-formal-classes", 0) + 1
                elif fl != (2 if probs else 1):
                    spec_disagree.append((j, k, fl, probs))
            else:
                hist["random"] = hist.get("random", 0) + 1
                probs = ["no response (handler panic)"] if r == "mute" else []
                # enclosing declaration of a random position: by the lexical token at/after it
                di = None
            if cl is not None:
                ldi = di
                if cl[0] == "top" and cl[1] == "adjacent":
                    # the handler counts a cursor directly behind a token as being on it: judge leaks against the
                    # declaration that ends there
                    ldi = (di if di is not None else len(prog)) - 1
                probs += leak_problems(r, ldi, prog, infos)
            else:
                # a random position: variables proposed must be local to the procedure whose text contains the cursor
                c = offset_of.setdefault(j, {p: i for i, p in reversed(list(enumerate(L.char_positions(text))))}).get((line, col))
                if c is not None:
                    idx = L.align(prog, toks)
                    inside = None
                    for kk, inf in enumerate(infos):
                        if toks[idx[inf["start"]]]["cs"] <= c <= toks[idx[inf["end"] - 1]]["ce"]:
                            inside = kk if inside is None else inside
                    probs += leak_problems(r, inside, prog, infos)
            if probs:
                case = dict(cls=cl[0] if cl else "random", sub=cl[1] if cl else "", detail=cl[3] if cl else "", problems=probs,
                            text=text, line=line, col=col, prog=prog, toks=toks, result=r)
                cid = classify_failure(case)
                fk = "%s/%s/%s" % (case["cls"], case["sub"], case["detail"])
                fail_hist[fk] = fail_hist.get(fk, 0) + 1
                if cid is not None and cid in known_ids:
                    known_hits.setdefault(cid, []).append((len(text), text, line, col, probs))
                else:
                    viol.append((len(text), dict(kind="oracle", property=PID, position_class=fk, text=text, position=[line, col], problems=probs,
                                                 proposals=sorted((it.get("label"), it.get("kind")) for it in r) if isinstance(r, list) else r)))
    # corpus: recorded expectations (multisets of (label, kind))
    for (fname, c), rs in zip(corpus, srv):
        got = sorted([it.get("label"), it.get("kind")] for it in rs[0]) if isinstance(rs[0], list) else rs[0]
        if "proposals" in c and got != sorted(c["proposals"]):
            viol.append((0, dict(kind="oracle", property=PID, part="corpus", file=fname, text=c["text"], position=c["position"], expected=c["proposals"], proposals=got)))

    for cid in sorted(known_hits):
        hits = sorted(known_hits[cid], key=lambda h: h[0])
        ctx.known("%s: %d positions, smallest witness %r at %d:%d: %s" % (cid, len(hits), hits[0][1], hits[0][2], hits[0][3], hits[0][4][0]))
    viol.sort(key=lambda v: v[0])
    seen_cls = set()
    for _, v in viol:
        if v.get("position_class") in seen_cls:
            continue
        seen_cls.add(v.get("position_class"))
        if len(seen_cls) <= 4:
            ctx.violation(v)

    # ---- muteness must be confirmed before it counts (timing)
    # (a mute answer already is a mismatch unless the model predicts the panic; confirmation for the report)
    mutes = [(j, k) for (j, k) in flat if srv[j][k] == "mute"]
    confirmed_mute = len(mutes)

    # ---- kernel judge on short documents
    short = [n for n, (j, k) in enumerate(flat) if len(jobs[j][0]) <= 160 and n not in set(mism)]
    pick = rng.sample(short, min(len(short), 400 if th else 120))
    kfail = common.kernel_judge(PID, [(enc.nums(judge_cmd(jobs[flat[n][0]][0], *jobs[flat[n][0]][1][flat[n][1]])), enc.nums(model[n])) for n in pick])
    if not viol:
        if mism or kfail:
            n = sorted(mism, key=lambda n: len(jobs[flat[n][0]][0]))[0] if mism else pick[kfail[0]]
            j, k = flat[n]
            ctx.violation(dict(kind="correspondence", property=PID, text=jobs[j][0], position=list(jobs[j][1][k]),
                               server=enc_response(srv[j][k]), model=model[n], mismatches=len(mism), kernel_failures=len(kfail),
                               what="Model/Completion.v and the server's completion answer differ (sorted canonical encodings)"), no_input=True)
        elif wf_false:
            j, k = flat[wf_false[0]]
            ctx.violation(dict(kind="specification", property=PID, text=jobs[j][0], position=list(jobs[j][1][k]), cases=len(wf_false),
                               what="Completion.compl_wf_b, the hypothesis of C16_no_panic, does not hold for the tree of this document"), no_input=True)
        elif spec_disagree:
            j, k, fl, probs = spec_disagree[0]
            ctx.violation(dict(kind="specification", property=PID, text=jobs[j][0], position=list(jobs[j][1][k]), coq_flag=fl, oracle_problems=probs,
                               cases=len(spec_disagree),
                               what="the Coq statement completion_full_statement (decided by the judge: 1 holds, 2 fails, 0 no claim) and the "
                                    "python oracle disagree at this oracle position"), no_input=True)
        elif not proved:
            ctx.violation(dict(kind="proof", property=PID, detail=getattr(ctx, "proof_failure", None)), no_input=True)

    ctx.level = "other"
    ctx.cov.update({
        "evaluations": len(flat),
        "distinct_nontrivial": len(nontrivial),
        "rule": "completion requests on well-typed programs (layouts: spaced, dense, comments, CRLF) at every position class of the "
                "property computed from the derivation (statement starts incl. nested blocks/branches and the gap before a closing brace, "
                "after `:=` and `(`, after `:` of parameter/variable declarations, top-level gaps; cursor directly behind the token, in "
                "the white space, behind a comment), at random positions (incl. overshooting), and on damaged programs / token soup / "
                "random unicode at random positions. Oracle: expected multisets from splscope (variables = parameters + locals of THAT "
                "procedure, procedures = declared + predefined, types = declared + int, top level = declaration starters (+ main snippet "
                "iff main is absent)); `no name local to another procedure` at every position. non-trivial = distinct oracle positions",
        "input_histogram": dict(position_classes=hist, answers=answers, programs=len(progs), malformed=len([m for m in meta if m is None]) - len(corpus), corpus=len(corpus)),
        "oracle_failure_histogram": fail_hist,
        "coq_full_statement_flags_at_oracle_positions": {str(k): v for k, v in flag_hist.items()},
        "coq_spec_vs_oracle_disagreements": len(spec_disagree),
        "requests_with_compl_wf_b_false": len(wf_false),
        "traces_validated_against_impl": len(flat) - len(mism),
        "correspondence_mismatches": len(mism) + len(kfail), "kernel_judge_cases": len(pick),
        "mute_answers_confirmed_in_3_fresh_processes": len(mutes), "silent_requests_retried": len(retried),
        "oracle_failures": len(viol),
        "samples": [dict(text=jobs[j][0][:200], position=list(jobs[j][1][k]), proposals=len(srv[j][k]) if isinstance(srv[j][k], list) else srv[j][k])
                    for j, k in rng.sample(flat, 3)],
        "explanation": EXPLANATION,
    })
    ctx.assumptions = ["HashMap iteration order is unspecified: proposal lists are compared as multisets",
                       "documents are analysed from scratch (didOpen)", "serde/lsp-types JSON mapping trusted"]
    if th and proved:
        if not common.coqchk(ctx):
            ctx.violation(dict(kind="proof", property=PID, detail="coqchk failed or reports axioms", out=ctx.cov.get("coqchk")), no_input=True)


EXPLANATION = (
    "PROVED for all documents and all positions (Props/C16.v over the model Model/Completion.v of completion.rs): C16_shape (in every "
    "answer the VARIABLE items are none or exactly the entries of the local table of the procedure entry named like the declaration "
    "around the corrected cursor position; the FUNCTION items are none or exactly the procedure entries of the global table; the STRUCT "
    "items are none, int, or exactly the type entries), C16_no_leak (a proposed variable is an entry of that procedure's own local table - "
    "no name local to another procedure is ever proposed), C16_no_panic (under the executable tree well-formedness predicate compl_wf_b, "
    "which the judge evaluates on every request, the handler never panics), C16_toplevel + C16_main_snippet + C16_toplevel_only_starters (outside every "
    "declaration exactly the declaration starters, main snippet iff main is not a procedure of the table). C16_full_statement (the "
    "prescribed multisets at the four position classes, decided by position_class/meets) is stated on the model and REFUTED "
    "(C16_full_statement_refuted) by a witness of the known finding C16-cursor-directly-behind-token. VALIDATED only (correspondence + "
    "oracle): that the model is the code; which alternative is taken at which position (python oracle from the derivation + splscope and "
    "the Coq statement decided per request by the judge, in agreement at every oracle position); that local tables hold exactly the "
    "parameters and variables (C03); absence of panics (no mute answer observed).")


def replay(ctx, path):
    r = json.load(open(path))
    if "text" not in r or "position" not in r:
        print(json.dumps(r, indent=1)[:3000])
        return 1
    exe, _ = common.build_server()
    rs = run_server(exe, [(r["text"], [tuple(r["position"])])])[0][0]
    got = sorted([it.get("label"), it.get("kind")] for it in rs) if isinstance(rs, list) else rs
    print("text:", repr(r["text"]))
    print("position:", r["position"])
    print("proposals:", got)
    want = r.get("proposals") if r.get("part") == "corpus" or "problems" not in r else None
    if "expected" in r:
        want = r["expected"]
    if want is not None:
        ok = got == sorted(want)
        print("expected :", sorted(want))
        print("property holds on this input" if ok else "property FAILS on this input")
        return 0 if ok else 1
    print("recorded problems:", r.get("problems"))
    same = got == sorted([list(x) for x in r.get("proposals", [])]) if isinstance(r.get("proposals"), list) else got == r.get("proposals")
    print("the server still gives the recorded (failing) answer" if same else "the answer changed - re-run the check to judge it")
    return 1 if same else 0
