"""C13 - find-references and rename cover exactly the occurrences of one binding.

Stages (DESIGN section 4): proofs (Props/C13.v) - corpus - correspondence of Model/Refs.v with the running server
(judge commands 34-36) - oracle on the implementation alone: (a) references / rename / prepareRename against the
bindings of the generator's derivation (tools/splscope.py), (b) the rename round trip: the WorkspaceEdit of a rename
to a FRESH name is applied with an independent python edit model, the result is re-opened, its diagnostics and its
reference partition are compared with the original's, and renaming back must restore the original text; (c) the
instances of the Coq statement C13_full_statement itself, decided by the extracted model on the generated programs
(judge command 37).  The witnesses of the four findings repaired by /repo b909979 are regression corpus."""
import json
import time
from concurrent.futures import ThreadPoolExecutor

import common
import navlib
import splgen

PID = "C13"
METHODS = ["references", "rename", "prepareRename"]

# Decidable classes of known findings (known_findings.jsonl, status "known"), evaluated on the generator's derivation.
# There is none at present: the four former classes (C13-local-named-like-its-procedure, C13-type-use-shadowed-by-local,
# C13-rename-predefined-procedure, C13-local-named-int) were repaired by /repo b909979; their witnesses are regression
# corpus (corpus/C13/*.json), their positions are checked by the oracle and the round trips like all others, and a
# recurrence is a VIOLATION.  repaired_class names them only to count how often the campaign exercises them.
CLASS_DOC = {}


def classify(d, method, k, o):
    return None


def repaired_class(d, k, o):
    loc = navlib.enclosing_locals(d, o)
    info = d.infos[o["decl"]]
    if o["kind"] in ("var", "param") and info["kind"] == "proc" and o["name"] == info["name"]:
        return "local-named-like-its-procedure"
    if o["role"] == "type_use" and o["name"] in loc:
        return "type-use-shadowed-by-local"
    if o["builtin"] and o["kind"] == "proc":
        return "predefined-procedure"
    if o["kind"] in ("var", "param") and o["name"] == "int":
        return "local-named-int"
    if o["kind"] in ("var", "param") and o["name"] in splgen.BUILTINS:
        return "local-named-like-a-predefined-procedure"
    return None


def repaired_hits(camp):
    h = {}
    for d, pts in camp.items:
        if d.kind != "valid":
            continue
        for (l, c, k, what) in pts:
            o = d.occ_at.get(k) if k is not None else None
            if o is not None:
                cid = repaired_class(d, k, o)
                if cid:
                    h[cid] = h.get(cid, 0) + 1
    return dict(sorted(h.items()))


# ---- an independent model of applying TextEdits (LSP positions: line, UTF-16 column; LF / CRLF / CR line ends)
def offset_of(text, line, col):
    i, ln, n = 0, 0, len(text)
    while ln < line and i < n:
        c = text[i]
        if c == "\n":
            ln += 1
        elif c == "\r":
            if i + 1 < n and text[i + 1] == "\n":
                i += 1
            ln += 1
        i += 1
    if ln < line:
        return n
    k = 0
    while i < n and text[i] not in "\r\n" and k + navlib.u16(text[i]) <= col:
        k += navlib.u16(text[i])
        i += 1
    return i


def apply_edits(text, ranges, new):
    spans = sorted((offset_of(text, l1, c1), offset_of(text, l2, c2)) for (l1, c1, l2, c2) in ranges)
    for (a, b), (c, _) in zip(spans, spans[1:]):
        if b > c:
            return None     # overlapping edits
    for a, b in reversed(spans):
        if a > b:
            return None
        text = text[:a] + new + text[b:]
    return text


FRESH = ["q", "zq7", "renamed_to_a_much_longer_fresh_name", "Z_", "w9"]


def fresh_name(d, rng):
    used = set(d.tokens) | set(splgen.KEYWORDS) | set(splgen.BUILTINS) | {"int", "main"}
    for _ in range(20):
        n = rng.choice(FRESH) + (str(rng.randrange(0, 1000)) if rng.random() < 0.5 else "")
        if n not in used:
            return n
    return "fresh_%d_" % len(used)


def roundtrip_one(sess, d, uri, k, col, new, tag, known_ids):
    """rename occurrence k (cursor at character index col) to `new`; returns (failure dict or None, requests used)"""
    o = d.occ_at[k]
    l, c = d.pos[col]
    same = [x for x in d.occs if navlib.binding_key(x) == navlib.binding_key(o)]
    exp_ranges = sorted(d.span_range(x["tok"]) for x in same)
    nreq = 1
    ans = sess.ask(uri, [("rename", l, c)], new_name=new)[0]

    def fail(step, observed, expected, **kw):
        r = dict(kind="rename-roundtrip", property=PID, text=d.text, line=l, col=c, token=d.tokens[k], new_name=new, step=step,
                 observed=observed, expected=expected)
        r.update(kw)
        return r

    if not isinstance(ans, list) or sorted(ans) != exp_ranges:
        return fail("rename", ans, exp_ranges, what="the edits are not one per occurrence of the binding"), nreq
    text2 = apply_edits(d.text, ans, new)
    toks2 = list(d.tokens)
    for x in same:
        toks2[x["tok"]] = new
    # the expected renamed text: the spelling replaced at exactly the binding's tokens
    exp2, last = [], 0
    for x in sorted(same, key=lambda x: x["tok"]):
        a, b = d.spans[x["tok"]]
        exp2 += [d.text[last:a], new]
        last = b
    exp2 = "".join(exp2) + d.text[last:]
    if text2 != exp2:
        return fail("apply", text2, exp2, what="applying the edits does not yield the program with the binding renamed"), nreq
    d2 = navlib.Doc("renamed", text2)
    d2.tokens, d2.spans = toks2, navlib.locate(text2, toks2)
    uri2 = uri[:-4] + "_%s.spl" % tag
    diags2 = sess.open(uri2, text2)
    # `main` is the one name SPL itself gives a meaning to: renaming the procedure main necessarily adds the diagnostic
    # "procedure `main` is missing" (and nothing else); every other rename must leave the diagnostics (none) unchanged
    is_main = o["kind"] == "proc" and d.tokens[k] == "main"
    exp_d = ["procedure `main` is missing\n"] if is_main else []
    if diags2 is navlib.MUTE or [x[4] for x in diags2] != exp_d:
        return fail("diagnostics", diags2, exp_d, renamed_text=text2,
                    what="the renamed program has other diagnostics than the original (none%s)" % (" + main is missing" if is_main else "")), nreq
    # the same occurrences are bound together again
    reqs, exps = [], []
    for x in d.occs:
        cid = classify(d, "references", x["tok"], x)
        if cid in known_ids:
            continue
        a, b = d2.spans[x["tok"]]
        reqs.append(("references",) + d2.pos[a])
        grp = [y for y in d.occs if navlib.binding_key(y) == navlib.binding_key(x) and y["tok"] != x["tok"]]
        exps.append(sorted(d2.span_range(y["tok"]) for y in grp))
    got = sess.ask(uri2, reqs)
    nreq += len(reqs)
    for (m, l2, c2), g, e in zip(reqs, got, exps):
        if navlib.sort_answer(g) != e:
            sess.close(uri2)
            return fail("partition", g, e, renamed_text=text2, at=[l2, c2],
                        what="in the renamed program references at (%d,%d) does not return the occurrences that were bound together before" % (l2, c2)), nreq
    # rename back
    a2, b2 = d2.spans[k]
    l2, c2 = d2.pos[min(a2 + (col - d.spans[k][0]), b2 - 1)]
    back = sess.ask(uri2, [("rename", l2, c2)], new_name=d.tokens[k])[0]
    nreq += 1
    sess.close(uri2)
    text3 = apply_edits(text2, back, d.tokens[k]) if isinstance(back, list) else None
    if text3 != d.text:
        return fail("rename-back", back if text3 is None else text3, d.text, renamed_text=text2, at=[l2, c2],
                    what="renaming back does not restore the original text"), nreq
    return None, nreq


def roundtrips(ctx, exe, camp, per_doc, known_ids, workers=6):
    docs = [(i, d) for i, (d, _) in enumerate(camp.items) if d.kind == "valid" and camp.server[i][0] == []]
    plans = []
    stats_hot = [0]
    for i, d in docs:
        groups = {}
        for o in d.occs:
            if o["builtin"] or o["bind_tok"] is None:
                continue
            if any(classify(d, m, o["tok"], o) in known_ids for m in ("references", "rename")):
                continue
            groups.setdefault(o["bind_tok"], []).append(o)
        keys = sorted(groups)
        picks = []
        # bindings in the classes of the repaired findings first (a local named like a global, a shadowed type)
        hot = [key for key in keys if any(repaired_class(d, o["tok"], o) for o in groups[key])]
        chosen = ctx.rng.sample(hot, min(2, len(hot)))
        rest = [key for key in keys if key not in chosen]
        chosen += ctx.rng.sample(rest, min(max(0, per_doc - len(chosen)), len(rest)))
        stats_hot[0] += sum(1 for key in chosen if key in hot)
        for key in chosen:
            o = ctx.rng.choice(groups[key])
            a, b = d.spans[o["tok"]]
            picks.append((o["tok"], ctx.rng.randrange(a, b), fresh_name(d, ctx.rng)))
        plans.append((i, d, picks))
    fails, stats = [], dict(renames=0, requests=0, kinds={}, bindings_in_repaired_classes=stats_hot[0])

    def work(share):
        out = []
        sess = navlib.Session(exe)
        try:
            for (i, d, picks) in share:
                if sess.dead:
                    sess.kill()
                    sess = navlib.Session(exe)
                uri = "file:///rt_%d.spl" % i
                if sess.open(uri, d.text) != []:
                    continue
                for n, (k, col, new) in enumerate(picks):
                    f, nreq = roundtrip_one(sess, d, uri, k, col, new, "r%d" % n, known_ids)
                    out.append((i, d.occ_at[k]["kind"], f, nreq))
                    if sess.dead:
                        break
                if not sess.dead:
                    sess.close(uri)
        finally:
            sess.kill()
        return out

    shares = [plans[w::workers] for w in range(workers)]
    with ThreadPoolExecutor(workers) as ex:
        for out in ex.map(work, [s for s in shares if s]):
            for (i, kind, f, nreq) in out:
                stats["renames"] += 1
                stats["requests"] += nreq
                stats["kinds"][kind] = stats["kinds"].get(kind, 0) + 1
                if f is not None:
                    fails.append(f)
    return fails, stats


def run(ctx):
    proved = common.proof_stage(ctx)
    ctx.level = "proof" if proved else "other"
    exe, log = common.build_server()
    if exe is None:
        ctx.violation(dict(kind="build-failure", what="lsp4spl does not build", log=log[-3000:]), no_input=True)
        return
    judge, jlog = common.build_judge()
    known_ids = {e["id"] for e in common.load_known_findings(PID)}
    ncorpus = navlib.replay_corpus(ctx, PID, exe, judge)
    witness_state = navlib.replay_known(ctx, PID, exe, CLASS_DOC)

    camp = navlib.Campaign(ctx, exe, judge, METHODS, "c13")
    thorough = ctx.thorough()
    valid = navlib.gen_valid_docs(ctx.rng, 2.4e8 if thorough else 6e7)
    malformed = navlib.gen_malformed_docs(ctx.rng, 5000 if thorough else 1000, 10)
    short = navlib.gen_short_docs(ctx.rng, 120 if thorough else 40)
    t0 = time.time()
    camp.run(valid + malformed + short, workers=8)
    t_run = time.time() - t0
    nshort0 = len(valid) + len(malformed)

    # ---- oracle (a): answers against the derivation
    fails, known, checked, nontrivial, skipped = navlib.oracle(camp, lambda d, m, k, o: (lambda c: c if c in known_ids else None)(classify(d, m, k, o)))
    for cid in sorted(known):
        ctx.known("%s: %s" % (cid, CLASS_DOC[cid]))
    reported = navlib.report_oracle(ctx, PID, camp, fails, "textDocument/%s differs from the occurrences bound to the same declaration")

    # ---- oracle (b): rename round trips
    t0 = time.time()
    rt_fails, rt_stats = roundtrips(ctx, exe, camp, 6 if thorough else 3, known_ids)
    t_rt = time.time() - t0
    for f in sorted(rt_fails, key=lambda f: len(f["text"]))[:3]:
        ctx.violation(f)
        reported += 1

    # ---- oracle (c): the Coq statement itself on the generated programs
    t0 = time.time()
    full_stats, full_kernel = ({}, [])
    if judge and not camp.model_errors:
        nv = len(ctx.violations)
        full_stats, full_kernel = navlib.full_statement_instances(
            ctx, PID, judge, camp, 2, "an instance of C13_full_statement (Spec/Nav.v) is false on the model: references / rename / "
            "prepareRename differ from spec_references / spec_rename / spec_prepare at this occurrence")
        reported += len(ctx.violations) - nv
    t_full = time.time() - t0

    # ---- correspondence
    kfail, nk = [], 0
    t0 = time.time()
    if judge and not camp.model_errors:
        cases = camp.kernel_cases(range(nshort0, len(camp.items))) + full_kernel
        nk = len(cases)
        try:
            kfail = common.kernel_judge(PID, cases)
        except RuntimeError as ex:
            camp.model_errors.append("kernel judge: %s" % ex)
    t_k = time.time() - t0
    if not reported:
        if camp.mismatches or kfail or camp.model_errors:
            if camp.mismatches:
                i, m, pi, a, b = camp.mismatches[0]
                d, pts = camp.items[i]
                rep = dict(kind="correspondence", property=PID, text=d.text, method=m, line=pts[pi][0], col=pts[pi][1], server=a, model=b,
                           mismatches=len(camp.mismatches), what="Model/Refs.v and the server differ (document kind %s)" % d.kind)
            elif kfail:
                rep = dict(kind="correspondence", property=PID, what="the kernel judge (coqc vm_compute) disagrees with the server", case=cases[kfail[0]][0][:400])
            else:
                rep = dict(kind="correspondence", property=PID, what="the model could not be evaluated", errors=camp.model_errors[:3])
            ctx.violation(rep, no_input=True)
        elif judge is None or not proved:
            ctx.violation(dict(kind="proof", property=PID, detail=getattr(ctx, "proof_failure", jlog[-2000:])), no_input=True)

    nreq = sum(len(pts) for _, pts in camp.items) * len(METHODS)
    ctx.cov.update({
        "evaluations": nreq + ncorpus + rt_stats["requests"],
        "distinct_nontrivial": len(nontrivial) + rt_stats["renames"],
        "rule": "well-typed programs of tools/splgen.py (variables used inside parenthesised, negated and index expressions, arguments, "
                "conditions; the same names in different procedures; + cross-reference-rich programs and locals renamed to collide with their "
                "procedure / a type / `int` / another or a predefined procedure: the classes of the findings repaired by b909979) in random layouts (comment lines in gaps, CRLF, dense), queried with references, "
                "rename and prepareRename at every column of every identifier occurrence and the column after it (documents > 2600 characters: "
                "first, last, one random column), one position per other token, gaps, line ends, overshooting positions; damaged programs / "
                "token soup / random unicode at 10 positions.  Round trips: per valid document 3 (thorough: 6) bindings, renamed at a random "
                "occurrence and column to a fresh name of another length.  non-trivial = distinct (document, request, identifier "
                "occurrence) whose expected answer is not null/empty, + the round trips",
        "input_histogram": navlib.histogram(camp),
        "documents": {"valid": len(valid), "malformed": len(malformed), "short (kernel judge)": len(short), "corpus requests": ncorpus,
                      "valid documents the implementation reports diagnostics for (excluded from the oracle)": skipped},
        "oracle_checked": checked,
        "oracle_failures": len(fails),
        "known_finding_hits": {k: len(v) for k, v in sorted(known.items())},
        "known_finding_witness_still_fails": witness_state,
        "positions_in_repaired_classes": repaired_hits(camp),
        "full_statement_instances": full_stats,
        "roundtrips": rt_stats,
        "roundtrip_failures": len(rt_fails),
        "traces_validated_against_impl": camp.compared(),
        "kernel_judge_cases": nk,
        "correspondence_mismatches": len(camp.mismatches) + len(kfail) + len(camp.model_errors),
        "confirmed_missing_responses": len(camp.crashes),
        "unconfirmed_deviations": camp.unconfirmed,
        "requests_not_observed_after_a_crash": camp.unobserved,
        "samples": [dict(text=camp.items[i][0].text[:600], position=list(camp.items[i][1][0][:2]),
                         answers={m: camp.server[i][1][m][0] for m in METHODS}) for i in ctx.rng.sample(range(len(camp.items)), 3)],
        "timing_s": {"server+model": round(t_run, 1), "roundtrips": round(t_rt, 1), "kernel_judge": round(t_k, 1), "full_statement_instances": round(t_full, 1)},
        "explanation": EXPLANATION,
    })
    ctx.assumptions = [
        "AnalyzedSource::new produces documents satisfying Refs.nav_wf_b (hypothesis of C13_robust and C13_user_names_renamed): not proved, "
        "evaluated by the judge on every document of every run",
        "the first half of the property is proved for layouts of well-typed abstract programs (C13_valid); in the wording `document without "
        "diagnostics` (C13_full_statement) it is validated by correspondence + oracle + its instances decided by the extracted model (judge "
        "command 37); C13_roundtrip_statement is validated by the round-trip oracle only",
        "serde/lsp-types JSON mapping trusted; positions are (line, UTF-16 column); a WorkspaceEdit's edits all refer to the original text",
    ]
    if thorough and proved:
        if not common.coqchk(ctx):
            ctx.violation(dict(kind="proof", property=PID, detail="coqchk failed or reports axioms", out=ctx.cov.get("coqchk")), no_input=True)


EXPLANATION = (
    "level other: Props/C13.v proves, for ALL documents (any text/tokens/tree/table), about the Coq model Model/Refs.v of references.rs as "
    "of /repo b909979 (the identifier is resolved by its syntactic position: behind `proc`, `type`, `:` or `of` in the global table only, "
    "elsewhere in the enclosing procedure first; rename and prepareRename refuse what resolves to a predefined entity): the three handlers "
    "never fail on a document satisfying the decidable well-formedness predicate nav_wf_b (C13_robust); no identifier token under the "
    "cursor => null (C13_no_identifier_no_answer); an identifier that resolves to a predefined entity is never renamed and - on a "
    "well-formed document, inside a declaration with a table entry - every other identifier is, e.g. a variable spelled `int` "
    "(C13_predefined_not_renamed, C13_user_names_renamed; they replace C13_int_not_renamed, whose statement described the repaired defect); "
    "every identifier node collected for an answer carries the cursor's name (C13_same_name); prepareRename is null exactly when rename is, "
    "inside a declaration with a table entry, now without any well-formedness hypothesis (C13_prepare_iff_rename); prepareRename null => "
    "rename null at every position of every document (C13_prepare_null_rename_null); outside every declaration with a table entry - "
    "impossible in a diagnostic-free program - references and rename are null while prepareRename still answers with the identifier's "
    "range, because the predefined test needs a context (C13_no_context: the equivalence fails exactly there); prepareRename's answer is "
    "the range of the identifier token under the cursor, which is not predefined (C13_prepare_range); every reference is one of rename's "
    "edits (C13_references_in_rename); each edit comes from an identifier node with the cursor's name and is the range of a token of the "
    "document (C13_rename_edits); in a global position the locals of the enclosing procedure play no role and no variable occurrences are "
    "collected, elsewhere a local wins whatever else has its name and is not predefined (C13_global_position, C13_local_wins).  PROVED for "
    "every VALID program in every layout (C13_valid, C13_valid_text: abstract program of the grammar accepted by the declarative static "
    "semantics, any text that lexes to its tokens, every identifier occurrence, every cursor position inside it): references = exactly the "
    "other occurrences bound to the same declaration, rename = one edit per occurrence of the binding incl. the declaration and null for "
    "predefined entities, prepareRename = the identifier's range exactly when rename is offered - with occurrences and bindings computed "
    "from the TREE alone (Spec/Nav.v), not from the symbol table the handlers use; the answers are even equal as lists in tree order.  NOT "
    "proved: nothing of the first half - C13_full (documents without diagnostics) follows by front-end completeness.  The second half, the "
    "rename round trip, is C13_roundtrip_valid / C13_roundtrip (alpha-renaming preserves well_typed; the renamed text is the layout of the "
    "renamed program; bindings correspond position by position; renaming back restores the text) for every binding except the procedure "
    "`main`, where the unrestricted statement is refuted (renaming main adds `main is missing`).  The first half was once refuted and is no "
    "longer refuted: on the witnesses of the four findings repaired by b909979 (now regression corpus) and on a program with every "
    "local/global name collision it holds at every occurrence (C13_repaired_witnesses_agree, by vm_compute), and no counterexample is "
    "known.  C13_roundtrip_statement (apply the edits: same diagnostics, same binding partition, rename back restores the text) is stated "
    "only.  Both are validated only: by the correspondence of the model with the running server (extracted judge on every request, coqc's "
    "VM on short documents), by the oracle that compares the server with bindings computed from the generator's derivation, by the "
    "extracted model deciding the instances of C13_full_statement at every occurrence of the generated programs (judge command 37, which "
    "also checks that the statement's occurrences are exactly the identifier tokens), and by the round-trip oracle with an independent "
    "python edit model on the real server (bindings in the repaired classes are picked first).")


def replay(ctx, path):
    r = json.load(open(path))
    if r.get("kind") != "rename-roundtrip":
        return navlib.replay_request(ctx, path)
    exe, _ = common.build_server()
    sess = navlib.Session(exe)
    try:
        uri = "file:///replay.spl"
        print("diagnostics of the original:", sess.open(uri, r["text"]))
        ans = sess.ask(uri, [("rename", r["line"], r["col"])], new_name=r["new_name"])[0]
        print("rename (%d,%d) -> %r: %s" % (r["line"], r["col"], r["new_name"], ans))
        ok = True
        if r["step"] == "rename":
            ok = isinstance(ans, list) and sorted(ans) == sorted(tuple(x) for x in r["expected"])
        else:
            text2 = apply_edits(r["text"], ans, r["new_name"]) if isinstance(ans, list) else None
            print("renamed text:", repr(text2))
            if r["step"] == "apply":
                ok = text2 == r["expected"]
            elif text2 is None:
                ok = False
            else:
                diags2 = sess.open("file:///replay2.spl", text2)
                print("diagnostics of the renamed program:", diags2)
                if r["step"] == "diagnostics":
                    ok = diags2 is not navlib.MUTE and [x[4] for x in diags2] == r["expected"]
                elif r["step"] == "partition":
                    g = sess.ask("file:///replay2.spl", [("references", r["at"][0], r["at"][1])])[0]
                    print("references", r["at"], "->", g, "expected", r["expected"])
                    ok = navlib.sort_answer(g) == sorted(tuple(x) for x in r["expected"])
                else:
                    back = sess.ask("file:///replay2.spl", [("rename", r["at"][0], r["at"][1])], new_name=r["token"])[0]
                    text3 = apply_edits(text2, back, r["token"]) if isinstance(back, list) else None
                    print("renamed back:", repr(text3))
                    ok = text3 == r["text"]
        print("step %s: %s" % (r["step"], "ok" if ok else "FAILS"))
        return 0 if ok else 1
    finally:
        sess.kill()
