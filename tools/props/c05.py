"""C05 - a syntax error stays contained in the declaration it occurs in.

  proof            Props/C05.v (from Proofs/Parser*.v): for all token lists the declarations of the tree correspond one
                   to one to the proc/type keywords, tile the token vector, and what is parsed for a declaration depends
                   only on the tokens up to the next proc/type/Eof (no influence on declarations in front of a damage).
  correspondence   Model/Parser.v against parser::parse on the damaged documents (judge command 7).
  oracle           implementation only (harness dump_decl): for every non-keyword token of one declaration of a valid
                   program x {delete, replace by each token of the SPL alphabet, insert each token before it}: all other
                   declarations are parsed to identical subtrees (offsets shifted), keep their table entry, and every
                   syntax diagnostic lies inside the damaged declaration's token span.
Known findings (class predicates evaluated on the generator's own description of the damage):
  C05-trailing-comment   the damaged token is the last token of its declaration, comments stand directly in front of it,
                         and it is deleted or replaced: those comments become doc comments of the next declaration
  C05-closing-brace-stmt the closing `}` of a procedure is replaced by (or a token is inserted in front of it ... see class)
                         a statement opener that makes `expect` run into the next declaration's doc comments
"""
import json
import os

import common
import splgen

ALPHABET = ["(", ")", "[", "]", "{", "}", "=", "#", "<", "<=", ">", ">=", ":=", ":", ",", ";", "+", "-", "*", "/",
            "if", "else", "while", "array", "of", "ref", "var", "zz", "7", "0x1F", "'c'"]
DECL_KW = ("proc", "type")


SHAPES = [
    ("type", "type @ = array [ 3 ] of int ;"),
    ("proc-empty", "proc @ ( ) { }"),
    ("proc-vars", "proc @ ( x : int ) { var y : int ; var z : array [ 2 ] of int ; }"),
    ("proc-stmts", "proc @ ( ref x : int ) { var y : int ; y := x + 1 ; if ( y < 2 ) x := y ; else { } while ( x > 0 ) x := x - 1 ; @ ( y ) ; }"),
]


def nums(s):
    return " ".join(str(ord(x)) for x in s)


def with_comments(decl_tokens, rng, p_doc=0.5, p_inner=0.06):
    """token lists per declaration with explicit comment tokens: doc comments in front of the declaration and comment
    lines in inner gaps; returns list of lists of (spelling, is_comment)"""
    out = []
    for toks in decl_tokens:
        d = []
        if rng.random() < p_doc:
            for _ in range(rng.choice([1, 1, 2])):
                d.append(("// doc %d\n" % rng.randrange(100), True))
        for i, t in enumerate(toks):
            if i > 0 and rng.random() < p_inner:
                d.append(("// c%d\n" % rng.randrange(100), True))
            d.append((t, False))
        out.append(d)
    return out


def render_plain(tokens, rng):
    """joins spellings with simple random whitespace (comments are tokens here and end with a newline)"""
    out, prev = [], ""
    for t in tokens:
        ws = rng.choice([" ", " ", "\n", "  ", "\n  ", ""])
        if not ws and (splgen.needs_sep(prev, t) or prev.endswith("/") and t.startswith("/")):
            ws = " "
        if prev.endswith("\n"):
            ws = ws.replace("\n", "")
        out.append(ws + t)
        prev = t
    return "".join(out) + rng.choice(["", "\n", " "])


def damages(decls, di):
    """all single-token damages of declaration di: (op, position in the declaration's token list, new token or None)"""
    d = decls[di]
    for k, (t, is_c) in enumerate(d):
        if is_c or t in DECL_KW:
            continue
        yield ("delete", k, None)
        for a in ALPHABET:
            if a != t:
                yield ("replace", k, a)
            yield ("insert", k, a)


def apply_damage(decls, di, dmg):
    op, k, a = dmg
    d = list(decls[di])
    if op == "delete":
        del d[k]
    elif op == "replace":
        d[k] = (a, False)
    else:
        d.insert(k, (a, False))
    return decls[:di] + [d] + decls[di + 1:]


def classify(decls, di, dmg):
    """known-finding class of a containment failure, or None"""
    op, k, a = dmg
    d = decls[di]
    real = [j for j, (t, c) in enumerate(d) if not c]
    last = real[-1]
    nxt = decls[di + 1] if di + 1 < len(decls) else None
    next_has_doc = bool(nxt) and nxt[0][1]
    if k == last and op in ("delete", "replace") and k > 0 and d[k - 1][1]:
        return "C05-trailing-comment"
    return None


def run(ctx):
    proved = common.proof_stage(ctx)
    bindir, log = common.build_harness()
    if bindir is None:
        ctx.violation(dict(kind="build-failure", what="harness/implementation does not build", log=log[-3000:]), no_input=True)
        return
    judge, jlog = common.build_judge()
    rng = ctx.rng
    nprog = 150 if ctx.thorough() else 14
    cases = []       # (line, meta)
    for pi in range(nprog):
        while True:
            prog, _ = splgen.well_typed_program(rng, ndecls=rng.randrange(2, 5))
            if len(prog) >= 2:
                break
        base = with_comments(splgen.flatten_decls(prog), rng)
        di = rng.randrange(len(base))
        orig_tokens = [t for d in base for t, _ in d]
        lay = rng.randrange(1 << 30)
        import random as _r
        text1 = render_plain(orig_tokens, _r.Random(lay))
        alld = list(damages(base, di))
        if not ctx.thorough() and len(alld) > 2500:
            alld = rng.sample(alld, 2500)
        for dmg in alld:
            dd = apply_damage(base, di, dmg)
            text2 = render_plain([t for d in dd for t, _ in d], _r.Random(lay))
            line = "18 %d %d %s %d %s" % (di, len(text1), nums(text1), len(text2), nums(text2))
            cases.append((line, dict(prog=pi, decl=di, damage=dmg, text1=text1, text2=text2, cls=classify(base, di, dmg))))
    cdir = os.path.join(common.VERIF, "corpus", "C05")
    for f in sorted(os.listdir(cdir)) if os.path.isdir(cdir) else []:
        c = json.load(open(os.path.join(cdir, f)))
        line = "18 %d %d %s %d %s" % (c["decl"], len(c["original"]), nums(c["original"]), len(c["damaged"]), nums(c["damaged"]))
        cls = c["expect"].split(":", 1)[1] if c["expect"].startswith("known:") else None
        cases.insert(0, (line, dict(prog="corpus:" + f, decl=c["decl"], damage=("corpus", 0, None), text1=c["original"],
                                    text2=c["damaged"], cls=cls)))
    # every ordered pair of declaration shapes (the damaged one first), exhaustive damages: recovery sets differ by what
    # the damaged declaration contains (nothing / only variable declarations / statements) and by what follows it
    import random as _r2
    for a_name, a in SHAPES:
        for b_name, b in SHAPES:
            base = [[(t, False) for t in a.replace("@", "a1").split()], [(t, False) for t in b.replace("@", "b2").split()],
                    [(t, False) for t in "proc main ( ) { }".split()]]
            if rng.random() < 0.5:
                base[1].insert(0, ("// doc\n", True))
            text1 = render_plain([t for d in base for t, _ in d], _r2.Random(7))
            for dmg in damages(base, 0):
                dd = apply_damage(base, 0, dmg)
                text2 = render_plain([t for d in dd for t, _ in d], _r2.Random(7))
                line = "18 %d %d %s %d %s" % (0, len(text1), nums(text1), len(text2), nums(text2))
                cases.append((line, dict(prog="shape:%s+%s" % (a_name, b_name), decl=0, damage=dmg, text1=text1, text2=text2,
                                         cls=classify(base, 0, dmg))))
    lines = [c[0] for c in cases]
    out = common.run_lines(os.path.join(bindir, "dump_decl"), lines)
    fails, known, skipped, panics = [], {}, 0, []
    for (line, meta), o in zip(cases, out):
        x = [int(v) for v in o.split()]
        if x[0] == 5:
            skipped += 1
            continue
        if x[0] == 1:
            panics.append(meta)
            continue
        before, after, inside, table = x[1:5]
        if before and after and inside and table:
            continue
        meta = dict(meta, flags=dict(before=before, after=after, inside=inside, table=table))
        fails.append(meta)
    known_entries = {e.get("id"): e for e in common.load_known_findings("C05")}
    viol = []
    for m in fails:
        cls = m["cls"]
        if cls is not None and cls in known_entries and m["flags"]["before"]:
            known[cls] = known.get(cls, 0) + 1
        else:
            viol.append(m)
    for m in panics[:2]:
        ctx.violation(dict(kind="oracle", property="C05", what="analysing the damaged document panics", text=m["text2"],
                           damage=m["damage"]))
    for m in sorted(viol, key=lambda m: len(m["text2"]))[:3]:
        ctx.violation(dict(kind="oracle", property="C05",
                           what="a single-token damage of declaration %d is not contained: %s" % (
                               m["decl"], ", ".join(k for k, v in m["flags"].items() if not v)),
                           original=m["text1"], damaged=m["text2"], damage=m["damage"], declaration=m["decl"],
                           command="18 %d %d %s %d %s" % (m["decl"], len(m["text1"]), nums(m["text1"]), len(m["text2"]), nums(m["text2"]))))
    # correspondence on the damaged documents (sample) through command 7
    mism = []
    if judge:
        pick = rng.sample(range(len(cases)), min(len(cases), 6000 if ctx.thorough() else 1500))
        l7 = ["7 " + nums(cases[i][1]["text2"]) for i in pick]
        a = common.run_lines(os.path.join(bindir, "dump"), l7)
        b = common.run_lines(judge, l7)
        mism = [pick[j] for j in range(len(pick)) if a[j] != b[j]]
        small = [j for j in range(len(pick)) if len(l7[j]) < 500]
        ks = rng.sample(small, min(len(small), 120))
        try:
            kfail = common.kernel_judge("C05", [([int(v) for v in l7[j].split()], [int(v) for v in a[j].split()]) for j in ks])
        except RuntimeError as e:
            kfail = [0]
            ctx.cov["kernel_error"] = str(e)[-400:]
        nk = len(ks)
    else:
        kfail, nk = [], 0
    if not viol and not panics:
        if judge is None:
            ctx.violation(dict(kind="proof", property="C05", what="Coq development does not build", log=jlog[-2000:]), no_input=True)
        elif mism or kfail:
            i = mism[0] if mism else 0
            ctx.violation(dict(kind="correspondence", property="C05", what="Model/Parser.v and parser::parse differ on a damaged document",
                               text=cases[i][1]["text2"], mismatches=len(mism) + len(kfail)), no_input=True)
        elif not proved:
            ctx.violation(dict(kind="proof", property="C05", detail=getattr(ctx, "proof_failure", None)), no_input=True)
    for kid, cnt in sorted(known.items()):
        e = known_entries[kid]
        ctx.known("%s %s (%d of %d damages in this run)" % (kid, e.get("summary", ""), cnt, len(cases) - skipped))
    ops = {}
    for _, m in cases:
        ops[m["damage"][0]] = ops.get(m["damage"][0], 0) + 1
    ctx.cov.update({
        "evaluations": len(cases) - skipped,
        "distinct_nontrivial": len(set((m["prog"], m["damage"]) for _, m in cases)),
        "rule": "for %d valid programs (2-4 global declarations, doc comments and comment lines as explicit tokens): one "
                "declaration, EVERY non-keyword token of it x {delete, replace by each of %d token spellings, insert each in "
                "front of it} (exhaustive per program%s); the harness compares the other declarations' subtrees, table entries "
                "and the positions of all syntax diagnostics" % (nprog, len(ALPHABET), "" if ctx.thorough() else ", capped at 2500 damages"),
        "programs": nprog,
        "input_histogram": ops,
        "skipped_original_not_valid": skipped,
        "containment_failures": len(fails),
        "known_finding_hits": known,
        "traces_validated_against_impl": len(lines),
        "kernel_judge_cases": nk,
        "correspondence_mismatches": len(mism) + len(kfail),
        "exhaustive": False,
        "samples": [dict(damage=cases[i][1]["damage"], damaged=cases[i][1]["text2"][:200]) for i in rng.sample(range(len(cases)), 3)],
        "explanation": "Proved for ALL token lists (Props/C05.v): one-to-one correspondence between Type/Procedure declarations and "
                       "proc/type keywords (resynchronisation), gapless tiling of the token vector by the declarations, locality of "
                       "each declaration's parse (nothing behind the next proc/type/Eof token influences it, hence no influence on "
                       "declarations in front of a damage), shift-invariance of everything behind a declaration boundary, "
                       "containment of trees, diagnostics and symbol-table entries (C05_containment, C05_errors_contained, "
                       "C05_table_contained) whenever the damage ends at a declaration boundary of both parses. Decided by the exhaustive "
                       "per-program damage campaign: that concrete single-token damages do end at such a boundary, and the positions of the "
                       "diagnostics of the damaged declaration itself.",
    })
    ctx.level = "other"
    if ctx.thorough() and proved:
        if not common.coqchk(ctx):
            ctx.violation(dict(kind="proof", property="C05", detail="coqchk failed or reports axioms", out=ctx.cov.get("coqchk")), no_input=True)
    ctx.assumptions = ["the lexer output ends with its only Eof token (proved: C06_one_eof); nom combinator semantics as in Model/Parser.v"]


def replay(ctx, path):
    r = json.load(open(path))
    bindir, _ = common.build_harness()
    cmd = r.get("command")
    if not cmd:
        print(json.dumps(r, indent=1)[:3000])
        return 1
    o = common.run_lines(os.path.join(bindir, "dump_decl"), [cmd])[0]
    print("dump_decl:", o, "(0 before after inside table ...)")
    x = [int(v) for v in o.split()]
    return 0 if x[0] == 0 and all(x[1:5]) else 1
