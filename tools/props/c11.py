"""C11 - formatting is idempotent, canonical and honours the indentation options."""
import collections
import json
import random

import common
import fmtlib


def perturb(rng, text):
    """inserts one whitespace character at the start of a line or at the very end: a different text, same tokens"""
    starts = [0] + [i + 1 for i, c in enumerate(text) if c == "\n"]
    at = rng.choice(starts)
    return text[:at] + rng.choice([" ", "\n", "\t"]) + text[at:]


def oracle(exe, dump, progs, all_options=True, seed=0):
    """progs: list of dict(toks, text (layout A), text_b (layout B of the same tokens)).
    For every option setting: format A, apply the edit with the python client, check the indentation of the result,
    format the result again (must be null), format a whitespace perturbation of the result (must give the result back);
    format B (must give the same text).  Returns (failures, stats, jobs, observations)."""
    rng = random.Random(seed)
    opts = fmtlib.option_settings()
    jobs1, tag1 = [], []
    for pi, p in enumerate(progs):
        sel = opts if all_options else p.get("options", opts[:1])
        bsel = set(rng.sample(range(len(sel)), min(2, len(sel))))
        for oi, o in enumerate(sel):
            jobs1.append((p["text"], o[0], o[1]))
            tag1.append((pi, o, "A"))
            if oi in bsel and p.get("text_b") is not None:
                jobs1.append((p["text_b"], o[0], o[1]))
                tag1.append((pi, o, "B"))
    obs1 = fmtlib.format_many(exe, jobs1, tag="a11")
    fails = []
    result = {}      # (pi, option) -> formatted text of layout A
    jobs2, tag2 = [], []
    for j, (job, (pi, o, which), ob) in enumerate(zip(jobs1, tag1, obs1)):
        text = job[0]
        if ob[0] == "null":
            out = text
        elif ob[0] == "edit":
            if ob[2] == text:
                fails.append(dict(prog=pi, option=o, what="an edit was returned although nothing changes (null expected)", layout=which))
            if tuple(ob[1]) != (0, 0) + fmtlib.end_position(text):
                fails.append(dict(prog=pi, option=o, what="the edit does not cover the whole document", range=list(ob[1]), layout=which))
            out = fmtlib.apply_edit(text, ob[1], ob[2])
        else:
            fails.append(dict(prog=pi, option=o, what="no formatting response", observed=list(map(str, ob)), layout=which, job=j))
            continue
        if which == "A":
            result[(pi, o)] = out
            jobs2.append((out, o[0], o[1]))
            tag2.append((pi, o, "again"))
            pt = perturb(rng, out)
            jobs2.append((pt, o[0], o[1]))
            tag2.append((pi, o, "perturbed"))
    for (job, (pi, o, which), ob) in zip(jobs1, tag1, obs1):
        if which == "B" and (pi, o) in result and ob[0] in ("null", "edit"):
            out_b = job[0] if ob[0] == "null" else fmtlib.apply_edit(job[0], ob[1], ob[2])
            if out_b != result[(pi, o)]:
                fails.append(dict(prog=pi, option=o, what="two layouts of the same token sequence format differently",
                                  layout_a=progs[pi]["text"], layout_b=job[0], formatted_a=result[(pi, o)], formatted_b=out_b))
    obs2 = fmtlib.format_many(exe, jobs2, tag="b11")
    for (job, (pi, o, which), ob) in zip(jobs2, tag2, obs2):
        if which == "again":
            if ob[0] != "null":
                fails.append(dict(prog=pi, option=o, what="formatting the formatted document is not null (not idempotent)",
                                  formatted=job[0], second=list(map(str, ob))[:3]))
        else:
            if ob[0] != "edit" or fmtlib.apply_edit(job[0], ob[1], ob[2]) != result[(pi, o)]:
                fails.append(dict(prog=pi, option=o, what="a whitespace perturbation of the formatted document does not format back to it "
                                                          "(null must be returned only when nothing would change)",
                                  perturbed=job[0], expected=result[(pi, o)], observed=list(map(str, ob))[:3]))
    # indentation: depth x unit on every line
    keys = sorted(result, key=lambda k: (k[0], not k[1][0], k[1][1]))
    lexed = fmtlib.lex_real(dump, [result[k] for k in keys])
    depth_checked = 0
    for k, lx in zip(keys, lexed):
        pi, o = k
        bad = fmtlib.depth_failures(result[k], lx, progs[pi]["toks"], fmtlib.unit_of(*o))
        depth_checked += 1
        if bad:
            fails.append(dict(prog=pi, option=o, what="indentation is not depth x unit", lines=[list(b) for b in bad[:4]], formatted=result[k]))
    stats = dict(requests=len(jobs1) + len(jobs2), depth_checked=depth_checked, results=result,
                 nulls_first=sum(1 for o in obs1 if o[0] == "null"))
    return fails, stats, jobs1 + jobs2, obs1 + obs2


def mk_prog(rng, prog=None, origin=None):
    mode = rng.choice(["leading", "leading", "any", "none"])
    d = fmtlib.valid_doc(rng, comment_gaps=mode, prog=prog, origin=origin)
    sp = fmtlib.spellings(d["toks"])
    d["text_b"] = fmtlib.layout(sp, rng, d["gap_comments"], newline=rng.choice(["\n", "\r\n"]), dense=rng.random() < 0.3)
    d["mode"] = mode
    return d


def damaged_layout_pairs(ctx, exe, dump):
    """`two programs that differ only in whitespace format to the same text` - also when the program has syntax errors: token
    sequences of damaged programs in two random layouts (compared only when the real lexer reads the same tokens from both)"""
    import splgen
    rng = ctx.rng
    pairs = []
    for _ in range(900 if ctx.thorough() else 150):
        prog, _ = splgen.well_typed_program(rng, ndecls=rng.randrange(1, 4))
        sp = splgen.damage(splgen.flatten(prog), rng, k=rng.choice([1, 1, 2, 3]))
        a = fmtlib.layout(sp, rng, None, newline=rng.choice(["\n", "\r\n"]), dense=rng.random() < 0.5)
        b = fmtlib.layout(sp, rng, None, newline="\n", dense=False)
        pairs.append((a, b))
    la = fmtlib.lex_real(dump, [a for a, _ in pairs])
    lb = fmtlib.lex_real(dump, [b for _, b in pairs])
    same = [i for i in range(len(pairs)) if la[i] is not None and lb[i] is not None
            and [(t["kind"], t["val"]) for t in la[i]] == [(t["kind"], t["val"]) for t in lb[i]]]
    opts = fmtlib.option_settings()
    jobs, tags = [], []
    for i in same:
        o = rng.choice(opts)
        jobs += [(pairs[i][0], o[0], o[1]), (pairs[i][1], o[0], o[1])]
        tags.append((i, o))
    obs = fmtlib.format_many(exe, jobs, tag="d11")

    def text_of(job, ob):
        return job[0] if ob[0] == "null" else fmtlib.apply_edit(job[0], ob[1], ob[2]) if ob[0] == "edit" else None
    fails = []
    for k, (i, o) in enumerate(tags):
        ta, tb = text_of(jobs[2 * k], obs[2 * k]), text_of(jobs[2 * k + 1], obs[2 * k + 1])
        if ta is not None and tb is not None and ta != tb:
            fails.append(dict(layout_a=pairs[i][0], layout_b=pairs[i][1], formatted_a=ta, formatted_b=tb, insert_spaces=o[0], tab_size=o[1]))
    confirmed = []
    for f in sorted(fails, key=lambda f: len(f["layout_a"]))[:3]:
        again = fmtlib.format_many(exe, [(f["layout_a"], f["insert_spaces"], f["tab_size"]), (f["layout_b"], f["insert_spaces"], f["tab_size"])], tag="d11c")
        if text_of((f["layout_a"],), again[0]) != text_of((f["layout_b"],), again[1]):
            confirmed.append(f)
    return confirmed, dict(pairs=len(pairs), same_tokens_in_both_layouts=len(same), deviations=len(fails))


SEQUENCES = [[(True, 4), (False, 4), (True, 4)], [(False, 2), (True, 2), (False, 2)], [(True, 0), (False, 0)],
             [(True, 8), (True, 8), (False, 8), (True, 3)]]


def history_independence(ctx, exe, judge, progs):
    sample = progs[:4] + ctx.rng.sample(progs, min(len(progs), 60 if ctx.thorough() else 16))
    fails = []
    for k, p in enumerate(sample):
        seq = SEQUENCES[k % len(SEQUENCES)]
        want = common.run_lines(judge, [fmtlib.judge_cmd(p["text"], a, b) for a, b in seq])
        srv = fmtlib.FmtServer(exe, "hist%d" % k)
        try:
            got = [fmtlib.enc_obs(srv.format(p["text"], a, b, timeout=20.0)) for a, b in seq]
        finally:
            srv.kill()
        if got != want:
            # three fresh processes before it counts
            again = []
            for r in range(3):
                srv = fmtlib.FmtServer(exe, "histr%d_%d" % (k, r))
                try:
                    again.append([fmtlib.enc_obs(srv.format(p["text"], a, b, timeout=30.0)) for a, b in seq])
                finally:
                    srv.kill()
            if all(g != want for g in again):
                i = [x != y for x, y in zip(again[0], want)].index(True)
                fails.append(dict(text=p["text"], sequence=[list(o) for o in seq], first_wrong_request=i,
                                  observed=fmtlib.dec_model(again[0][i]) if again[0][i] else None,
                                  expected=fmtlib.dec_model(want[i])))
    for f in sorted(fails, key=lambda f: len(f["text"]))[:2]:
        ctx.violation(dict(kind="oracle", property="C11",
                           what="the formatting answer depends on earlier requests: request %d of a sequence of formatting requests "
                                "with different options on the same document is not what the options prescribe" % f["first_wrong_request"],
                           text=f["text"], sequence=f["sequence"], observed=f["observed"], expected=f["expected"]))
    ctx.cov["history_independence_sequences"] = len(sample)
    return fails


def run(ctx):
    proved = common.proof_stage(ctx)
    env = fmtlib.setup(ctx)
    if env is None:
        return
    exe, judge, dump = env
    progs = []
    for c in fmtlib.load_corpus("C11"):
        toks = fmtlib.annotate(c["program"], {int(g): v for g, v in c.get("gap_comments", {}).items()})
        progs.append(dict(origin="corpus", prog=c["program"], toks=toks, text=c["text"], text_b=c.get("text_b"), mode="corpus",
                          gap_comments=c.get("gap_comments", {})))
    n = 2500 if ctx.thorough() else 260
    for _ in range(n):
        progs.append(mk_prog(ctx.rng))
    fails, st, jobs, obs = oracle(exe, dump, progs, seed=ctx.rng.randrange(1 << 30))
    # history independence: the answer is a function of (text, options) alone - the same document asked with different
    # option settings in a row, in ONE server process, must get what the model computes for each request
    hist_fail = history_independence(ctx, exe, judge, progs)
    dl_fail, dl_cov = damaged_layout_pairs(ctx, exe, dump)
    for f in dl_fail[:2]:
        ctx.violation(dict(kind="damaged-layouts", property="C11", what="two layouts of the same (damaged) token sequence format differently", **f))
    ctx.cov["damaged_layout_pairs"] = dl_cov
    shown = 0
    seen = set()
    for f in sorted(fails, key=lambda f: len(progs[f["prog"]]["text"])):
        pi = f["prog"]
        if f["what"] == "no formatting response":
            j = jobs[f["job"]]
            if fmtlib.confirm(exe, j, lambda o: o[0] in ("null", "edit")) is None:
                continue
        if (pi, f["what"]) in seen:
            continue
        seen.add((pi, f["what"]))
        if shown < 3:
            p = progs[pi]
            if shown == 0:
                what = f["what"]

                def still(v, o=f["option"]):
                    q = dict(prog=v, toks=fmtlib.annotate(v), text=fmtlib.plain_text(v), gap_comments={}, options=[tuple(o)],
                             text_b=" " + fmtlib.plain_text(v).replace(" ", "  "))
                    f2, _, _, _ = oracle(exe, dump, [q], all_options=False)
                    return [x for x in f2 if x["what"] == what]
                if still(p["prog"]):
                    small = fmtlib.shrink_program(p["prog"], still)
                    p = dict(prog=small, gap_comments={}, text=fmtlib.plain_text(small), text_b=" " + fmtlib.plain_text(small).replace(" ", "  "))
                    f = still(small)[0]
                    f["option"] = tuple(f["option"])
            ctx.violation(dict(kind="oracle", property="C11", program=p["prog"], gap_comments={str(k): v for k, v in p["gap_comments"].items()},
                               text=p["text"], text_b=p["text_b"], insert_spaces=f["option"][0], tab_size=f["option"][1],
                               failure={k: v for k, v in f.items() if k not in ("prog", "job")}))
        shown += 1
    # correspondence: every request made above, plus a malformed stream
    labels = ["chained-valid"] * len(jobs)
    jobs = list(jobs)
    obs = list(obs)
    mal = []
    for _ in range(1500 if ctx.thorough() else 300):
        k, t = fmtlib.malformed_doc(ctx.rng)
        o = ctx.rng.choice(fmtlib.option_settings())
        mal.append((t, o[0], o[1]))
        labels.append(k)
    obs += fmtlib.format_many(exe, mal, tag="m11")
    jobs += mal
    # the chained requests repeat documents; the model is run once per distinct request
    uniq = {}
    for j in jobs:
        uniq.setdefault(j, len(uniq))
    ujobs = sorted(uniq, key=uniq.get)
    firstidx = {}
    for i, j in enumerate(jobs):
        firstidx.setdefault(j, i)
    uobs = [obs[firstidx[j]] for j in ujobs]
    ulabels = [labels[firstidx[j]] for j in ujobs]
    # (a request repeated with a different answer would be a mismatch of one of them with the model: check all)
    corr = fmtlib.correspondence(ctx, exe, judge, ujobs, ulabels, kernel_n=200 if ctx.thorough() else 80, obs=uobs)
    exp = {j: m for j, m in zip(ujobs, corr["model"])}
    unstable = [i for i, j in enumerate(jobs) if fmtlib.enc_obs(obs[i]) != exp[j] and i != firstidx[j]]
    if unstable and not corr["mismatches"]:
        corr["mismatches"] = [uniq[jobs[unstable[0]]]]
        seen3 = fmtlib.confirm(exe, jobs[unstable[0]], lambda o: fmtlib.enc_obs(o) == exp[jobs[unstable[0]]])
        if seen3 is not None:
            corr["confirmed"] = [(uniq[jobs[unstable[0]]], seen3)]
    fmtlib.report_correspondence(ctx, corr, ujobs, ulabels, shown > 0, proved,
                                 "model Format.format_request and the server's textDocument/formatting response differ")
    ctx.cov.update(fmtlib.corr_cov(corr, ulabels))
    modes = collections.Counter(p["mode"] for p in progs)
    ctx.cov.update({
        "evaluations": st["requests"],
        "distinct_nontrivial": len(set((p["text"]) for p in progs if len(p["toks"]) > 4)),
        "rule": "%d valid programs (typed / untyped) with comments in leading gaps, in any gap or none, two random layouts A and B of the same "
                "token sequence (LF / CRLF, dense, tabs); for each of the 10 option settings (insertSpaces with tabSize 0..8, tabs): format A, "
                "apply the edit with an independent python client (UTF-16 positions), every line of the result must start with exactly "
                "depth x unit where depth is the nesting depth of the line's first token in the generator's derivation (procedure body, "
                "block, non-block branch, multi-line parameter list), format the result again => null, format a one-character whitespace "
                "perturbation of the result => the result again; for 2 settings per program format B => same text as A.  "
                "non-trivial = distinct program text with more than 4 tokens" % len(progs),
        "programs": len(progs), "comment_modes": dict(modes), "indentation_checks": st["depth_checked"],
        "first_requests_answered_null": st["nulls_first"],
        "oracle_failures": len(fails),
        "samples": [dict(text=p["text"], text_b=p["text_b"], formatted_spaces4=st["results"].get((i, (True, 4))))
                    for i, p in [(i, progs[i]) for i in ctx.rng.sample(range(len(progs)), 2)]],
        "explanation": "PROVED (Coq, closed, over the model Model/Format.v): " + PROVED + "  VALIDATED ONLY: " + VALIDATED,
    })
    ctx.level = "proof" if proved else "other"
    ctx.assumptions = ["the Coq model Model/Format.v is tied to formatting.rs by differential runs only",
                       "serde/lsp-types JSON mapping trusted (tabSize is a u32, insertSpaces a bool)"]
    if ctx.thorough() and proved:
        if not common.coqchk(ctx):
            ctx.violation(dict(kind="proof", property="C11", detail="coqchk failed or reports axioms", out=ctx.cov.get("coqchk")), no_input=True)


PROVED = ("C11_null_iff (null exactly when the formatted text equals the document), C11_whole_edit (otherwise one edit, the formatted text "
          "over the whole document), C11_client_unit / C11_indent_lines / C11_indent_unit (every line produced by `indent` is the unit - "
          "tabSize spaces or one tab - followed by the line it was given), C11_block_lines (exact line structure of a block), "
          "C11_nested_lines (by induction over the nesting: a statement d levels below another has each of its lines d units deeper in "
          "it), C11_proc_stmt_lines / C11_proc_var_lines (procedure bodies are one unit deep), C11_printer_reads_kinds_only, "
          "C11_parser_reads_kinds_only and C11_canonical (two documents whose token streams have the same kinds format identically: "
          "whitespace and positions never reach parser or printers).")
VALIDATED = ("Idempotence is proved for EVERY valid program with comments in any gap (C11_idempotent_any, C11_idempotent_document_any; before "
             "that for comment-free and leading-comment programs: C11_idempotent_comment_free / _lead): the printer's output is the rendering of "
             "`kept p`, whose own formatting is the same text. C11_idempotent_full_statement in the wording `syntactically valid document` "
             "(instead of `layout of an abstract program with prog_ok`) is stated only. All of it is also checked on the implementation by chained "
             "requests for every generated program and all 10 option settings, as are the exact indentation depth of every output line "
             "(depth from the generator's derivation), canonical output for two layouts and null-iff-unchanged.")


def replay_damaged(ctx, r):
    env = fmtlib.setup(ctx)
    exe, judge, dump = env
    obs = fmtlib.format_many(exe, [(r["layout_a"], r["insert_spaces"], r["tab_size"]), (r["layout_b"], r["insert_spaces"], r["tab_size"])], tag="rd")
    outs = [(t if ob[0] == "null" else fmtlib.apply_edit(t, ob[1], ob[2]) if ob[0] == "edit" else None) for t, ob in zip((r["layout_a"], r["layout_b"]), obs)]
    print(repr(outs[0]))
    print(repr(outs[1]))
    return 0 if outs[0] == outs[1] else 1


def replay(ctx, path):
    r = json.load(open(path))
    if r.get("kind") == "damaged-layouts":
        return replay_damaged(ctx, r)
    if "program" not in r:
        print(json.dumps(r, indent=1)[:3000])
        return 1
    env = fmtlib.setup(ctx)
    if env is None:
        return 1
    exe, judge, dump = env
    gc = {int(k): v for k, v in r.get("gap_comments", {}).items()}
    p = dict(prog=r["program"], toks=fmtlib.annotate(r["program"], gc), text=r["text"], text_b=r.get("text_b"), gap_comments=gc,
             options=[(r.get("insert_spaces", True), r.get("tab_size", 4))])
    fails, st, _, _ = oracle(exe, dump, [p], all_options=False)
    print("document :", repr(r["text"]))
    for k, v in st["results"].items():
        print("formatted", k[1], ":", repr(v))
    for f in fails:
        print("FAIL:", json.dumps({k: v for k, v in f.items() if k not in ("prog", "job")}, ensure_ascii=False)[:1500])
    return 1 if fails else 0
