"""C04 - the syntax tree is the derivation the SPL grammar mandates.

Layers:
  proof            Props/C04.v about the model Model/Parser.v and the specification Spec/Grammar.v
                   (abstract syntax with a comment slot in front of every token, `flatten`, `expected`)
  correspondence   abstract programs (tools/grammargen.py) are rendered to text in several layouts; the REAL lexer
                   and parser (harness `dump`, commands 1 and 7) run on the text; the extracted judge (command 10,
                   Judge/RunGrammar.v) computes `flatten p` and `expected p` from the numerically encoded abstract
                   program; compared: real token kinds = flatten p ++ [Eof], real tree = expected p.  A sample is
                   re-judged inside coqc (vm_compute).
  oracle           on the implementation alone: the real tree equals the tree re-computed from the derivation by an
                   independent python walk (structure, every range = the node's own tokens with leading comments,
                   relative to the enclosing Reference; no error attached anywhere), the real tokens are the
                   derivation's tokens, and two layouts of the same abstract program give identical trees.
"""
import hashlib
import json
import os
import random
import time
from concurrent.futures import ProcessPoolExecutor

import common
import enc
import grammargen as gg
import splgen

FULL_PROOF = True   # Props/C04.v proves C04_roundtrip for all abstract programs with comments everywhere

import sys
sys.setrecursionlimit(100000)
import threading
threading.stack_size(512 * 1024 * 1024)

LAYOUTS = [("dense", "\n"), ("sparse", "\n"), ("sparse", "\r\n"), ("lines", "\n"), ("lines", "\r\n")]


# ----------------------------------------------------------------------------------------------
# cases

def make_case(prog, slots, style, newline, lseed):
    """one (abstract program, layout) pair -> everything that is fed to the judges"""
    text = gg.render(prog, slots, random.Random(lseed), style, newline)
    eff = gg.crlf_slots(slots) if newline == "\r\n" else slots
    cps = " ".join(str(ord(c)) for c in text)
    return dict(prog=prog, slots=eff, style=style, newline=newline, text=text,
                lex_cmd="1 " + cps, parse_cmd="7 " + cps,
                judge_cmd="10 " + " ".join(map(str, gg.encode(prog, eff))),
                kinds=gg.kinds(prog, eff), tree=gg.expect(prog, eff))


def gen_cases(seed, lo, hi, hist):
    """deterministic chunk of generated cases: programs seed*.. + index"""
    out = []
    for i in range(lo, hi):
        rng = random.Random(seed * 7919 + i)
        prog = gg.gen_program(rng, 6, 60, hist)
        n = len(splgen.flatten(prog)) + 1
        p = rng.choice([0.0, 0.05, 0.1, 0.1, 0.3, 1.0])
        slots = gg.rand_slots(rng, n, p)
        lays = [LAYOUTS[0], LAYOUTS[1]] + [rng.choice(LAYOUTS[2:])]
        if rng.random() < 0.25:
            lays += [LAYOUTS[2], LAYOUTS[4]]
        for k, (style, nl) in enumerate(lays):
            c = make_case(prog, slots, style, nl, seed * 31 + i * 7 + k)
            c["pid"] = i
            out.append(c)
    return out


def lite(c):
    return {k: c[k] for k in ("prog", "slots", "style", "newline", "text", "judge_cmd", "pid")}


def digest_cases(cases, dump, judge, ksel_seed):
    """evaluates a list of cases (in this process: the binaries are run on the whole list) and condenses the result"""
    res = evaluate(cases, dump, judge, jobs=1)
    npairs, bad = layout_groups(cases, res)
    st = dict(cases=len(cases), tokens=0, max_tokens=0, comments=0, lay_pairs=npairs)
    distinct, fails_, mism, kc = set(), [], [], []
    krng = random.Random(ksel_seed)
    for c, v in zip(cases, res):
        nt = c["kinds"][0]
        st["tokens"] += nt
        st["max_tokens"] = max(st["max_tokens"], nt)
        st["comments"] += sum(len(x) for x in c["slots"])
        if nt >= 12:
            distinct.add(hashlib.sha256(c["judge_cmd"].encode()).digest()[:12])
        if not (v["tokens_ok"] and v["tree_ok"]):
            if len(fails_) < 20:
                fails_.append((lite(c), dict(tokens_ok=v["tokens_ok"], tree_ok=v["tree_ok"])))
            st["fails"] = st.get("fails", 0) + 1
        elif judge and not v["judge_ok"]:
            if len(mism) < 5:
                mism.append((lite(c), dict(judge=v["judge"], real_tree=v["real_tree"])))
            st["mism"] = st.get("mism", 0) + 1
        elif judge and nt <= 60 and len(kc) < 12 and krng.random() < 0.2:
            kc.append((c["judge_cmd"], v["judge"]))
    lay = [(lite(cases[i]), lite(cases[j]), res[i]["real_tree"], res[j]["real_tree"]) for i, j in bad[:2]]
    st["lay_bad"] = len(bad)
    sample = None
    if cases:
        c = cases[krng.randrange(len(cases))]
        sample = dict(text=c["text"], style=c["style"], newline=c["newline"], slots_nonempty=sum(1 for x in c["slots"] if x),
                      judge_cmd=c["judge_cmd"][:400])
    return dict(st=st, distinct=distinct, fails=fails_, mism=mism, kc=kc, lay=lay, sample=sample)


def work_chunk(args):
    seed, lo, hi, dump, judge = args
    hist = {}
    cases = gen_cases(seed, lo, hi, hist)
    d = digest_cases(cases, dump, judge, seed * 13 + lo)
    d["hist"] = hist
    return d


def gap_family(seed, nprogs):
    """a few small programs with one comment in every gap in turn"""
    out = []
    rng = random.Random(seed * 104729 + 1)
    tried = 0
    while len(out) < nprogs * 40 and tried < 200:
        tried += 1
        prog = gg.gen_program(rng, 3, 8)
        toks = splgen.flatten(prog)
        if not 8 <= len(toks) <= 70:
            continue
        for g in range(len(toks) + 1):
            slots = gg.one_comment_slots(len(toks) + 1, g, rng.choice(gg.COMMENT_TEXTS))
            c = make_case(prog, slots, rng.choice(["dense", "sparse"]), "\n", seed + g)
            c["pid"] = -1 - tried
            out.append(c)
        nprogs -= 1
        if nprogs <= 0:
            break
    return out


def deep_family():
    """valid programs nested far deeper than anything the random generator reaches: a limit on the nesting of ONE construct
    (brackets, unary minus, indices, blocks, if / while, array types) shows only here"""
    out = []
    one = ("lit", "1")
    x = ("var", ("name", "x"))
    cond = ("bin", "<", x, one)

    def nest(n, f, base):
        e = base
        for _ in range(n):
            e = f(e)
        return e

    for n in (33, 40, 70, 150):
        progs = {
            "brackets": ("assign", ("name", "x"), ("bin", "+", nest(n, lambda e: ("par", e), one), ("lit", "2"))),
            "minus": ("assign", ("name", "x"), nest(n, lambda e: ("neg", e), x)),
            "index": ("assign", nest(n, lambda v: ("index", v, one), ("name", "a")), ("var", nest(n, lambda v: ("index", ("name", "a"), ("var", v)), ("name", "x")))),
            "blocks": nest(n, lambda s: ("block", [s, ("empty",)]), ("assign", ("name", "x"), one)),
            "ifs": nest(n, lambda s: ("if", cond, s, ("empty",)), ("assign", ("name", "x"), one)),
            "whiles": nest(n, lambda s: ("while", cond, s), ("empty",)),
            "left-assoc": ("assign", ("name", "x"), nest(n, lambda e: ("bin", "-", e, one), x)),
            "right-brackets": ("assign", ("name", "x"), nest(n, lambda e: ("bin", "*", one, ("par", e)), x)),
        }
        for name, s in progs.items():
            prog = [("proc", "main", [], [], [s])]
            out.append((name, n, prog))
        out.append(("array-types", n, [("type", "t", nest(n, lambda b: ("array", "2", b), ("named", "int"))), ("proc", "main", [], [], [])]))
    cases = []
    for k, (name, n, prog) in enumerate(out):
        slots = gg.empty_slots(len(splgen.flatten(prog)) + 1)
        c = make_case(prog, slots, "dense" if k % 2 else "sparse", "\n", 5000 + k)
        c["pid"] = "deep/%s/%d" % (name, n)
        cases.append(c)
    return cases


def corpus_cases():
    out = []
    d = os.path.join(common.VERIF, "corpus", "C04")
    if os.path.isdir(d):
        for f in sorted(os.listdir(d)):
            if not f.endswith(".json"):
                continue
            c = json.load(open(os.path.join(d, f)))
            prog = totuple(c["prog"])
            n = len(splgen.flatten(prog)) + 1
            slots = c.get("slots") or gg.empty_slots(n)
            for k, (style, nl) in enumerate([("dense", "\n"), ("sparse", "\n"), ("lines", "\r\n")]):
                x = make_case(prog, slots, style, nl, 1000 + k)
                x["pid"] = "corpus/" + f
                out.append(x)
    return out


def totuple(x):
    """JSON arrays -> the nested tuples of splgen (lists stay lists where splgen uses lists)"""
    if isinstance(x, list):
        if x and isinstance(x[0], str) and x[0] in ("type", "proc", "named", "array", "empty", "assign", "call", "if",
                                                    "while", "block", "name", "index", "lit", "var", "neg", "par", "bin"):
            return tuple(totuple(y) for y in x)
        return [totuple(y) for y in x]
    return x


def param_fix(prog):
    """params and vars are plain tuples (is_ref, name, texpr) / (name, texpr) without a tag"""
    out = []
    for d in prog:
        if d[0] == "proc":
            out.append(("proc", d[1], [tuple(p) for p in d[2]], [tuple(v) for v in d[3]], d[4]))
        else:
            out.append(d)
    return out


# ----------------------------------------------------------------------------------------------
# running

def real_kinds(lex_line):
    """enc_list enc_kind of the real token stream, from the output of dump command 1"""
    nums = enc.nums(lex_line)
    if not nums or nums[0] != 0:
        return None
    r = enc.Reader(nums)
    r.get()
    n = r.get()
    out = [n]
    for _ in range(n):
        a = r.i
        tag = r.get()
        kind = enc.KINDS[tag]
        if kind in ("Ident", "Comment", "Unknown"):
            r.text()
        elif kind == "Char":
            r.get()
        elif kind in ("Int", "Hex"):
            if r.get() == 0:
                r.get()
            else:
                r.text()
        out += nums[a:r.i]
        r.get()
        r.get()
        for _ in range(r.get()):
            r.get()
            r.get()
            if r.get() == 2:
                r.text()
    return out


def evaluate(cases, dump, judge, jobs=common.JOBS):
    """runs the implementation and the extracted judge; returns per-case verdicts"""
    both = common.run_lines(dump, [c["lex_cmd"] for c in cases] + [c["parse_cmd"] for c in cases], jobs=jobs)
    lex, par = both[:len(cases)], both[len(cases):]
    jud = common.run_lines(judge, [c["judge_cmd"] for c in cases], jobs=jobs) if judge else [None] * len(cases)
    res = []
    for c, l, p, j in zip(cases, lex, par, jud):
        rk = real_kinds(l)
        rt = enc.nums(p)
        v = dict(tokens_ok=(rk == c["kinds"]), tree_ok=(rt == [0] + c["tree"]), real_tree=rt, real_kinds=rk)
        if j is not None:
            v["judge_ok"] = (rk is not None and enc.nums(j) == [0] + rk + rt[1:])
            v["judge"] = j
        res.append(v)
    return res


def layout_groups(cases, res):
    """oracle: cases of the same program with the same effective slots must give the same tree"""
    groups = {}
    for i, c in enumerate(cases):
        key = (c["pid"], json.dumps(c["slots"]))
        groups.setdefault(key, []).append(i)
    bad = []
    npairs = 0
    for idx in groups.values():
        for i in idx[1:]:
            npairs += 1
            if res[i]["real_tree"] != res[idx[0]]["real_tree"]:
                bad.append((idx[0], i))
    return npairs, bad


# ----------------------------------------------------------------------------------------------
# shrinking a failing abstract program (oracle failures only need the implementation)

def sub_exprs(e):
    k = e[0]
    if k in ("neg", "par"):
        return [e[1]]
    if k == "bin":
        return [e[2], e[3]]
    if k == "var":
        v = e[1]
        if v[0] == "index":
            return [("var", v[1]), v[2]]
    return []


def shrink_expr(e):
    """candidate smaller expressions (all keep the derivation shape when put at a comparison position)"""
    out = [("lit", "1")] if e != ("lit", "1") else []
    out += sub_exprs(e)
    k = e[0]
    if k in ("neg", "par"):
        out += [(k, x) for x in shrink_expr(e[1])]
    elif k == "bin":
        out += [("bin", e[1], x, e[3]) for x in shrink_expr(e[2])]
        out += [("bin", e[1], e[2], x) for x in shrink_expr(e[3])]
    elif k == "var" and e[1][0] == "index":
        v = e[1]
        out += [("var", ("index", v[1], x)) for x in shrink_expr(v[2])]
        out += [("var", ("index", y[1], v[2])) for y in shrink_expr(("var", v[1])) if y[0] == "var"]
    return [x for x in out if gg.levels_ok(x)]


def shrink_stmt(s):
    k = s[0]
    out = [("empty",)] if s != ("empty",) else []
    if k == "assign":
        out += [("assign", ("name", "x"), s[2])] if s[1] != ("name", "x") else []
        out += [("assign", y[1], s[2]) for y in shrink_expr(("var", s[1])) if y[0] == "var"]
        out += [("assign", s[1], x) for x in shrink_expr(s[2])]
    elif k == "call":
        out += [("call", s[1], s[2][:i] + s[2][i + 1:]) for i in range(len(s[2]))]
        out += [("call", s[1], s[2][:i] + [x] + s[2][i + 1:]) for i in range(len(s[2])) for x in shrink_expr(s[2][i])]
    elif k == "if":
        out += [s[2]] + ([s[3], ("if", s[1], s[2], None)] if s[3] is not None else [])
        out += [("if", x, s[2], s[3]) for x in shrink_expr(s[1])]
        out += [("if", s[1], x, s[3]) for x in shrink_stmt(s[2])]
        if s[3] is not None:
            out += [("if", s[1], s[2], x) for x in shrink_stmt(s[3])]
    elif k == "while":
        out += [s[2]]
        out += [("while", x, s[2]) for x in shrink_expr(s[1])]
        out += [("while", s[1], x) for x in shrink_stmt(s[2])]
    elif k == "block":
        out += list(s[1])
        out += [("block", s[1][:i] + s[1][i + 1:]) for i in range(len(s[1]))]
        out += [("block", s[1][:i] + [x] + s[1][i + 1:]) for i in range(len(s[1])) for x in shrink_stmt(s[1][i])]
    return [x for x in out if gg.else_ok(x)]


def shrink_texpr(t):
    if t[0] == "named":
        return [] if t == ("named", "int") else [("named", "int")]
    return [t[2], ("array", "1", t[2])] + [("array", t[1], x) for x in shrink_texpr(t[2])]


def shrink_prog(prog):
    out = []
    for i, d in enumerate(prog):
        out.append(prog[:i] + prog[i + 1:])
    for i, d in enumerate(prog):
        if d[0] == "type":
            cands = [("type", d[1], x) for x in shrink_texpr(d[2])]
        else:
            _, n, ps, vs, ss = d
            cands = [("proc", n, ps[:j] + ps[j + 1:], vs, ss) for j in range(len(ps))]
            cands += [("proc", n, ps, vs[:j] + vs[j + 1:], ss) for j in range(len(vs))]
            cands += [("proc", n, ps, vs, ss[:j] + ss[j + 1:]) for j in range(len(ss))]
            cands += [("proc", n, ps[:j] + [(ps[j][0], ps[j][1], x)] + ps[j + 1:], vs, ss) for j in range(len(ps)) for x in shrink_texpr(ps[j][2])]
            cands += [("proc", n, ps, vs[:j] + [(vs[j][0], x)] + vs[j + 1:], ss) for j in range(len(vs)) for x in shrink_texpr(vs[j][1])]
            cands += [("proc", n, ps, vs, ss[:j] + [x] + ss[j + 1:]) for j in range(len(ss)) for x in shrink_stmt(ss[j])]
        out += [prog[:i] + [c] + prog[i + 1:] for c in cands]
    return out


def fails(prog, slots, dump, style="sparse", newline="\n"):
    c = make_case(prog, slots, style, newline, 7)
    v = evaluate([c], dump, None)[0]
    return not (v["tokens_ok"] and v["tree_ok"])


def shrink(prog, slots, dump, style, newline, budget=600):
    """greedy: without comments if the failure survives that (then smaller programs), else fewer comments"""
    n = len(splgen.flatten(prog)) + 1
    if fails(prog, gg.empty_slots(n), dump, style, newline):
        slots = gg.empty_slots(n)
        progress = True
        while progress and budget > 0:
            progress = False
            for cand in shrink_prog(prog):
                budget -= 1
                if budget <= 0:
                    break
                cs = gg.empty_slots(len(splgen.flatten(cand)) + 1)
                if fails(cand, cs, dump, style, newline):
                    prog, slots, progress = cand, cs, True
                    break
        return prog, slots
    progress = True
    while progress and budget > 0:
        progress = False
        for g in range(len(slots)):
            if slots[g]:
                budget -= 1
                cand = slots[:g] + [slots[g][1:]] + slots[g + 1:]
                if fails(prog, cand, dump, style, newline):
                    slots, progress = cand, True
                    break
    return prog, slots


# ----------------------------------------------------------------------------------------------

def describe(c, v):
    return dict(kind="oracle", property="C04", text=c["text"], prog=c["prog"], slots=c["slots"], style=c["style"],
                newline=c["newline"], tokens_ok=v["tokens_ok"], tree_ok=v["tree_ok"],
                expected_tree=[0] + c["tree"], real_tree=v["real_tree"],
                what="on a syntactically valid program the real parser's tree (canonical encoding, dump command 7) differs "
                     "from the tree the grammar mandates (structure / ranges / offsets / attached errors), or the real "
                     "tokens are not the derivation's tokens")


def run(ctx):
    proved = common.proof_stage(ctx, extra_targets=["theories/Judge/RunGrammar.vo"])
    judge, jlog = common.build_judge()
    hdir, hlog = common.build_harness()
    if hdir is None:
        ctx.violation(dict(kind="build-failure", what="harness / spl_frontend does not build", log=hlog[-3000:]), no_input=True)
        return
    dump = os.path.join(hdir, "dump")
    nprog = 50000 if ctx.thorough() else 800
    t_gen = time.time()
    first = corpus_cases()
    ncorpus = len(first)
    fam = gap_family(ctx.seed, 12 if ctx.thorough() else 4)
    first += fam
    deep = deep_family()
    first += deep
    ctx.cov["deep_nesting_cases"] = len(deep)
    hist = {}
    stats = dict(cases=0, tokens=0, max_tokens=0, comments=0)
    fails_all, mism_all, lay_bad = [], [], []
    nfails = nmism = nlaybad = lay_pairs = 0
    distinct = set()
    samples = []
    kcases = []
    kmax = 240 if ctx.thorough() else 96
    chunk = 125 if ctx.thorough() else 50
    jobs = [(ctx.seed, lo, min(nprog, lo + chunk), dump, judge) for lo in range(0, nprog, chunk)]

    def absorb(d):
        nonlocal nfails, nmism, nlaybad, lay_pairs
        st = d["st"]
        stats["cases"] += st["cases"]
        stats["tokens"] += st["tokens"]
        stats["comments"] += st["comments"]
        stats["max_tokens"] = max(stats["max_tokens"], st["max_tokens"])
        nfails += st.get("fails", 0)
        nmism += st.get("mism", 0)
        nlaybad += st["lay_bad"]
        lay_pairs += st["lay_pairs"]
        distinct.update(d["distinct"])
        if len(fails_all) < 40:
            fails_all.extend(d["fails"])
        if len(mism_all) < 10:
            mism_all.extend(d["mism"])
        if len(lay_bad) < 4:
            lay_bad.extend(d["lay"])
        for k, v in d.get("hist", {}).items():
            hist[k] = hist.get(k, 0) + v
        for c in d["kc"]:
            if len(kcases) < kmax:
                kcases.append((enc.nums(c[0]), enc.nums(c[1])))
        if len(samples) < 3 and d["sample"]:
            samples.append(d["sample"])

    absorb(digest_cases(first, dump, judge, ctx.seed))
    with ProcessPoolExecutor(common.JOBS) as ex:
        for d in ex.map(work_chunk, jobs):
            absorb(d)
    ctx.cov["gen_eval_wall_s"] = round(time.time() - t_gen, 1)
    # ---- oracle violations (implementation alone) ----
    reported = 0
    for c, v in sorted(fails_all, key=lambda cv: len(cv[0]["text"]))[:2]:
        base = c["slots"]
        if c["newline"] == "\r\n":      # stored slots are the effective ones; make_case adds the CR again
            base = [[x[:-1] for x in g] for g in base]
        prog, slots = shrink(c["prog"], base, dump, c["style"], c["newline"])
        m = make_case(prog, slots, c["style"], c["newline"], 7)
        mv = evaluate([m], dump, None)[0]
        if mv["tokens_ok"] and mv["tree_ok"]:
            m = make_case(c["prog"], base, c["style"], c["newline"], 7)
            m["text"] = c["text"]
            cps = " ".join(str(ord(ch)) for ch in c["text"])
            m["lex_cmd"], m["parse_cmd"] = "1 " + cps, "7 " + cps
            mv = evaluate([m], dump, None)[0]
        r = describe(m, mv)
        r["original_text"] = c["text"]
        ctx.violation(r)
        reported += 1
    for a, b, ta, tb in lay_bad[:1]:
        if reported:
            break
        ctx.violation(dict(kind="oracle", property="C04", what="two layouts of the same abstract program (same tokens, same comments) give different trees",
                           text=a["text"], text2=b["text"], prog=a["prog"], slots=a["slots"], real_tree=ta, real_tree2=tb))
        reported += 1
    # ---- correspondence ----
    kfail = []
    if judge and kcases:
        kfail = common.kernel_judge("C04", kcases)
    if not reported:
        if nmism or kfail:
            if mism_all:
                c, v = mism_all[0]
                rep = dict(kind="correspondence", property="C04", what="the extracted judge's `flatten p ++ expected p` differs from the real tokens/tree "
                           "although the python re-computation agrees with the implementation", judge_cmd=c["judge_cmd"], judge=v["judge"],
                           real_tree=v["real_tree"], text=c["text"], mismatches=nmism)
            else:
                rep = dict(kind="correspondence", property="C04", what="kernel judge (coqc vm_compute) disagrees with the extracted judge",
                           judge_cmd=" ".join(map(str, kcases[kfail[0]][0])))
            ctx.violation(rep, no_input=True)
        elif judge is None or not proved:
            ctx.violation(dict(kind="proof", property="C04", detail=getattr(ctx, "proof_failure", (jlog or "")[-2000:])), no_input=True)
    ctx.cov.update({
        "evaluations": stats["cases"],
        "programs": nprog + len(set(c["pid"] for c in fam)) + ncorpus // 3,
        "distinct_nontrivial": len(distinct),
        "rule": "abstract programs (grammargen.Gen: every construct of the grammar, syntactically valid, not necessarily well-typed; depth <= 6, "
                "<= 60 statements; deep left-associative chains, nested unary minus, parenthesised comparisons inside arithmetic, nested array "
                "accesses and array types, dangling-else shapes, else-if chains, empty blocks/bodies/programs, 0-4 parameters) x comment slots "
                "(probability 0 / 0.05 / 0.1 / 0.3 / 1 per token gap, 1-3 comment lines each) x 3 layouts (dense LF, sparse LF, sparse-or-lines "
                "LF/CRLF), plus small programs with one comment in every gap in turn, plus corpus/C04.  Each case: real lexer+parser on the "
                "rendered text vs python re-computation of the mandated tree (oracle) vs extracted Coq judge (flatten, expected). "
                "non-trivial = distinct (abstract program, slots) with >= 12 tokens",
        "input_histogram": dict(sorted(hist.items())),
        "tokens_total": stats["tokens"], "tokens_max": stats["max_tokens"], "comment_tokens_total": stats["comments"],
        "gap_family_cases": len(fam), "corpus_cases": ncorpus,
        "layout_pairs_compared": lay_pairs, "layout_pair_differences": nlaybad,
        "oracle_failures": nfails,
        "traces_validated_against_impl": stats["cases"] if judge else 0,
        "kernel_judge_cases": len(kcases),
        "correspondence_mismatches": nmism + len(kfail),
        "samples": samples,
        "judge_encoding": "see the header of coq/theories/Judge/RunGrammar.v",
    })
    if FULL_PROOF:
        ctx.level = "proof"
        ctx.cov["explanation"] = (
            "Props/C04.v: C04_roundtrip is proved for ALL abstract programs of Spec/Grammar.v (comment slots everywhere) over the Coq model of "
            "the parser: map tk toks = flatten p ++ [Eof] /\\ prog_ok p -> parse toks = Done (expected p); corollaries no_syntax_diag, "
            "ranges_exact, layout_independent.  The model is tied to /repo by this correspondence run (and by the judge command 7 runs of "
            "the other parser properties); the lexer half of layout independence (white space never reaches the parser) is C06's.")
    else:
        ctx.level = "other"
        ctx.cov["explanation"] = PARTIAL_EXPLANATION
    ctx.assumptions = [
        "token kinds of a rendering are those of the derivation: validated on every case against the real lexer (and proved about the lexer model under C06), not part of C04's theorem",
        "literals are lexically valid (value < 2^32); identifiers are arbitrary texts at the level of token kinds",
        "the hand-written model Model/Parser.v is the parser of /repo: validated by correspondence (this run: real tree = expected p = what the theorem says the model returns)",
    ]
    if ctx.thorough() and proved:
        if not common.coqchk(ctx):
            ctx.violation(dict(kind="proof", property="C04", detail="coqchk failed or reports axioms", out=ctx.cov.get("coqchk")), no_input=True)


PARTIAL_EXPLANATION = "see work/C04_notes.md"


def replay(ctx, path):
    r = json.load(open(path))
    if "text" not in r or "prog" not in r:
        print(json.dumps(r, indent=1)[:4000])
        return 1
    hdir, _ = common.build_harness()
    dump = os.path.join(hdir, "dump")
    prog = param_fix(totuple(r["prog"]))
    c = make_case(prog, r["slots"], r.get("style", "sparse"), r.get("newline", "\n"), 7)
    c["text"] = r["text"]
    cps = " ".join(str(ord(ch)) for ch in r["text"])
    c["lex_cmd"], c["parse_cmd"] = "1 " + cps, "7 " + cps
    if r.get("newline") == "\r\n":
        # slots in the replay file are already the effective ones
        c["kinds"], c["tree"] = gg.kinds(prog, r["slots"]), gg.expect(prog, r["slots"])
    v = evaluate([c], dump, None)[0]
    print("text:", repr(r["text"]))
    print("tokens are the derivation's:", v["tokens_ok"])
    print("tree is the mandated one:  ", v["tree_ok"])
    if not v["tree_ok"]:
        print("expected:", " ".join(map(str, [0] + c["tree"])))
        print("real:    ", " ".join(map(str, v["real_tree"])))
    return 0 if v["tokens_ok"] and v["tree_ok"] else 1
