"""C14 - hover and signature help tell the truth about declarations."""
import collections
import json
import os
import time

import common
import enc
import hoverlib as H
import splgen

KIND_NAME = {0: "hover", 1: "signatureHelp"}


# --------------------------------------------------------------------------------------------
# generation

def gen_case(rng):
    prog, _ = splgen.well_typed_program(rng, ndecls=rng.choice([1, 2, 2, 3, 3, 4, 5, 6]))
    family = "random"
    if rng.random() < 0.45:
        # up to three locals renamed to the name of a global entity (each step keeps the program well-typed)
        for _ in range(rng.choice([1, 2, 3])):
            p2 = H.shadow_global(prog, rng)
            if p2 is not None:
                prog, family = p2, "local-named-like-a-global"
    return H.Case(prog, rng, newline=rng.choice(["\n", "\n", "\r\n"]), dense=rng.random() < 0.06,
                  p_comment=rng.choice([0.0, 0.05, 0.05, 0.15]), p_doc=rng.choice([0.2, 0.5, 0.9]),
                  p_hot=rng.choice([0.0, 0.3, 0.6]), family=family)


def plan(case, rng):
    """[(kind, line, col, label)] - every identifier column, one position per other token / comment, gaps, line ends,
    positions outside the text; every position inside every argument list, the rest of every call statement, and a
    sample elsewhere"""
    geo, spans = case.geo, case.spans
    out = []

    def add(kind, off, label):
        if geo.addressable[off]:
            l, c = geo.pos[off]
            out.append((kind, l, c, label))

    for o in case.occs:
        s, e = spans[o["tok"]]
        for off in range(s, e):
            add(0, off, "ident")
        if rng.random() < 0.3:
            add(0, e, "ident-end")
    for ti, (s, e) in enumerate(spans):
        if ti not in case.occ_by_tok and rng.random() < 0.35:
            add(0, rng.randrange(s, e), "token")
    for cs in case.gap_comments:
        for _, s, e in cs:
            if rng.random() < 0.4:
                add(0, rng.randrange(s, e), "comment")
            if rng.random() < 0.4:
                add(1, rng.randrange(s, e), "comment")
    gaps = [k for k in range(len(case.text) + 1) if case.tok_at[k] == -1 and geo.addressable[k]]
    for off in rng.sample(gaps, min(len(gaps), 12)):
        add(0, off, "gap")
    for ln in rng.sample(range(geo.nlines), min(geo.nlines, 6)):
        w = geo.pos[geo.line_end[ln]][1]
        for k in (0, 1):
            out.append((k, ln, w, "line-end"))
            out.append((k, ln, w + rng.randrange(1, 9), "overshoot-column"))
    for k in (0, 1):
        out.append((k, geo.nlines + rng.randrange(0, 3), rng.randrange(0, 5), "overshoot-line"))
    for di, c, path in case.calls:
        lo, hi = spans[c["lparen"]][1], spans[c["rparen"]][0]
        if hi - lo <= 50:
            inside = range(lo, hi + 1)
        else:
            # long argument lists: both ends of every token and comment inside, plus a sample of the rest
            keep = {lo, hi}
            for ti in range(c["lparen"] + 1, c["rparen"]):
                keep.update(spans[ti])
            for g in range(c["lparen"] + 1, c["rparen"] + 1):
                for _, s, e in case.gap_comments[g]:
                    keep.update((s, s + 1, e))
            for k in c["commas"]:
                keep.update((spans[k][0] - 1, spans[k][1] + 1))
            keep.update(rng.sample(range(lo, hi + 1), 15))
            inside = sorted(k for k in keep if lo <= k <= hi)
        for off in inside:
            add(1, off, "arglist")
        s, e = spans[c["name_tok"]]
        for off in range(s, e + 1):
            add(1, off, "callee-name")
        for off in range(spans[c["rparen"]][1], spans[c["semic"]][1] + 1):
            add(1, off, "after-rparen")
        add(1, spans[c["name_tok"] - 1][1], "before-call")
    anyoff = [k for k in range(len(case.text) + 1) if geo.addressable[k]]
    for off in rng.sample(anyoff, min(len(anyoff), 15)):
        add(1, off, "anywhere")
    # the model costs ~ (characters of the document) x (positions): thin out the interior columns of identifiers and
    # argument lists of very long documents (first column of every identifier and every other class are kept)
    budget = 5_000_000
    if len(case.text) * len(out) > budget:
        first = set()
        for o in case.occs:
            first.add(geo.pos[spans[o["tok"]][0]])
        fixed = [p for p in out if p[3] not in ("ident", "arglist") or (p[3] == "ident" and (p[1], p[2]) in first)]
        rest = [p for p in out if not (p[3] not in ("ident", "arglist") or (p[3] == "ident" and (p[1], p[2]) in first))]
        room = max(0, budget // max(1, len(case.text)) - len(fixed))
        out = fixed + rng.sample(rest, min(len(rest), room))
    return out


# --------------------------------------------------------------------------------------------
# oracle (implementation only)

def shadowed_global(case, o):
    """the occurrence is bound to a GLOBAL entity (procedure / type name) while the enclosing procedure declares a local
    of the same spelling - the class of the repaired defect C14-hover-local-before-global (b909979); counted in the
    evidence, and a failure here is an ordinary VIOLATION"""
    if o is not None and o["kind"] in ("proc", "type") and o["decl"] is not None:
        inf = case.infos[o["decl"]]
        return inf["kind"] == "proc" and o["name"] in inf["locals"]
    return False


def known_class(case, cls, o):
    """id of the known-finding class an oracle failure belongs to, or None (no class is pending at present)"""
    return None


def oracle(case, req, result):
    """-> (class label, error or None, occurrence or None)"""
    kind, line, col = req[:3]
    off = case.geo.offset(line, col)
    if kind == 0:
        ti = case.tok_at[off] if off < len(case.text) else -1
        o = case.occ_by_tok.get(ti) if ti >= 0 else None
        if o is None or o["kind"] is None:
            return ("hover-none", None if result is None else "hover %s where no identifier is under the cursor"
                    % H.dumps(result)[:200], None)
        return ("hover", H.hover_oracle(case, o, result), o)
    z = case.call_zone(off)
    if z[0] == "A":
        _, c, ncommas, path = z
        return ("sighelp", H.sighelp_oracle(case, c, case.occ_by_tok[c["name_tok"]], ncommas, result), None)
    if z[0] == "B":
        if result is None:
            return ("sighelp-call-extent-null", None, None)
        # inside the call statement but not between the parentheses: the property does not say; when an answer is
        # given it must at least be the callee's signature
        try:
            label = result["signatures"][0]["label"]
        except (KeyError, TypeError, IndexError):
            return ("sighelp-call-extent-help", "unexpected shape", None)
        sigs = [H.expected_signature(case, case.occ_by_tok[c["name_tok"]]) for c in z[1]]
        err = None
        if not any((label if names else H.blank_param_names(label)) == sig for sig, names in sigs):
            err = "label %r, callee signature %r" % (label, [x[0] for x in sigs])
        return ("sighelp-call-extent-help", err, None)
    return ("sighelp-none", None if result is None else "signature help %s outside every call statement"
            % H.dumps(result)[:200], None)


# --------------------------------------------------------------------------------------------

def load_corpus():
    out = []
    cdir = os.path.join(common.VERIF, "corpus", "C14")
    if os.path.isdir(cdir):
        for f in sorted(os.listdir(cdir)):
            if f.endswith(".json"):
                c = json.load(open(os.path.join(cdir, f)))
                c["file"] = f
                out.append(c)
    return out


def observe(exe, docs):
    return H.run_parallel(exe, docs, workers=6, chunk=6, tag="c14")


def encode(req, res):
    return H.nums_str(H.enc_hover_json(res) if req[0] == 0 else H.enc_sighelp_json(res))


# ---- optional request members: what the client adds to a request does not change the declared signature ----
def _stale_help(a, rng):
    """the previous answer as a client may hold it after the declaration was edited: same callee, same number of parameters,
    but other types / modes / documentation"""
    import copy
    b = copy.deepcopy(a)
    for s in b.get("signatures", []):
        lab = s.get("label", "")
        s["label"] = lab.replace("int", "stale_t").replace("ref ", "") if rng.random() < 0.5 else lab.replace("(", "(ref zz: int, ", 1).replace(", )", ")")
        for p in s.get("parameters", []) or []:
            if isinstance(p.get("label"), str):
                p["label"] = "ref " + p["label"].replace("int", "stale_t")
        s["documentation"] = {"kind": "markdown", "value": "stale documentation"}
    if isinstance(b.get("activeParameter"), int):
        b["activeParameter"] = b["activeParameter"] + 1
    return b


def context_stage(ctx, exe, docs, res):
    """re-asks answered signature-help (and hover) requests with the optional members of the LSP request types filled in"""
    import lspclient
    import queue
    rng = ctx.rng
    picks = []
    for (text, reqs), answers in zip(docs, res):
        hits = [(r, a) for r, a in zip(reqs, answers) if isinstance(a, dict) and ("signatures" in a or "contents" in a)]
        if hits:
            picks.append((text, rng.sample(hits, min(len(hits), 6))))
    rng.shuffle(picks)
    picks = picks[:(120 if ctx.thorough() else 30)]
    bad, asked = [], 0
    s = lspclient.Server(exe)
    try:
        s.initialize(diagnostics=False)
        for k, (text, hits) in enumerate(picks):
            uri = "file:///ctx_%d.spl" % k
            s.open(uri, text)
            for (kind, l, col), a in hits:
                params = {"textDocument": {"uri": uri}, "position": {"line": l, "character": col}, "workDoneToken": "wd-%d" % asked}
                if kind == 1:
                    variant = rng.choice(["retrigger-stale", "retrigger-same", "invoked", "trigger-char"])
                    params["context"] = {"retrigger-stale": {"triggerKind": 3, "isRetrigger": True, "activeSignatureHelp": _stale_help(a, rng)},
                                         "retrigger-same": {"triggerKind": 2, "triggerCharacter": ",", "isRetrigger": True, "activeSignatureHelp": a},
                                         "invoked": {"triggerKind": 1, "isRetrigger": False},
                                         "trigger-char": {"triggerKind": 2, "triggerCharacter": "(", "isRetrigger": False}}[variant]
                else:
                    variant = "workDoneToken"
                asked += 1
                try:
                    r = s.request(H.METHOD[kind], params, timeout=20.0)
                except queue.Empty:
                    r = None
                got = r.get("result") if isinstance(r, dict) and "result" in r else {"<no result>": r}
                if H.dumps(got) != H.dumps(a):
                    bad.append(dict(kind="optional-members", property="C14", text=text, method=H.METHOD[kind], position=[l, col], variant=variant,
                                    params=params, answer_to_the_plain_request=a, answer=got,
                                    what="the same request with the optional members of its LSP type filled in (%s) is answered differently" % variant))
                    break
            s.close(uri)
            if s.p.poll() is not None:
                break
    finally:
        s.kill()
    return bad, dict(documents=len(picks), requests=asked, deviations=len(bad))


def run(ctx):
    rng = ctx.rng
    timings = {}
    t_last = [time.time()]

    def lap(name):
        timings[name] = round(time.time() - t_last[0], 1)
        t_last[0] = time.time()

    proved = common.proof_stage(ctx)
    lap('proof_stage')
    exe, log = common.build_server()
    if exe is None:
        ctx.violation(dict(kind="build-failure", what="lsp4spl does not build", log=log[-3000:]), no_input=True)
        return
    judge, jlog = common.build_judge()
    lap('builds')
    known = {e["id"]: e for e in common.load_known_findings("C14")}
    violations = 0

    # ---- corpus: witnesses with the answers the property demands
    corpus = load_corpus()
    cdocs = [(c["text"], [tuple(r) for r in c["requests"]]) for c in corpus]
    cres = observe(exe, cdocs) if cdocs else []
    cenc = H.judge_batch(judge, cdocs) if (judge and cdocs) else []
    corpus_fail = 0
    for ci, c in enumerate(corpus):
        for ri, req in enumerate(cdocs[ci][1]):
            got = cres[ci][ri]
            if "expect" in c and H.dumps(got) != H.dumps(c["expect"][ri]):
                kid = c.get("known")
                if kid in known:
                    ctx.known("%s: %s" % (kid, c.get("what", c["file"])))
                else:
                    corpus_fail += 1
                    if violations < 3:
                        violations += 1
                        ctx.violation(dict(kind="oracle", property="C14", corpus=c["file"], text=c["text"], request=list(req),
                                           observed=got, expected=c["expect"][ri], what=c.get("what", "")))
            if judge and encode(req, got) != cenc[ci][ri]:
                corpus_fail += 1
                if corpus_fail > 3:
                    continue
                ctx.violation(dict(kind="correspondence", property="C14", corpus=c["file"], text=c["text"], request=list(req),
                                   server=encode(req, got), model=cenc[ci][ri]), no_input=True)

    # ---- well-typed programs
    ncases = 600 if ctx.thorough() else 90
    cases = [gen_case(rng) for _ in range(ncases)]
    plans = [plan(c, rng) for c in cases]
    docs = [(c.text, [p[:3] for p in pl]) for c, pl in zip(cases, plans)]
    lap('generate')
    res = observe(exe, docs)
    lap('server_valid')
    cbad, ctx_cov = context_stage(ctx, exe, docs, res)
    for v in sorted(cbad, key=lambda v: len(v["text"]))[:2]:
        violations += 1
        ctx.violation(v)
    ctx.cov["optional_request_members"] = ctx_cov
    encs = H.judge_batch(judge, docs) if judge else None
    pre_false = [("valid", i) for i, x in enumerate(H.judge_batch.last_pre) if x == 0] if judge else []
    lap('judge_valid')

    hist = collections.Counter()
    labels = collections.Counter()
    oracle_fail, corr_fail, known_hits = [], [], collections.Counter()
    nontrivial = set()
    paths = collections.Counter()
    for ci, (case, pl) in enumerate(zip(cases, plans)):
        hist["family:" + case.family] += 1
        hist["newline:" + ("crlf" if case.newline == "\r\n" else "lf")] += 1
        hist["decls:%d" % len(case.prog)] += 1
        hist["doc-comments"] += sum(1 for g in case.doc_gaps if case.gap_comments[g])
        hist["comments-in-arglists"] += sum(1 for _, c, _ in case.calls for g in range(c["lparen"] + 1, c["rparen"] + 1)
                                            if case.gap_comments[g])
        for _, c, path in case.calls:
            paths["/".join(path) or "top"] += 1
        for ri, p in enumerate(pl):
            req, label = p[:3], p[3]
            got = res[ci][ri]
            labels[KIND_NAME[req[0]] + ":" + label] += 1
            if got == H.MUTE or isinstance(got, dict) and "<error>" in got:
                oracle_fail.append((ci, ri, "crash", "no response (server mute)" if got == H.MUTE else "error response %r" % got, None))
                continue
            cls, err, o = oracle(case, req, got)
            hist["oracle:" + cls] += 1
            if cls in ("hover", "sighelp"):
                nontrivial.add((ci, req))
            if cls == "hover" and shadowed_global(case, o):
                hist["hover:global-entity-with-homonymous-local"] += 1
            if err is not None:
                kid = known_class(case, cls, o)
                if kid in known:
                    known_hits[kid] += 1
                else:
                    oracle_fail.append((ci, ri, cls, err, o))
            if encs is not None and encode(req, got) != encs[ci][ri]:
                corr_fail.append((ci, ri))

    for kid, n in sorted(known_hits.items()):
        ctx.known("%s: %s (%d positions in this run)" % (kid, known[kid].get("line", known[kid]["site"]), n))

    def replay_of(ci, ri, what, extra):
        case, p = cases[ci], plans[ci][ri]
        d = dict(kind="oracle", property="C14", text=case.text, request=[p[0], p[1], p[2]], method=KIND_NAME[p[0]],
                 position_class=p[3], family=case.family, observed=res[ci][ri], what=what)
        d.update(extra)
        return d

    oracle_fail.sort(key=lambda f: len(cases[f[0]].text))
    seen_cls = set()
    for ci, ri, cls, err, o in oracle_fail:
        if (cls, err[:16]) in seen_cls or violations >= 4:
            continue
        case, p = cases[ci], plans[ci][ri]
        if cls == "crash" and not H.confirm_mute(exe, case.text, p[:3]):
            hist["unconfirmed-mute"] += 1
            continue
        seen_cls.add((cls, err[:16]))
        violations += 1
        extra = {}
        if o is not None:
            extra["expected_signature"] = H.expected_signature(case, o)[0]
            extra["expected_docs"] = case.docs_of(o)
            extra["identifier_range"] = case.tok_range(o["tok"])
        ctx.violation(replay_of(ci, ri, err, extra))

    # ---- malformed stream: correspondence only (answer or panic predicted by the model)
    nmal = 2500 if ctx.thorough() else 350
    mdocs, mkinds = [], collections.Counter()
    for _ in range(nmal):
        kind, text = splgen.any_document(rng)
        if kind == "valid":
            kind, text = "damaged", splgen.render(splgen.damage(splgen.flatten(splgen.well_typed_program(rng, ndecls=2)[0]), rng, k=2), rng)
        mkinds[kind] += 1
        geo = H.Geometry(text)
        pos = geo.positions()
        reqs = []
        for _ in range(10):
            l, c, _ = rng.choice(pos)
            if rng.random() < 0.1:
                c += rng.randrange(1, 6)
            if rng.random() < 0.04:
                l += geo.nlines
            reqs.append((rng.randrange(2), l, c))
        mdocs.append((text, reqs))
    lap('oracle')
    mres = observe(exe, mdocs)
    lap('server_malformed')
    mencs = H.judge_batch(judge, mdocs) if judge else None
    pre_false += [("malformed", i) for i, x in enumerate(H.judge_batch.last_pre) if x == 0] if judge else []
    lap('judge_malformed')
    mal_fail, crashes = [], []
    for di, (text, reqs) in enumerate(mdocs):
        for ri, req in enumerate(reqs):
            got = mres[di][ri]
            if got == H.MUTE:
                crashes.append((di, ri))
            if mencs is not None and encode(req, got) != mencs[di][ri]:
                mal_fail.append((di, ri))
            hist["malformed:" + ("answer" if got not in (None, H.MUTE) else "null" if got is None else "mute")] += 1
    crashes.sort(key=lambda f: len(mdocs[f[0]][0]))
    for di, ri in crashes[:2]:
        if H.confirm_mute(exe, mdocs[di][0], mdocs[di][1][ri]) and violations < 5:
            violations += 1
            ctx.violation(dict(kind="oracle", property="C14", text=mdocs[di][0], request=list(mdocs[di][1][ri]),
                               method=KIND_NAME[mdocs[di][1][ri][0]], observed=H.MUTE,
                               what="the handler panics: no response to this and any later request (three fresh processes)"))

    # ---- kernel judge on a sample of short documents
    kfail, nk = [], 0
    if judge:
        kc = []
        for _ in range(900 if ctx.thorough() else 300):
            case = H.Case(splgen.well_typed_program(rng, ndecls=1)[0], rng, newline=rng.choice(["\n", "\r\n"]), p_doc=0.8)
            if len(case.text) > 220:
                continue
            pl = plan(case, rng)
            kc.append((case.text, [p[:3] for p in rng.sample(pl, min(3, len(pl)))]))
        for t in ["", "proc", "type a = b;", "proc main() { f(1, ", "// x\nproc p(a: int) { p(a); }", "{ } ) (", "proc é() {}"]:
            kc.append((t, [(0, 0, 2), (1, 0, 20), (1, 1, 18)]))
        kres = observe(exe, kc)
        cases_k = []
        for (text, reqs), rs in zip(kc, kres):
            for req, got in zip(reqs, rs):
                cmd = [40 + req[0], req[1], req[2]] + [ord(ch) for ch in text]
                cases_k.append((cmd, enc.nums(encode(req, got))))
        nk = len(cases_k)
        kfail = common.kernel_judge("C14", cases_k)
    lap('kernel_judge')

    # the hypothesis of the proved robustness theorem (C14_hover_total) must hold on what the pipeline produces
    if pre_false and not violations:
        where, i = pre_false[0]
        violations += 1
        ctx.violation(dict(kind="correspondence", property="C14", text=cases[i].text if where == "valid" else mdocs[i][0],
                           what="the model's document for this text violates cursor_pre (the declarations' token ranges lie inside the "
                                "token vector): the hypothesis of C14_hover_total does not cover it", count=len(pre_false)), no_input=True)
    if not violations:
        if corr_fail or mal_fail or kfail:
            if corr_fail:
                ci, ri = min(corr_fail, key=lambda f: len(cases[f[0]].text))
                text, req, got, model = cases[ci].text, plans[ci][ri][:3], res[ci][ri], encs[ci][ri]
            elif mal_fail:
                di, ri = min(mal_fail, key=lambda f: len(mdocs[f[0]][0]))
                text, req, got, model = mdocs[di][0], mdocs[di][1][ri], mres[di][ri], mencs[di][ri]
            else:
                cmd, exp = cases_k[kfail[0]]
                text, req, got, model = "".join(map(chr, cmd[3:])), (cmd[0] - 40, cmd[1], cmd[2]), exp, "kernel judge (vm_compute) disagrees"
            ctx.violation(dict(kind="correspondence", property="C14", what="model (Model/Hover.v, Model/SigHelp.v) and server differ",
                               text=text, request=list(req), method=KIND_NAME[req[0]], server=got if not isinstance(got, list) else H.nums_str(got),
                               server_encoded=encode(req, got) if not isinstance(got, list) else None, model=model,
                               mismatches=len(corr_fail) + len(mal_fail) + len(kfail)), no_input=True)
        elif judge is None or not proved:
            ctx.violation(dict(kind="proof", property="C14", detail=getattr(ctx, "proof_failure", (jlog or "")[-2000:])), no_input=True)

    nreq = sum(len(p) for p in plans)
    nmreq = sum(len(r) for _, r in mdocs)
    ctx.level = "proof" if proved else "other"
    ctx.cov.update({
        "evaluations": nreq + nmreq + nk + sum(len(r) for _, r in cdocs),
        "distinct_nontrivial": len(nontrivial),
        "rule": "well-typed programs (splgen) in random layouts (doc comments in front of declarations / parameters / variable "
                "declarations, comments inside argument lists, CRLF, dense): hover at every column of every identifier occurrence, one "
                "position per sampled other token and comment, gaps, line ends, overshooting columns and lines; signatureHelp at every position of "
                "every argument list up to 50 characters (longer ones: both ends of every token and comment inside, around every comma, 15 "
                "random positions), on the rest of every call statement (callee name, after `)`, in front of the statement: answer "
                "optional there, but if given it must be the callee's) and at random positions (outside every call statement: null). Expected answers from splscope "
                "(bindings, resolved types) and the rendered layout (ranges, doc comments). non-trivial = distinct (document, position) "
                "on a bound identifier (hover) or strictly inside an argument list (signatureHelp). Malformed stream: damaged programs, "
                "token soup, random unicode at random positions - model must predict the answer or the panic.",
        "programs": ncases, "malformed_documents": nmal, "corpus_cases": len(corpus),
        "input_histogram": dict(hist), "position_classes": dict(labels), "call_nesting": dict(paths),
        "malformed_kinds": dict(mkinds),
        "traces_validated_against_impl": (nreq + nmreq + sum(len(r) for _, r in cdocs)) if judge else 0,
        "kernel_judge_cases": nk,
        "correspondence_mismatches": len(corr_fail) + len(mal_fail) + len(kfail) + corpus_fail,
        "cursor_pre_false": len(pre_false),
        "oracle_failures": len(oracle_fail), "known_finding_positions": dict(known_hits),
        "samples": [dict(text=cases[i].text[:400], request=list(plans[i][j][:3]), cls=plans[i][j][3], answer=res[i][j])
                    for i, j in [(k, rng.randrange(len(plans[k]))) for k in rng.sample(range(ncases), 3)]],
        "timings_s": timings,
        "explanation": EXPLANATION,
    })
    ctx.assumptions = ["positions never point between the halves of a surrogate pair", "serde/lsp-types JSON mapping trusted",
                       "signature help: the full functional statement (C14_sighelp_full_statement) is validated by correspondence + "
                       "oracle, not proved",
                       "hover: proved for layouts of well-typed abstract programs (C14_hover_valid); that every document without "
                       "diagnostics is such a layout (completeness of the front end) is not proved"]
    if ctx.thorough() and proved:
        if not common.coqchk(ctx):
            ctx.violation(dict(kind="proof", property="C14", detail="coqchk failed or reports axioms", out=ctx.cov.get("coqchk")), no_input=True)


EXPLANATION = (
    "PROVED (Props/C14.v, all closed). Hover, for every VALID program in every layout (C14_hover_valid, C14_hover_valid_text): for "
    "every abstract program of the grammar whose mandated tree is well-typed under the declarative static semantics (Spec/Typing.v), "
    "every text that lexes to its tokens (any white space, comments in any gap, any literal spelling), every identifier occurrence of "
    "the tree and every cursor position inside the identifier token, hover answers with the Display of the table entry the occurrence "
    "is bound to under SPL scoping (declaration names, names in type expressions and callees globally, everything else in the "
    "procedure first) followed by the entry's documentation block, over exactly the identifier's range; proof = C04 round trip + C03 "
    "build/analyze soundness + grammar inductions locating every occurrence and the token in front of it + find_decl on tiling tokens. "
    "For ALL documents (valid or not): hover answers only on an identifier token under the cursor, over exactly that token's range, "
    "with the Display of the entry hover_entry finds (which table: C14_hover_entry; what is_global_position computes: "
    "C14_global_position); no identifier / no context / no entry => no answer; no panic under cursor_pre (evaluated by the judge on "
    "every document of this run: 0 exceptions); signature help answers only with a procedure entry of the global table named like a "
    "call statement whose text range contains the cursor, one parameter label per parameter, active parameter = number of commas of "
    "the statement that start before the cursor (None iff no parameters). Signature help, for every VALID program in every layout "
    "(C14_sighelp_valid, C14_sighelp_valid_arg, C14_sighelp_valid_full, C14_sighelp_valid_none, C14_sighelp_valid_text): at every call "
    "statement of the tree, at any nesting depth, and every cursor index from behind `(` to `)`, the answer is the signature of THE "
    "procedure entry of the callee with one label per declared parameter and the active parameter = the number of commas of that call "
    "in front of the cursor = the index of the argument the cursor stands in; no call statement around the cursor => no answer. (The "
    "model - like the code - also answers on the callee name, the comments in front of the call and on `)` `;`: more than the property "
    "asks for, not a violation.) NOT proved: the statements in their formulation over 'documents without diagnostics' "
    "(needs completeness of the front end); that the entry's recorded signature/doc comments are those of the declaration is the "
    "wf_gdecl relation of Spec/Typing.v (doc comments: concatenation of the comment texts). These, the model's faithfulness to the "
    "Rust code are validated by (a) correspondence of the model with the running server on every "
    "request of this run (extracted judge, plus a kernel vm_compute sample) and (b) the implementation-only oracle from splscope's "
    "bindings and the rendered layout. The former defect C14-hover-local-before-global (hover resolved the procedure's own name and "
    "type names in the local table first) is repaired in /repo b909979; its witnesses are regression corpus and the class is "
    "counted in input_histogram['hover:global-entity-with-homonymous-local'].")


def replay(ctx, path):
    r = json.load(open(path))
    if r.get("kind") == "optional-members":
        import lspclient
        exe, _ = common.build_server()
        s = lspclient.Server(exe)
        try:
            s.initialize(diagnostics=False)
            uri = r["params"]["textDocument"]["uri"]
            s.open(uri, r["text"])
            plain = {"textDocument": {"uri": uri}, "position": r["params"]["position"]}
            a = s.request(r["method"], plain, timeout=20.0)
            b = s.request(r["method"], r["params"], timeout=20.0)
        finally:
            s.kill()
        print("plain:", H.dumps((a or {}).get("result")))
        print("with optional members:", H.dumps((b or {}).get("result")))
        return 0 if a and b and H.dumps(a.get("result")) == H.dumps(b.get("result")) else 1
    if "text" not in r or "request" not in r:
        print(json.dumps(r, indent=1)[:3000])
        return 1
    exe, _ = common.build_server()
    req = tuple(r["request"])
    got = H.run_session(exe, [(r["text"], [req])], tag="replay")[0][0]
    print("request :", KIND_NAME.get(req[0]), req[1:])
    print("observed:", H.dumps(got))
    if "expected" in r:
        print("expected:", H.dumps(r["expected"]))
        return 0 if H.dumps(got) == H.dumps(r["expected"]) else 1
    print("recorded:", H.dumps(r.get("observed")), "-", r.get("what"))
    if r.get("kind") == "correspondence":
        judge, _ = common.build_judge()
        m = H.judge_batch(judge, [(r["text"], [req])])[0][0]
        print("model   :", m, " server:", encode(req, got))
        return 0 if m == encode(req, got) else 1
    return 1 if H.dumps(got) == H.dumps(r.get("observed")) else 0
