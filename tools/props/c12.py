"""C12 - go-to declaration / definition / type definition / implementation hit the right name.

Stages (DESIGN section 4): proofs (Props/C12.v) - corpus (regression witnesses of repaired defects, among them the
witnesses of the two findings repaired by /repo b909979) - correspondence of the Coq model Model/Goto.v with the
running server (judge commands 30-33) - oracle on the implementation alone (expected answers from the derivation of
the generated program, tools/splscope.py) - the instances of the Coq statement C12_full_statement itself, decided by
the extracted model on the generated programs (judge command 37)."""
import json
import time

import common
import navlib

PID = "C12"
METHODS = ["declaration", "definition", "typeDefinition", "implementation"]

# Decidable classes of known findings (known_findings.jsonl, status "known"), evaluated on the generator's derivation.
# There is none at present: the two former classes (C12-proc-name-shadowed-by-own-local, C12-type-use-shadowed-by-local)
# were repaired by /repo b909979; their witnesses are regression corpus (corpus/C12/*.json) and a recurrence is a
# VIOLATION.  REPAIRED names them only to count how often the campaign exercises them.
CLASS_DOC = {}


def classify(d, method, k, o):
    return None


def repaired_class(d, k, o):
    loc = navlib.enclosing_locals(d, o)
    if o["role"] == "proc_decl" and o["name"] in loc:
        return "proc-name-shadowed-by-own-local"
    if o["role"] == "type_use" and o["name"] in loc:
        return "type-use-shadowed-by-local"
    if o["kind"] in ("var", "param") and (o["name"] in d.scope.types or o["name"] in navlib.splgen.BUILTINS or o["name"] == "int"
                                           or any(i["kind"] == "proc" and i["name"] == o["name"] for i in d.infos)):
        return "local-named-like-a-global"
    return None


def repaired_hits(camp):
    """positions of the campaign inside the classes of the repaired findings (they are checked by the oracle like
    every other position)"""
    h = {}
    for d, pts in camp.items:
        if d.kind != "valid":
            continue
        for (l, c, k, what) in pts:
            o = d.occ_at.get(k) if k is not None else None
            if o is not None:
                cid = repaired_class(d, k, o)
                if cid:
                    h[cid] = h.get(cid, 0) + 1
    return dict(sorted(h.items()))


def run(ctx):
    proved = common.proof_stage(ctx)
    ctx.level = "proof" if proved else "other"
    exe, log = common.build_server()
    if exe is None:
        ctx.violation(dict(kind="build-failure", what="lsp4spl does not build", log=log[-3000:]), no_input=True)
        return
    judge, jlog = common.build_judge()
    known_ids = {e["id"] for e in common.load_known_findings(PID)}
    ncorpus = navlib.replay_corpus(ctx, PID, exe, judge)
    witness_state = navlib.replay_known(ctx, PID, exe, CLASS_DOC)

    camp = navlib.Campaign(ctx, exe, judge, METHODS, "c12")
    thorough = ctx.thorough()
    valid = navlib.gen_valid_docs(ctx.rng, 3.5e8 if thorough else 4.5e7)
    malformed = navlib.gen_malformed_docs(ctx.rng, 5000 if thorough else 1000, 10)
    short = navlib.gen_short_docs(ctx.rng, 120 if thorough else 40)
    t0 = time.time()
    camp.run(valid + malformed + short, workers=8)
    t_run = time.time() - t0
    nshort0 = len(valid) + len(malformed)

    # ---- oracle on the implementation alone
    fails, known, checked, nontrivial, skipped = navlib.oracle(camp, lambda d, m, k, o: (lambda c: c if c in known_ids else None)(classify(d, m, k, o)))
    for cid in sorted(known):
        ctx.known("%s: %s" % (cid, CLASS_DOC[cid]))
    reported = navlib.report_oracle(ctx, PID, camp, fails, "textDocument/%s differs from the binding of the occurrence under SPL scoping")

    # ---- the Coq statement itself on the generated programs
    t0 = time.time()
    full_stats, full_kernel = ({}, [])
    if judge and not camp.model_errors:
        nv = len(ctx.violations)
        full_stats, full_kernel = navlib.full_statement_instances(
            ctx, PID, judge, camp, 1, "an instance of C12_full_statement (Spec/Nav.v) is false on the model: a go-to handler differs "
            "from spec_declaration / spec_type_definition / spec_implementation at this occurrence")
        reported += len(ctx.violations) - nv
    t_full = time.time() - t0

    # ---- correspondence
    kfail, nk = [], 0
    t0 = time.time()
    if judge and not camp.model_errors:
        cases = camp.kernel_cases(range(nshort0, len(camp.items))) + full_kernel
        nk = len(cases)
        try:
            kfail = common.kernel_judge(PID, cases)
        except RuntimeError as ex:
            camp.model_errors.append("kernel judge: %s" % ex)
    t_k = time.time() - t0
    if not reported:
        if camp.mismatches or kfail or camp.model_errors:
            if camp.mismatches:
                i, m, pi, a, b = camp.mismatches[0]
                d, pts = camp.items[i]
                rep = dict(kind="correspondence", property=PID, text=d.text, method=m, line=pts[pi][0], col=pts[pi][1], server=a, model=b,
                           mismatches=len(camp.mismatches), what="Model/Goto.v and the server differ (document kind %s)" % d.kind)
            elif kfail:
                rep = dict(kind="correspondence", property=PID, what="the kernel judge (coqc vm_compute) disagrees with the server", case=cases[kfail[0]][0][:400])
            else:
                rep = dict(kind="correspondence", property=PID, what="the model could not be evaluated", errors=camp.model_errors[:3])
            ctx.violation(rep, no_input=True)
        elif judge is None or not proved:
            ctx.violation(dict(kind="proof", property=PID, detail=getattr(ctx, "proof_failure", jlog[-2000:])), no_input=True)

    nreq = sum(len(pts) for _, pts in camp.items) * len(METHODS)
    ctx.cov.update({
        "evaluations": nreq + ncorpus,
        "distinct_nontrivial": len(nontrivial),
        "rule": "well-typed programs of tools/splgen.py (1-5 declarations; cross-declaration targets, doc comments, comment lines in "
                "gaps, CRLF, dense layouts with several declarations per line, predefined procedures, the same names in different "
                "procedures, + locals renamed to collide with their procedure / a type / `int` / another or a predefined procedure: the "
                "classes of the findings repaired by b909979) queried with the four requests "
                "at every column of every identifier occurrence and the column after it (documents > 2600 characters: first, last and a "
                "random column), one position per other token, 25 gap positions, line ends, overshooting columns and lines; damaged "
                "programs / token soup / random unicode at 10 positions biased towards identifier characters.  non-trivial = distinct "
                "(document, request, identifier occurrence) whose expected answer is a location",
        "input_histogram": navlib.histogram(camp),
        "documents": {"valid": len(valid), "malformed": len(malformed), "short (kernel judge)": len(short), "corpus requests": ncorpus,
                      "valid documents the implementation reports diagnostics for (excluded from the oracle)": skipped},
        "oracle_checked": checked,
        "oracle_failures": len(fails),
        "known_finding_hits": {k: len(v) for k, v in sorted(known.items())},
        "known_finding_witness_still_fails": witness_state,
        "positions_in_repaired_classes": repaired_hits(camp),
        "full_statement_instances": full_stats,
        "traces_validated_against_impl": camp.compared(),
        "kernel_judge_cases": nk,
        "correspondence_mismatches": len(camp.mismatches) + len(kfail) + len(camp.model_errors),
        "confirmed_missing_responses": len(camp.crashes),
        "unconfirmed_deviations": camp.unconfirmed,
        "requests_not_observed_after_a_crash": camp.unobserved,
        "samples": [dict(text=camp.items[i][0].text[:600], position=list(camp.items[i][1][0][:2]),
                         answers={m: camp.server[i][1][m][0] for m in METHODS}) for i in ctx.rng.sample(range(len(camp.items)), 3)],
        "timing_s": {"server+model": round(t_run, 1), "kernel_judge": round(t_k, 1), "full_statement_instances": round(t_full, 1)},
        "explanation": EXPLANATION,
    })
    ctx.assumptions = [
        "`valid program` is read as `layout of a well-typed abstract program` (C12_valid); that a document without diagnostics is such a "
        "layout (front-end completeness) is not proved - the judge decides the instances of C12_full_statement in its clean_doc wording "
        "on every generated program (command 37)",
        "AnalyzedSource::new produces documents satisfying Refs.nav_wf_b (hypothesis of C12_robust for documents that are not valid "
        "programs): evaluated by the judge on every document of every run (a violation makes the model output unreadable = "
        "correspondence failure)",
        "that Model/Goto.v is goto.rs is validated by correspondence, not proved; serde/lsp-types JSON mapping trusted; positions are "
        "(line, UTF-16 column)",
    ]
    if thorough and proved:
        if not common.coqchk(ctx):
            ctx.violation(dict(kind="proof", property=PID, detail="coqchk failed or reports axioms", out=ctx.cov.get("coqchk")), no_input=True)


EXPLANATION = (
    "level proof: Props/C12.v proves the functional statement of the property about the Coq model Model/Goto.v of goto.rs (as of /repo "
    "b909979: names resolved by syntactic position - behind `proc`, `type`, `:` or `of` in the global table only, elsewhere in the "
    "enclosing procedure first). C12_valid / C12_valid_text: for EVERY abstract program of the grammar that the declarative static "
    "semantics accepts, every text that lexes to its tokens (every layout, comments in every gap), every identifier occurrence of the tree "
    "and every cursor position inside its token, declaration and definition return the name token of the declaration the occurrence is "
    "bound to under SPL scoping, implementation the same for procedures, typeDefinition the type declaration named by a type identifier "
    "or the declaration that created the array type of a variable / parameter (alias chains followed), and no location for predefined "
    "entities, `int`, anonymous array types - where occurrences, bindings and creators are computed by Spec/Nav.v from the TREE alone, "
    "not from the symbol table the handlers use. The proof composes the parser round trip (C04), the typing theorems (C03), lexical "
    "conformance (C06) and the position theorems (C08). For ALL documents (any text/tokens/tree/table): the handlers never fail under "
    "nav_wf_b (C12_robust), no identifier token under the cursor or no context => no location, predefined / int / anonymous => no "
    "location, definition = declaration, every returned range is the range of a token, implementation refines declaration, global "
    "positions ignore locals, elsewhere a local wins. NOT proved: C12_full_statement in its wording `document without diagnostics` (needs "
    "front-end completeness: no diagnostic => layout of a well-typed abstract program), and that the model is the code: both are decided "
    "per input - correspondence of the model with the running server (extracted judge on every request, coqc's VM on short documents), "
    "oracle from bindings computed from the generator's derivation, and the extracted model deciding the instances of the Coq statement "
    "at every occurrence of the generated programs (judge command 37).")


def replay(ctx, path):
    return navlib.replay_request(ctx, path)
