"""C01 - incremental re-analysis equals analysis from scratch.

  proof            Props/C01.v: text and token layers for ALL histories (from C07); the document is the fresh one
                   whenever the tree layer agrees (C01_partial); the tree layer is refuted (C01_tree_refuted,
                   C01_full_statement_refuted) -> known finding C01-incparse.
  correspondence   Model/UpdateDoc.v (AnalyzedSource::update incl. the pinned incremental parser Model/ParserInc.v)
                   against the real AnalyzedSource::update on edit histories: after every notification the WHOLE
                   document (tree with every attached diagnostic, errors(), table) must be the model's, and the real
                   update must differ from a fresh analysis exactly when the model says so.
  oracle           implementation only: update(doc) == new(text) on text / tokens / tree / table / errors().
A divergence predicted by the model of the pinned algorithm is the known finding; any other divergence - or any
divergence of the real code from the model - is a violation with the history as replay.
"""
import json
import os

import common
import editgen
import splfaults
import splgen

KNOWN_ID = "C01-incparse"


def nums(s):
    return " ".join(str(ord(x)) for x in s)


def hist_line(text, notes):
    parts = ["17", str(len(text))]
    if text:
        parts.append(nums(text))
    parts.append(str(len(notes)))
    for chs in notes:
        parts.append(str(len(chs)))
        for cs, ce, ins in chs:
            parts += [str(cs), str(ce), str(len(ins))]
            if ins:
                parts.append(nums(ins))
    return " ".join(parts)


def single_line(text, cs, ce, ins):
    return "14 %d %s %d %d %s" % (len(text), nums(text), cs, ce, nums(ins))


def gen_doc(rng):
    """(kind, text): valid / single and multi semantic faults / damaged / soup"""
    r = rng.random()
    if r < 0.3:
        prog, _ = splgen.well_typed_program(rng, ndecls=rng.randrange(1, 5))
        return "valid", splgen.render(splgen.flatten(prog), rng, newline=rng.choice(["\n", "\n", "\r\n"]))
    if r < 0.55:
        prog, _ = splgen.well_typed_program(rng, ndecls=rng.randrange(1, 5))
        try:
            x = splfaults.inject(prog, rng)
            text = splgen.render(splgen.flatten(x[0] if x else prog), rng)
        except (IndexError, KeyError, TypeError, ValueError):
            text = splgen.render(splgen.flatten(prog), rng)
        return "semantic-fault", text
    k, t = splgen.any_document(rng)
    return k, t


def gen_history(rng, maxlen=1200):
    kind, text = gen_doc(rng)
    if len(text) > maxlen:
        text = text[:maxlen]
    cur = text
    notes = []
    for _ in range(rng.choice([1, 1, 2, 3, 4, 6])):
        chs = []
        for _ in range(rng.choice([0, 1, 1, 1, 1, 2, 3])):     # 0: a didChange without content changes (legal LSP)
            cs, ce, ins = editgen.random_change(rng, cur)
            chs.append((cs, ce, ins))
            cur = editgen.apply_change(cur, cs, ce, ins)
        notes.append(chs)
    return kind, text, notes


def parse_impl(out):
    x = [int(t) for t in out.split()]
    if not x or x[0] != 0:
        return [("init", tuple(x))]
    i, res = 1, []
    while i < len(x):
        r = x[i]
        i += 1
        if r != 0:
            res.append((r,))
            break
        f = tuple(x[i:i + 5])
        ln = x[i + 5]
        res.append((0, f, tuple(x[i + 6:i + 6 + ln])))
        i += 6 + ln
    return res


def parse_model(out):
    x = [int(t) for t in out.split()]
    if not x or x[0] != 0:
        return [("init", tuple(x))]
    i, res = 1, []
    while i < len(x):
        r = x[i]
        i += 1
        if r != 0:
            res.append((r,))
            break
        d, ln = x[i], x[i + 1]
        res.append((0, d, tuple(x[i + 2:i + 2 + ln])))
        i += 2 + ln
    return res


LAYERS = ["text", "tokens", "tree", "table", "diagnostics"]


def judge_history(ni, nm):
    """returns (status, detail) with status in ok | known | violation | mismatch"""
    known = False
    for j, p in enumerate(ni):
        q = nm[j] if j < len(nm) else None
        if q is None:
            return "mismatch", "model stops at notification %d, implementation continues" % j
        if p[0] == "init" or q[0] == "init":
            if p != q:
                return "mismatch", "initial analysis: implementation %r, model %r" % (p[:2], q[:2])
            return "ok", None
        if p[0] != q[0]:
            if p[0] == 1:
                return "violation", "notification %d: AnalyzedSource::update panics; the pinned algorithm (model) does not" % j
            return "mismatch", "notification %d: implementation outcome %d, model outcome %d" % (j, p[0], q[0])
        if p[0] == 1:
            return "known", "notification %d: update panics, as the model of the pinned incremental parser predicts" % j
        if p[0] != 0:
            return "ok", None
        flags = p[1]
        if p[2] != q[2]:
            if all(flags):
                return "mismatch", "notification %d: updated document equals a fresh analysis but not the model's" % j
            bad = [LAYERS[i] for i in range(5) if not flags[i]]
            return "violation", ("notification %d: updated document differs from a fresh analysis in %s, and not in the way the "
                                 "pinned incremental algorithm (model) does" % (j, ", ".join(bad)))
        if not flags[0] or not flags[1]:
            return "violation", "notification %d: %s of the updated document differ from a fresh analysis" % (
                j, " and ".join(LAYERS[i] for i in (0, 1) if not flags[i]))
        if all(flags) != (q[1] == 0):
            return "mismatch", "notification %d: divergence flag of the model (%d) contradicts the implementation %r" % (j, q[1], flags)
        if not all(flags):
            known = True
    if len(nm) > len(ni):
        return "mismatch", "implementation stops after %d notifications, model continues" % len(ni)
    return ("known" if known else "ok"), None


def load_corpus():
    out = []
    d = os.path.join(common.VERIF, "corpus", "C01")
    if os.path.isdir(d):
        for f in sorted(os.listdir(d)):
            c = json.load(open(os.path.join(d, f)))
            out.append(("corpus:" + f, c["text"], [[tuple(ch) for ch in n] for n in c["notifications"]], c.get("expect")))
    return out


def shrink(bindir, judge, text, notes, want):
    """greedy shrinking of a failing history: drop notifications / changes from the end, then shorten the text tail"""
    def status(t, ns):
        line = hist_line(t, ns)
        a = common.run_lines(os.path.join(bindir, "dump_hist"), [line])[0]
        b = common.run_lines(judge, [line])[0]
        return judge_history(parse_impl(a), parse_model(b))[0]
    best = (text, notes)
    changed = True
    while changed:
        changed = False
        t, ns = best
        for k in range(len(ns) - 1, 0, -1):
            cand = ns[:k]
            try:
                if status(t, cand) == want:
                    best = (t, cand)
                    changed = True
                    break
            except Exception:  # noqa
                pass
    return best


def run(ctx):
    proved = common.proof_stage(ctx)
    bindir, log = common.build_harness()
    if bindir is None:
        ctx.violation(dict(kind="build-failure", what="harness/implementation does not build", log=log[-3000:]), no_input=True)
        return
    judge, jlog = common.build_judge()
    if judge is None:
        ctx.violation(dict(kind="proof", property="C01", what="the Coq development / extracted judge does not build",
                           log=jlog[-3000:]), no_input=True)
        return
    known_entries = common.load_known_findings("C01")
    known_listed = any(e.get("id") == KNOWN_ID for e in known_entries)

    # ---- histories
    hists = [(o, t, n, e) for o, t, n, e in load_corpus()]
    n = 12000 if ctx.thorough() else 1500
    for _ in range(n):
        k, t, ns = gen_history(ctx.rng)
        hists.append((k, t, ns, None))
    lines = [hist_line(t, ns) for _, t, ns, _ in hists]
    impl = common.run_lines(os.path.join(bindir, "dump_hist"), lines)
    model = common.run_lines(judge, lines)
    stats = dict(ok=0, known=0, violation=0, mismatch=0)
    viol, mism, known_examples, corpus_bad = [], [], [], []
    steps = 0
    for i, (o, t, ns, expect) in enumerate(hists):
        ni, nm = parse_impl(impl[i]), parse_model(model[i])
        steps += len(ni)
        st, why = judge_history(ni, nm)
        stats[st] += 1
        if st == "violation":
            viol.append((i, why))
        elif st == "mismatch":
            mism.append((i, why))
        elif st == "known" and len(known_examples) < 3:
            known_examples.append((i, why))
        if expect is not None and st != expect:
            corpus_bad.append((i, "corpus entry %s: expected status %s, got %s (%s)" % (o, expect, st, why)))
    if stats["known"] and not known_listed:
        # the divergence is real but nobody listed it: report as violation
        i, why = known_examples[0]
        viol.append((i, "incremental divergence (predicted by the model) but known_findings.jsonl has no entry %s" % KNOWN_ID))

    # ---- single changes at tree level (parser::update on a freshly parsed tree), incl. the kernel judge
    singles = []
    for _ in range(20000 if ctx.thorough() else 3000):
        k, t = gen_doc(ctx.rng)
        if len(t) > 1500:
            t = t[:1500]
        cs, ce, ins = editgen.random_change(ctx.rng, t)
        singles.append(single_line(t, cs, ce, ins))
    simpl = common.run_lines(os.path.join(bindir, "dump"), singles)
    smodel = common.run_lines(judge, singles)
    smism = [i for i in range(len(singles)) if simpl[i] != smodel[i]]
    small = [i for i in range(len(singles)) if len(singles[i]) < 400]
    pick = ctx.rng.sample(small, min(len(small), 600 if ctx.thorough() else 150))
    kc = [([int(x) for x in singles[i].split()], [int(x) for x in simpl[i].split()]) for i in pick]
    try:
        kfail = [pick[j] for j in common.kernel_judge("C01", kc)]
    except RuntimeError as e:
        kfail = []
        mism.append((-1, "kernel judge could not run: %s" % str(e)[-500:]))

    # ---- report
    for i, why in sorted(viol, key=lambda v: len(lines[v[0]]))[:3]:
        o, t, ns, _ = hists[i]
        try:
            t, ns = shrink(bindir, judge, t, ns, "violation")
        except Exception:  # noqa
            pass
        ctx.violation(dict(kind="oracle", property="C01", what=why, origin=o, text=t, notifications=ns,
                           command=hist_line(t, ns), encoding="see harness/src/bin/dump_hist.rs"))
    if not viol:
        bad = sorted([m for m in mism if m[0] >= 0], key=lambda v: len(lines[v[0]]))
        if bad or corpus_bad or smism or kfail or any(m[0] < 0 for m in mism):
            detail = None
            if bad:
                i, why = bad[0]
                o, t, ns, _ = hists[i]
                detail = dict(what="model UpdateDoc.update_doc and AnalyzedSource::update differ: " + why, origin=o, text=t,
                              notifications=ns, command=lines[i], impl=impl[i][:3000], model=model[i][:3000])
            elif smism or kfail:
                i = sorted(set(smism) | set(kfail), key=lambda j: len(singles[j]))[0]
                detail = dict(what="model ParserInc.parse_update and parser::update differ on a single change",
                              command=singles[i], impl=simpl[i][:3000], model=smodel[i][:3000])
            elif corpus_bad:
                detail = dict(what=corpus_bad[0][1])
            else:
                detail = dict(what=[m[1] for m in mism if m[0] < 0][0])
            detail.update(kind="correspondence", property="C01", mismatches=len(bad) + len(smism) + len(kfail))
            ctx.violation(detail, no_input=True)
        elif not proved:
            ctx.violation(dict(kind="proof", property="C01", detail=getattr(ctx, "proof_failure", None)), no_input=True)
    if stats["known"] and known_listed:
        ctx.known("%s parser::update returns a tree different from parser::parse of the same tokens (or panics) on %d of %d "
                  "generated histories, each time exactly as the model of the pinned algorithm predicts; e.g. `proc m(){a:=1;}` "
                  "with `;` inserted at byte 5" % (KNOWN_ID, stats["known"], len(hists)))

    hist = {}
    for o, _, _, _ in hists:
        hist[o.split(":")[0]] = hist.get(o.split(":")[0], 0) + 1
    ctx.cov.update({
        "evaluations": steps + len(singles),
        "distinct_nontrivial": stats["known"] + sum(1 for i in range(len(singles)) if len(simpl[i]) > 200),
        "rule": "histories: a document (valid / semantic faults / damaged / token soup / Unicode) followed by 1-6 didChange "
                "notifications of 1-3 changes each (token-aligned and arbitrary ranges, snippets, token soup); after every "
                "notification the real document is compared field by field with a fresh analysis (oracle) and as a whole with "
                "the model (correspondence). non-trivial = history on which the incremental parser diverges, or single change "
                "whose tree has more than ~50 nodes",
        "histories": len(hists),
        "notifications": steps,
        "history_status": stats,
        "single_changes": len(singles),
        "input_histogram": hist,
        "traces_validated_against_impl": len(hists) + len(singles),
        "kernel_judge_cases": len(kc),
        "correspondence_mismatches": len(mism) + len(smism) + len(kfail),
        "exhaustive": False,
        "samples": [lines[i][:400] for i in ctx.rng.sample(range(len(lines)), 3)],
        "explanation": "Proved for all histories (Props/C01.v): text and tokens of the updated document are those of a fresh analysis "
                       "and lexer::update never fails (from C07); if the updated tree is the scratch tree the document is the fresh "
                       "one (C01_partial). The tree layer is REFUTED (C01_tree_refuted, C01_full_statement_refuted): known finding "
                       "%s. Validated, not proved: Model/UpdateDoc.v = AnalyzedSource::update (whole documents, every notification "
                       "of the generated histories); table/diagnostics recomputation is modelled (Build.v/Semantic.v) but the lemma "
                       "'equal trees modulo build/semantic messages give equal analyses' is not proved." % KNOWN_ID,
    })
    ctx.level = "other"
    if ctx.thorough() and proved:
        if not common.coqchk(ctx):
            ctx.violation(dict(kind="proof", property="C01", detail="coqchk failed or reports axioms", out=ctx.cov.get("coqchk")), no_input=True)
    ctx.assumptions = ["String::replace_range as list surgery on code points; nom 7.1.3 combinator semantics as transcribed in "
                       "Model/Parser.v and Model/ParserInc.v; HashMap as association list (tables compared sorted by name)"]


def replay(ctx, path):
    r = json.load(open(path))
    bindir, _ = common.build_harness()
    judge, _ = common.build_judge()
    cmd = r.get("command")
    if not cmd:
        print(json.dumps(r, indent=1)[:3000])
        return 1
    exe = "dump_hist" if cmd.startswith("17 ") else "dump"
    a = common.run_lines(os.path.join(bindir, exe), [cmd])[0]
    b = common.run_lines(judge, [cmd])[0]
    if cmd.startswith("17 "):
        st, why = judge_history(parse_impl(a), parse_model(b))
        print("status:", st, why or "")
        return 0 if st in ("ok", "known") else 1
    print("impl :", a[:500])
    print("model:", b[:500], "(agrees)" if a == b else "(DIFFERS)")
    return 0 if a == b else 1
