"""C09 - formatting never changes the program."""
import json

import common
import fmtlib


def oracle(exe, dump, docs):
    """docs: list of (text, insert_spaces, tab_size).  The implementation-side property oracle:
    whole-document edit, same code tokens (kinds and literal values) after re-lexing with the real lexer, same
    diagnostics up to layout after re-opening, no syntax error introduced.  Returns (failures, stats);
    a failure is dict(index, what, ...)."""
    obs = fmtlib.format_many(exe, docs, tag="o9", diagnostics=True)
    texts = [d[0] for d in docs]
    new = []
    fails = []
    for i, o in enumerate(obs):
        if o[0] == "null":
            new.append(texts[i])
        elif o[0] == "edit":
            new.append(o[2])
            if tuple(o[1]) != (0, 0) + fmtlib.end_position(texts[i]):
                fails.append(dict(index=i, what="the edit does not replace exactly the whole document",
                                  range=list(o[1]), whole_document=[0, 0] + list(fmtlib.end_position(texts[i]))))
            # the edit applied by an independent client must be the new text
            if fmtlib.apply_edit(texts[i], o[1], o[2]) != o[2]:
                fails.append(dict(index=i, what="applying the edit leaves parts of the old document in place",
                                  applied=fmtlib.apply_edit(texts[i], o[1], o[2]), new_text=o[2]))
        else:
            new.append(None)
            fails.append(dict(index=i, what="no formatting response (server died, timed out or answered an error)", observed=list(map(str, o))))
    reopen = fmtlib.format_many(exe, [(n if n is not None else "", True, 4) for n in new], tag="r9", diagnostics=True)
    lx_old = fmtlib.lex_real(dump, texts)
    lx_new = fmtlib.lex_real(dump, [n if n is not None else "" for n in new])
    nontrivial = set()
    with_diags = 0
    for i in range(len(docs)):
        if new[i] is None:
            continue
        a, b = fmtlib.code_tokens(lx_old[i]), fmtlib.code_tokens(lx_new[i])
        if a != b:
            k = next((k for k in range(min(len(a), len(b))) if a[k] != b[k]), min(len(a), len(b)))
            fails.append(dict(index=i, what="the sequence of non-comment tokens (kinds, literal values) changed",
                              first_difference_at_token=k, before=[list(map(str, x)) for x in a[max(0, k - 3):k + 3]],
                              after=[list(map(str, x)) for x in b[max(0, k - 3):k + 3]], formatted=new[i]))
        d_old, d_new = obs[i][-1], reopen[i][-1]
        if d_old is None or d_new is None:
            fails.append(dict(index=i, what="no diagnostics were published for the document", formatted=new[i]))
            continue
        k_old = fmtlib.diag_keys(texts[i], lx_old[i], d_old)
        k_new = fmtlib.diag_keys(new[i], lx_new[i], d_new)
        if d_old:
            with_diags += 1
        if k_old != k_new:
            fails.append(dict(index=i, what="the diagnostics differ after formatting (message, first/last token)",
                              before=k_old, after=k_new, formatted=new[i]))
        syn_old = [d["message"] for d in d_old if fmtlib.SYNTAX_MSG.match(d["message"])]
        syn_new = [d["message"] for d in d_new if fmtlib.SYNTAX_MSG.match(d["message"])]
        if not syn_old and syn_new:
            fails.append(dict(index=i, what="formatting a syntactically valid program yields a syntax error", after=syn_new, formatted=new[i]))
        if new[i] != texts[i] and len(a) > 3:
            nontrivial.add((texts[i], docs[i][1], docs[i][2]))
    return fails, dict(obs=obs, new=new, nontrivial=len(nontrivial), with_diagnostics=with_diags)


def run(ctx):
    proved = common.proof_stage(ctx)
    env = fmtlib.setup(ctx)
    if env is None:
        return
    exe, judge, dump = env
    nvalid, nmal = (15000, 12000) if ctx.thorough() else (1200, 1600)
    opts = fmtlib.option_settings()
    docs, labels, meta = [], [], []
    for c in fmtlib.load_corpus("C09"):
        docs.append((c["text"], c.get("insert_spaces", True), c.get("tab_size", 4)))
        labels.append("corpus-valid" if c.get("valid", True) else "corpus-malformed")
        meta.append(c["_file"])
    for _ in range(nvalid):
        d = fmtlib.valid_doc(ctx.rng, comment_gaps=ctx.rng.choice(["any", "leading", "leading", "none"]))
        o = ctx.rng.choice(opts)
        docs.append((d["text"], o[0], o[1]))
        labels.append("valid-" + d["origin"])
        meta.append(d["prog"])
    nval = len(docs)
    for _ in range(nmal):
        k, t = fmtlib.malformed_doc(ctx.rng)
        o = ctx.rng.choice(opts)
        docs.append((t, o[0], o[1]))
        labels.append(k)
        meta.append(None)
    # correspondence: every document through server and model
    corr = fmtlib.correspondence(ctx, exe, judge, docs, labels, kernel_n=240 if ctx.thorough() else 100)
    # property oracle on the valid stream
    valid_idx = [i for i in range(len(docs)) if labels[i].startswith("valid") or labels[i] == "corpus-valid"]
    vdocs = [docs[i] for i in valid_idx]
    vprogs = [meta[i] if not isinstance(meta[i], str) else None for i in valid_idx]
    fails, st = oracle(exe, dump, vdocs)
    shown = 0
    byidx = {}
    for f in fails:
        byidx.setdefault(f["index"], []).append(f)
    for i in sorted(byidx, key=lambda i: len(vdocs[i][0])):
        # no alarms from timing: a missing response must reproduce
        fs = byidx[i]
        if any(f["what"].startswith("no formatting response") for f in fs):
            if fmtlib.confirm(exe, vdocs[i], lambda o: o[0] in ("null", "edit")) is None:
                continue
        if shown < 3:
            doc, fs2 = vdocs[i], fs
            if vprogs[i] is not None and shown == 0:
                # shrink the program (plain layout, no comments) as long as the same kind of failure remains
                whats = {f["what"] for f in fs}

                def still(v, o=(vdocs[i][1], vdocs[i][2])):
                    f2, _ = oracle(exe, dump, [(fmtlib.plain_text(v), o[0], o[1])])
                    return any(f["what"] in whats for f in f2)
                if still(vprogs[i]):
                    small = fmtlib.shrink_program(vprogs[i], still)
                    doc = (fmtlib.plain_text(small), vdocs[i][1], vdocs[i][2])
                    fs2, _ = oracle(exe, dump, [doc])
            ctx.violation(dict(kind="oracle", property="C09", text=doc[0], insert_spaces=doc[1], tab_size=doc[2],
                               failures=[{k: v for k, v in f.items() if k != "index"} for f in fs2]))
        shown += 1
    fmtlib.report_correspondence(ctx, corr, docs, labels, shown > 0, proved,
                                 "model Format.format_request and the server's textDocument/formatting response differ")
    import collections
    ctx.cov.update(fmtlib.corr_cov(corr, labels))
    ctx.cov.update({
        "evaluations": len(docs),
        "distinct_nontrivial": st["nontrivial"],
        "rule": "syntactically valid programs (half well-typed from splgen, half untyped from the grammar: statements, else-if chains, "
                "dangling-else guards, unary chains, int/hex/char literals incl. 007 / 0x0a / '\\n', >3 parameters) x random layouts "
                "(spaces, tabs, blank lines, CRLF, dense; comment lines in leading gaps / in any gap / none) x options (insertSpaces with "
                "tabSize 0..8, tabs); oracle per document: whole-document range, edit applied by an independent python client, real lexer on "
                "old and new text (non-comment kinds and literal values equal), diagnostics of both texts equal up to layout, no new syntax "
                "error.  Malformed stream (damaged programs, token soup, random unicode) for the correspondence only.  non-trivial = distinct "
                "(text, options) whose formatting changes the text and which has more than 3 tokens",
        "oracle_documents": len(vdocs), "oracle_failures": len(byidx), "documents_with_diagnostics": st["with_diagnostics"],
        "option_histogram": dict(collections.Counter("%s/%d" % ("spaces" if d[1] else "tabs", d[2]) for d in docs)),
        "samples": [dict(text=vdocs[i][0], insert_spaces=vdocs[i][1], tab_size=vdocs[i][2], formatted=st["new"][i])
                    for i in ctx.rng.sample(range(len(vdocs)), 2)],
        "explanation": "PROVED (Coq, closed, over the hand-written model Model/Format.v of formatting.rs): " + PROVED +
                       "  VALIDATED ONLY (not proved): " + VALIDATED,
    })
    ctx.level = "proof" if proved else "other"
    ctx.assumptions = ["the Coq model Model/Format.v is tied to formatting.rs by differential runs only (server vs extracted judge vs kernel judge)",
                       "table::build / table::analyze do not change ranges or structure of the tree the formatter reads (not modelled)",
                       "serde/lsp-types JSON mapping trusted"]
    if ctx.thorough() and proved:
        if not common.coqchk(ctx):
            ctx.violation(dict(kind="proof", property="C09", detail="coqchk failed or reports axioms", out=ctx.cov.get("coqchk")), no_input=True)


PROVED = ("C09_whole_edit / C09_whole_document_covers (every edit the handler returns has the range (0,0)..as_position |text| text, which "
          "addresses bytes 0..|text| - the whole document - and a new text different from the document), C09_glue_table / C09_glue_lift "
          "(part (B) of the design: every pair of token classes that the printers glue without a separator is free of boundary hazards, "
          "by a vm_compute sweep, and at such a boundary the lexer splits the glued spelling exactly where the formatter glued it), "
          "C09_int_roundtrip / C09_hex_roundtrip / C09_char_roundtrip (what Display prints for a literal lexes back to the same kind and "
          "value: 007 -> 7, 0x0a -> 0x0A), C09_ident_glue.")
VALIDATED = ("the full statement C09_full_statement (non-comment tokens and diagnostics of the formatted text equal the original's for every "
             "syntactically valid program) needs the parser round trip of C04 and is stated, not proved; it is checked on the implementation "
             "by the oracle above on every generated document, and the model is compared with the server on every document.")


def replay(ctx, path):
    r = json.load(open(path))
    if "text" not in r:
        print(json.dumps(r, indent=1)[:3000])
        return 1
    env = fmtlib.setup(ctx)
    if env is None:
        return 1
    exe, judge, dump = env
    fails, st = oracle(exe, dump, [(r["text"], r.get("insert_spaces", True), r.get("tab_size", 4))])
    print("document :", repr(r["text"]))
    print("formatted:", repr(st["new"][0]))
    for f in fails:
        print("FAIL:", json.dumps({k: v for k, v in f.items() if k != "index"}, ensure_ascii=False)[:1500])
    return 1 if fails else 0
