"""C10 - formatting never loses or duplicates a comment."""
import collections
import json

import common
import fmtlib

PREFIX = "KNOWN-FINDING: property=C10 "


def place(ctx_rng, toks, gaps, tag):
    """{gap: [bodies]} with a unique marker in every body (so that multiset comparisons are exact)"""
    gc = {}
    n = 0
    for g in gaps:
        k = 1 if ctx_rng.random() < 0.85 else 2
        gc[g] = []
        for _ in range(k):
            gc[g].append(" %s_%d%s" % (tag, n, ctx_rng.choice(fmtlib.COMMENT_BODIES)))
            n += 1
    return gc


def oracle(exe, dump, cases, known_kinds):
    """cases: list of dict(text, insert_spaces, tab_size, comments=[dict(gap, kind, body)] in source order).
    Returns (failures, stats): every source comment appears exactly once, intact up to the trimming Display performs,
    in the same relative order - or sits in a gap kind listed as known finding."""
    obs = fmtlib.format_many(exe, [(c["text"], c["insert_spaces"], c["tab_size"]) for c in cases], tag="o10")
    new = [o[2] if o[0] == "edit" else (c["text"] if o[0] == "null" else None) for o, c in zip(obs, cases)]
    lx_old = fmtlib.lex_real(dump, [c["text"] for c in cases])
    lx_new = fmtlib.lex_real(dump, [n if n is not None else "" for n in new])
    fails = []
    per_kind = collections.defaultdict(lambda: [0, 0])   # kind -> [kept, lost]
    known_hits = collections.Counter()
    for i, c in enumerate(cases):
        if new[i] is None:
            fails.append(dict(index=i, what="no formatting response", observed=list(map(str, obs[i]))))
            continue
        src = [fmtlib.trim(x["body"]) for x in c["comments"]]
        if fmtlib.comment_texts(lx_old[i]) != src:
            fails.append(dict(index=i, what="generator/lexer disagreement on the comments of the source (machinery)",
                              lexer=fmtlib.comment_texts(lx_old[i]), generator=src))
            continue
        out = fmtlib.comment_texts(lx_new[i])
        pos = {b: k for k, b in enumerate(src)}
        cnt = collections.Counter(out)
        for b, n in cnt.items():
            if b not in pos:
                fails.append(dict(index=i, what="a comment text of the formatted document is not a comment of the source (text not intact)",
                                  comment=b, formatted=new[i]))
            elif n > 1:
                fails.append(dict(index=i, what="a comment was duplicated", comment=b, times=n,
                                  gap_kind=c["comments"][pos[b]]["kind"], formatted=new[i]))
        seq = [pos[b] for b in out if b in pos]
        if any(x >= y for x, y in zip(seq, seq[1:])) and all(n == 1 for n in cnt.values()):
            fails.append(dict(index=i, what="the relative order of the comments changed", source_order=src, formatted_order=out, formatted=new[i]))
        for k, x in enumerate(c["comments"]):
            if src[k] in cnt:
                per_kind[x["kind"]][0] += 1
            else:
                per_kind[x["kind"]][1] += 1
                if x["kind"] in known_kinds:
                    known_hits[x["kind"]] += 1
                else:
                    fails.append(dict(index=i, what="a comment was lost in a gap kind that is not a known finding", comment=src[k],
                                      gap=x["gap"], gap_kind=x["kind"], formatted=new[i]))
    return fails, dict(new=new, per_kind={k: dict(kept=v[0], lost=v[1]) for k, v in sorted(per_kind.items())}, known_hits=known_hits, obs=obs)


def mk_case(text, opt, toks, gc):
    comments = [dict(gap=g, kind=fmtlib.gap_kind(toks, g), body=b) for g in sorted(gc) for b in gc[g]]
    return dict(text=text, insert_spaces=opt[0], tab_size=opt[1], comments=comments)


def run(ctx):
    proved = common.proof_stage(ctx)
    env = fmtlib.setup(ctx)
    if env is None:
        return
    exe, judge, dump = env
    findings = common.load_known_findings("C10")
    findings = [e for e in findings if "kind" in e]       # the gap-kind findings; C10-incparse-stale is handled by tools/histfeat.py
    known_kinds = {e["kind"] for e in findings}
    # 1. the witnesses of the listed findings: which still fail?
    wcases, wentries = [], []
    for e in findings:
        for w in e["witnesses"]:
            toks = fmtlib.annotate(w["program"])
            kind = fmtlib.gap_kind(toks, w["gap"])
            if kind != e["kind"]:
                ctx.violation(dict(kind="machinery", property="C10", what="the witness of a known finding is not of the finding's gap kind",
                                   finding=e["id"], computed_kind=kind), no_input=True)
                continue
            wcases.append(dict(text=w["text"], insert_spaces=True, tab_size=4,
                               comments=[dict(gap=w["gap"], kind=kind, body=" " + w["lost_comment"])]))
            wentries.append(e)
    wf, wst = oracle(exe, dump, wcases, known_kinds) if wcases else ([], dict(per_kind={}, known_hits={}))
    still = 0
    for e, c, n in zip(wentries, wcases, wst.get("new", [])):
        if n is not None and "// " + c["comments"][0]["body"].strip() not in n:
            ctx.known(e["line"][len(PREFIX):] if e["line"].startswith(PREFIX) else e["line"])
            still += 1
    # 2. corpus, 3. one comment in every gap in turn, 4. random multi-comment layouts
    cases, labels = [], []
    opts = fmtlib.option_settings()
    for c in fmtlib.load_corpus("C10"):
        toks = fmtlib.annotate(c["program"])
        gc = {int(g): v for g, v in c["gap_comments"].items()}
        text = c.get("text") or fmtlib.layout(fmtlib.spellings(toks), ctx.rng, gc)
        cases.append(mk_case(text, (c.get("insert_spaces", True), c.get("tab_size", 4)), toks, gc))
        labels.append("corpus")
    nprog, nmulti = (1000, 6000) if ctx.thorough() else (210, 1200)
    progs = 0
    import random
    for p in range(nprog):
        origin, prog = fmtlib.small_valid_program(ctx.rng)
        toks = fmtlib.annotate(prog)
        sp = fmtlib.spellings(toks)
        progs += 1
        lseed = ctx.rng.random()
        nl = ctx.rng.choice(["\n", "\n", "\r\n"])
        opt = ctx.rng.choice(opts)
        for g in range(len(sp) + 1):
            gc = {g: [" p%dg%d%s" % (p, g, ctx.rng.choice(fmtlib.COMMENT_BODIES))]}
            text = fmtlib.layout(sp, random.Random(lseed), gc, newline=nl)
            cases.append(mk_case(text, opt, toks, gc))
            labels.append("single-gap-" + origin)
    for m in range(nmulti):
        origin, prog = fmtlib.any_valid_program(ctx.rng)
        toks = fmtlib.annotate(prog)
        sp = fmtlib.spellings(toks)
        p = ctx.rng.choice([0.05, 0.15, 0.4, 1.0])
        gaps = [g for g in range(len(sp) + 1) if ctx.rng.random() < p]
        gc = place(ctx.rng, toks, gaps, "m%d" % m)
        text = fmtlib.layout(sp, ctx.rng, gc, newline=ctx.rng.choice(["\n", "\n", "\r\n"]), dense=ctx.rng.random() < 0.1)
        cases.append(mk_case(text, ctx.rng.choice(opts), toks, gc))
        labels.append("multi-" + origin)
    fails, st = oracle(exe, dump, cases, known_kinds)
    byidx = {}
    for f in fails:
        byidx.setdefault(f["index"], []).append(f)
    shown = 0
    for i in sorted(byidx, key=lambda i: (len(cases[i]["comments"]), len(cases[i]["text"]))):
        fs = byidx[i]
        if any(f["what"].startswith("no formatting response") for f in fs):
            if fmtlib.confirm(exe, (cases[i]["text"], cases[i]["insert_spaces"], cases[i]["tab_size"]), lambda o: o[0] in ("null", "edit")) is None:
                continue
        if shown < 3:
            ctx.violation(dict(kind="oracle", property="C10", text=cases[i]["text"], insert_spaces=cases[i]["insert_spaces"],
                               tab_size=cases[i]["tab_size"], comments=cases[i]["comments"], known_kinds=sorted(known_kinds),
                               failures=[{k: v for k, v in f.items() if k != "index"} for f in fs]))
        shown += 1
    # correspondence on the same documents (+ a malformed stream)
    jobs = [(c["text"], c["insert_spaces"], c["tab_size"]) for c in cases]
    jl = list(labels)
    for _ in range(1500 if ctx.thorough() else 300):
        k, t = fmtlib.malformed_doc(ctx.rng)
        o = ctx.rng.choice(opts)
        jobs.append((t, o[0], o[1]))
        jl.append(k)
    corr = fmtlib.correspondence(ctx, exe, judge, jobs, jl, kernel_n=200 if ctx.thorough() else 80)
    fmtlib.report_correspondence(ctx, corr, jobs, jl, shown > 0, proved,
                                 "model Format.format_request and the server's textDocument/formatting response differ")
    safe = {k: v for k, v in st["per_kind"].items() if k not in known_kinds}
    ctx.cov.update(fmtlib.corr_cov(corr, jl))
    ctx.cov.update({
        "evaluations": len(cases),
        "distinct_nontrivial": len(set(c["text"] for c in cases if c["comments"])),
        "rule": "for %d generated valid programs (typed and untyped, <= 140 tokens): one comment line in every token gap in turn, before the "
                "first and after the last token (exhaustive per program); plus %d random multi-comment layouts (comment probability per gap "
                "0.05 .. 1.0, one or two comments per gap, bodies with unicode / nested `//` / padding, LF and CRLF); oracle: the comments of "
                "the formatted text (real lexer) are a duplicate-free, order-preserving sub-multiset of the source's comments up to Display's "
                "trimming, and every missing comment sits in a gap kind listed in known_findings.jsonl (gap kind computed from the "
                "generator's derivation: role of the token that follows the gap and the construct it starts / belongs to).  "
                "non-trivial = distinct document containing at least one comment" % (progs, nmulti),
        "exhaustive": False,
        "programs_exhaustive_gaps": progs,
        "gap_kind_table": st["per_kind"],
        "safe_gap_kinds_seen": len(safe), "safe_gap_comments_kept": sum(v["kept"] for v in safe.values()),
        "known_finding_kinds": sorted(known_kinds), "known_finding_witnesses_still_failing": still,
        "known_finding_losses_observed": dict(st["known_hits"]),
        "oracle_failures": len(byidx),
        "samples": [dict(text=cases[i]["text"], comments=cases[i]["comments"], formatted=st["new"][i])
                    for i in ctx.rng.sample(range(len(cases)), 2)],
        "explanation": "PROVED (Coq, closed, over the model Model/Format.v): " + PROVED + "  VALIDATED ONLY: " + VALIDATED,
    })
    ctx.level = "other"
    ctx.assumptions = ["the Coq model Model/Format.v is tied to formatting.rs by differential runs only",
                       "known findings C10-gap-* (22 gap kinds in which the pinned formatter drops comments) are accepted, not repaired",
                       "serde/lsp-types JSON mapping trusted"]
    if ctx.thorough() and proved:
        if not common.coqchk(ctx):
            ctx.violation(dict(kind="proof", property="C10", detail="coqchk failed or reports axioms", out=ctx.cov.get("coqchk")), no_input=True)


PROVED = ("C10_refuted (the full statement is false on the faithful model: a concrete valid document whose comment in front of a closing "
          "brace is absent from the model's output, vm_compute witness, the same document is a witness of known finding "
          "C10-gap-before-proc-rcurly on the implementation), C10_all_comments_once / C10_leading_comments_once (the two helper functions emit "
          "every comment token of their slice / of the slice's leading run exactly once, in order, as Display prints it, in front of the "
          "construct's text), C10_leaf_statement_comments (an assignment, call or empty statement is printed as exactly the comments of its own "
          "token range followed by its text).")
VALIDATED = ("that no comment is emitted twice across constructs and that every comment in a covered gap survives (C10_covered_full_statement) "
             "needs the parser's range invariants (C04/C05) and is stated, not proved; it is checked on the implementation for every gap of "
             "every generated program.")


def replay(ctx, path):
    r = json.load(open(path))
    if "comments" not in r:
        print(json.dumps(r, indent=1)[:3000])
        return 1
    env = fmtlib.setup(ctx)
    if env is None:
        return 1
    exe, judge, dump = env
    known_kinds = {e["kind"] for e in common.load_known_findings("C10") if "kind" in e}
    fails, st = oracle(exe, dump, [dict(text=r["text"], insert_spaces=r.get("insert_spaces", True), tab_size=r.get("tab_size", 4),
                                        comments=r["comments"])], known_kinds)
    print("document :", repr(r["text"]))
    print("formatted:", repr(st["new"][0]))
    for f in fails:
        print("FAIL:", json.dumps({k: v for k, v in f.items() if k != "index"}, ensure_ascii=False)[:1500])
    return 1 if fails else 0
