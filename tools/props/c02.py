"""C02 - the server never crashes or goes silent, whatever the document or request.

  proof            Props/C02.v: for ALL texts the lexer and the parser succeed (every panic site of lexer::lex and
                   parser::parse is unreachable, the fuel suffices), build/analyze cannot reach their named panic sites.
  correspondence   the model must predict Done/Panic exactly like the implementation: AnalyzedSource::new + errors()
                   (judge command 8 vs dump_sem) on the malformed stream, and AnalyzedSource::update on edit histories
                   (command 17 vs dump_hist; a panic of the incremental parser predicted by the model of the pinned
                   algorithm is known finding C01-incparse / C02-incparse-panic, any other panic is a violation).
  oracle           (a) library: no panic of new()/errors() on arbitrary Unicode, CRLF, unterminated literals and comments,
                   token soup, damaged programs, deep nesting;  (b) binary: didOpen of such documents, then all 13 request
                   kinds at positions inside and outside the text, then edits and the requests again: exactly one
                   well-formed response per request id, process alive until shutdown/exit.
"""
import json
import os
from concurrent.futures import ThreadPoolExecutor

import common
import editgen
import lspclient
import splgen
from props import c01

METHODS = ["hover", "declaration", "definition", "typeDefinition", "implementation", "references", "rename",
           "prepareRename", "completion", "signatureHelp", "foldingRange", "formatting", "semanticTokens/full"]
URI = "file:///c02.spl"


def nums(s):
    return " ".join(str(ord(x)) for x in s)


def deep_documents(rng):
    out = []
    for n in (30, 120, 400):
        out.append("proc main() { x := " + "(" * n + "1" + ")" * n + "; }")
        out.append("proc main() { x := " + "-" * n + "1; }")
        out.append("proc main() " + "{ " * n + "}" * n)
        out.append("proc main() { " + "if (1 < 2) " * n + "; }")
        out.append("proc main() { " + "while (1 < 2) { " * n + "}" * n + " }")
        out.append("type t = " + "array [2] of " * n + "int;")
        out.append("proc main() { x" + "[1" * n + "]" * n + " := 1; }")
        out.append("proc main() { x := " + "1 + " * n + "1; }")
        out.append("proc main() { f(" + "f(" * n + ")" * n + "; }")
        out.append("proc main() { f(" + "1," * n + "); }")
    out += ["", " ", "\r\n", "'", "//", "0x", "'\\", "proc", "type", "proc main(", "type t = array [", "﻿proc main() {}",
            "proc main() { printi('\\n'); printc('é'); }", "proc main() {\r\n  var x: int;\r\n}\r\n", "\x00\x01", "🙂" * 50,
            "proc main() { x := 99999999999999999999; y := 0xFFFFFFFFF; }"]
    return out


# names in roles they were not made for: predefined procedures and `int` as types / variables / callees of the wrong kind,
# undeclared names everywhere, `main` as a type, redeclared predefined names - every identifier is queried with every request
ODD_ROLE_DOCS = [
    "type t = printi;\ntype u = array [2] of readc;\ntype v = nosuch;\ntype w = w;\nproc main() { }\n",
    "type main = int;\ntype int = int;\nproc printi(i: int) { }\nproc exit() { }\n",
    "proc p(a: printi, ref b: exit, c: nosuch, p: int) {\n  var v: time;\n  var int: int;\n  v := p;\n  p := 1;\n  int := 2;\n  printi(p);\n"
    "  q();\n  v(1);\n  a[1] := b[2];\n  time := 3;\n  main();\n  p(p, p, p, p);\n}\nproc main() { p(1, 2, 3, 4); main := 0; }\n",
    "proc main() { var a: array [2] of array [3] of printc; a[0][1] := readi; readi(a); readi(main); exit(1); drawLine(); }\n",
    "type a = array [2] of int;\nproc a() { }\ntype b = a;\nproc main() { var x: b; var a: a; x := a; a(); b(); }\n",
]


def gen_documents(ctx, n):
    rng = ctx.rng
    docs = [("deep", t) for t in deep_documents(rng)]
    while len(docs) < n:
        k, t = splgen.any_document(rng)
        if rng.random() < 0.15:
            t = t.replace("\n", rng.choice(["\r\n", "\r", "\n"]))
        if rng.random() < 0.2 and t:
            cut = rng.randrange(len(t))
            t = t[:cut]        # half-typed
        docs.append((k, t))
    return docs


# textDocument/formatting: the options are the client's business - any tab size, tabs or blanks, the optional members
FORMAT_OPTIONS = [{"tabSize": 4, "insertSpaces": True}, {"tabSize": 0, "insertSpaces": True}, {"tabSize": 1, "insertSpaces": False},
                  {"tabSize": 255, "insertSpaces": True}, {"tabSize": 256, "insertSpaces": True}, {"tabSize": 257, "insertSpaces": False},
                  {"tabSize": 1000, "insertSpaces": True}, {"tabSize": 65535, "insertSpaces": False}, {"tabSize": 4096, "insertSpaces": True},
                  {"tabSize": 100000, "insertSpaces": False}, {"tabSize": 2147483647, "insertSpaces": False},
                  {"tabSize": 4294967295, "insertSpaces": False},
                  {"tabSize": 8, "insertSpaces": True, "trimTrailingWhitespace": True, "insertFinalNewline": True, "trimFinalNewlines": True},
                  {"tabSize": 2, "insertSpaces": False, "someClientSpecificKey": "x", "another": 3, "flag": False}]


def params_for(method, line, ch, uri=URI):
    td = {"textDocument": {"uri": uri}}
    if method in ("foldingRange", "semanticTokens/full"):
        return td
    if method == "formatting":
        return dict(td, options=FORMAT_OPTIONS[line % len(FORMAT_OPTIONS)])     # `line` selects the options here
    p = dict(td, position={"line": line, "character": ch})
    if method == "references":
        p["context"] = {"includeDeclaration": True}
    if method == "rename":
        p["newName"] = "renamed"
    return p


def positions(rng, text, k):
    import re
    lines = text.split("\n")
    out = [(0, 0), (len(lines) + 3, 0), (0, 10 ** 6), (len(lines) - 1, len(lines[-1]))]
    for _ in range(k):
        l = rng.randrange(len(lines))
        c = rng.randrange(len(lines[l]) + 2)
        out.append((l, c))
    # on identifiers: the handlers' lookups run only there (a name used in an unusual role - a predefined procedure as a type,
    # an undeclared name - is where a missing guard shows)
    idents = [(l, m.start() + rng.randrange(0, m.end() - m.start())) for l, s in enumerate(lines[:400])
              for m in re.finditer(r"[A-Za-z_][A-Za-z_0-9]*", s)]
    rng.shuffle(idents)
    return out + idents[:2 * k + 2]


def surrogate_edits(rng, text, k):
    """didChange ranges whose start and/or end column lies BETWEEN the two UTF-16 code units of a character outside the BMP
    (LSP leaves the meaning open; the server must stay alive and keep answering), plus columns far past the line end.
    [(l1, c1, l2, c2, insertion)] with (l1, c1) <= (l2, c2)"""
    lines = text.split("\n")
    mids = []
    for l, s in enumerate(lines):
        col = 0
        for ch in s:
            if ord(ch) >= 0x10000:
                mids.append((l, col + 1))
                col += 2
            else:
                col += 1
    out = []
    for _ in range(k):
        if not mids:
            break
        a = rng.choice(mids)
        r = rng.random()
        if r < 0.4:
            b = a
        elif r < 0.7:
            b = rng.choice([m for m in mids if m >= a])
        else:
            b = (a[0], a[1] + rng.choice([0, 1, 2, 5, 10 ** 6]))
        if rng.random() < 0.25:
            a = (a[0], max(0, a[1] - rng.choice([1, 2, 3])))
        out.append((a[0], a[1], b[0], b[1], rng.choice(["", "x", "\U0001F600", " ", "\n", "y := 1;"])))
    return out


def insertion_index(text, line, col):
    """byte offset document.rs::get_insertion_index gives an LSP position (a column inside a surrogate pair addresses the
    position behind that character; past the end of a line: the end of the line; past the last line: the end of the text)"""
    ln = ch = 0
    b = 0
    n = len(text)
    for i, c in enumerate(text):
        if ln == line and ch >= col:
            return b
        if c in "\r\n" and ln == line:
            return b
        if c == "\n":
            ln, ch = ln + 1, 0
        elif c == "\r":
            if not (i + 1 < n and text[i + 1] == "\n"):
                ln, ch = ln + 1, 0
        else:
            ch += 2 if ord(c) >= 0x10000 else 1
        b += len(c.encode("utf-8"))
    return b


def raw_to_byte_edits(text, raw_edits, upto=None):
    """the (start byte, end byte, inserted text) changes the server derives from LSP-position edits, and the resulting text"""
    out, cur = [], text
    for e in raw_edits:
        l1, c1, l2, c2, ins = e
        cs, ce = insertion_index(cur, l1, c1), insertion_index(cur, l2, c2)
        if ce < cs:
            return None, cur
        out.append((cs, ce, ins))
        cur = editgen.apply_change(cur, cs, ce, ins)
        if upto is not None and list(e) == list(upto):
            break
    return out, cur


def session(exe, text, edits, seed, per_method=3, timeout=20.0, raw_edits=(), server_args=()):
    """opens text, fires all request kinds, applies the edits (each followed by requests again), shuts down.
    returns dict(ok, problem, transcript)"""
    import random
    rng = random.Random(seed)
    s = lspclient.Server(exe, args=server_args)
    sent = []
    try:
        s.initialize()
        s.open(URI, text)
        cur = text

        counter = [100]

        def next_rid():
            # request ids from all over the i32 range: positive, negative, near the extremes (all distinct)
            counter[0] += 1
            k = counter[0]
            return [k, -k, 2147483647 - k, -2147483648 + k][k % 4]

        def fire():
            ids = []
            for m in METHODS:
                # wide indentation only for documents of modest nesting: depth x tabSize blanks per line is the formatter's job,
                # a response of hundreds of megabytes is not what this check is about
                modest = cur.count("{") <= 12 and len(cur) <= 4000
                fopts = [k for k, o in enumerate(FORMAT_OPTIONS) if modest or not o["insertSpaces"] or o["tabSize"] <= 8]
                where = ([(rng.choice(fopts), 0) for _ in range(3)] if m == "formatting"
                         else positions(rng, cur, per_method)[: (1 if m in ("foldingRange", "semanticTokens/full") else 99)])
                for (l, c) in where:
                    rid = s.request_async("textDocument/" + m, params_for(m, l, c), rid=next_rid())
                    ids.append((rid, m, l, c))
            return ids

        def collect(ids):
            for rid, m, l, c in ids:
                try:
                    r = s.wait_response(rid, timeout=timeout)
                except Exception as e:  # noqa
                    return dict(ok=False, problem="no response to textDocument/%s at (%d,%d): %s" % (m, l, c, e), method=m,
                                position=[l, c], text=cur)
                if not isinstance(r, dict) or r.get("jsonrpc") != "2.0" or r.get("id") != rid or (("result" in r) == ("error" in r)):
                    return dict(ok=False, problem="malformed response to textDocument/%s: %r" % (m, r), method=m, position=[l, c], text=cur)
            return None

        bad = collect(fire())
        if bad:
            return bad
        # every request kind for a document the server has never seen: an answer (null / empty), not silence
        ids = [(s.request_async("textDocument/" + m, params_for(m, 0, 1, "file:///never-opened.spl"), rid=next_rid()), m, 0, 1) for m in METHODS]
        bad = collect(ids)
        if bad:
            bad["unknown_document"] = True
            return bad
        version = 2
        for cs, ce, ins in edits:
            # byte offsets -> LSP positions through the client's own text model
            def pos_of(b):
                pre = cur.encode("utf-8")[:b].decode("utf-8")
                ls = pre.split("\n")
                return {"line": len(ls) - 1, "character": len(ls[-1].encode("utf-16-le")) // 2}
            if "\r" in cur:
                break   # the simple position model above is for LF documents only
            s.change(URI, [{"range": {"start": pos_of(cs), "end": pos_of(ce)}, "text": ins}], version)
            version += 1
            cur = editgen.apply_change(cur, cs, ce, ins)
            bad = collect(fire())
            if bad:
                bad["after_edits"] = True
                return bad
        for (l1, c1, l2, c2, ins) in raw_edits:
            s.change(URI, [{"range": {"start": {"line": l1, "character": c1}, "end": {"line": l2, "character": c2}}, "text": ins}], version)
            version += 1
            try:
                r = s.request("$/verif/text", {"uri": URI}, timeout=timeout)
            except Exception as e:  # noqa
                r = None
            if not isinstance(r, dict) or not isinstance(r.get("result"), str):
                return dict(ok=False, problem="the server does not know the document any more after a didChange whose range touches the "
                            "middle of a surrogate pair: %r" % (r,), text=cur, raw_edit=[l1, c1, l2, c2, ins], after_raw_edit=True)
            cur = r["result"]
            bad = collect(fire())
            if bad:
                bad["raw_edit"] = [l1, c1, l2, c2, ins]
                bad["after_raw_edit"] = True
                return bad
        _, code = s.shutdown_exit(timeout=10.0)
        if code != 0:
            return dict(ok=False, problem="exit status %r after shutdown/exit" % code, text=cur)
        return dict(ok=True)
    except Exception as e:  # noqa
        return dict(ok=False, problem="session failed: %r" % e, text=text)
    finally:
        s.kill()


def run(ctx):
    proved = common.proof_stage(ctx)
    bindir, log = common.build_harness()
    if bindir is None:
        ctx.violation(dict(kind="build-failure", what="harness/implementation does not build", log=log[-3000:]), no_input=True)
        return
    exe, log = common.build_server()
    if exe is None:
        ctx.violation(dict(kind="build-failure", what="lsp4spl does not build", log=log[-3000:]), no_input=True)
        return
    judge, jlog = common.build_judge()
    rng = ctx.rng
    # ---- (a) library: new() + errors() on the malformed stream
    docs = gen_documents(ctx, 60000 if ctx.thorough() else 6000)
    l8 = ["8 " + nums(t) if t else "8" for _, t in docs]
    impl = common.run_lines(os.path.join(bindir, "dump_sem"), l8)
    panics = [i for i, o in enumerate(impl) if o.split()[0] != "0"]
    for i in sorted(panics, key=lambda i: len(docs[i][1]))[:3]:
        ctx.violation(dict(kind="oracle", property="C02", what="AnalyzedSource::new / errors() panics on this text", text=docs[i][1],
                           origin=docs[i][0], command=l8[i]))
    mism, kfail, nk = [], [], 0
    if judge:
        model = common.run_lines(judge, l8)
        mism = [i for i in range(len(l8)) if impl[i] != model[i]]
        small = [i for i in range(len(l8)) if len(l8[i]) < 300]
        ks = rng.sample(small, min(len(small), 400 if ctx.thorough() else 120))
        try:
            kfail = [ks[j] for j in common.kernel_judge("C02", [([int(v) for v in l8[i].split()], [int(v) for v in impl[i].split()]) for i in ks])]
        except RuntimeError as e:
            ctx.cov["kernel_error"] = str(e)[-400:]
            kfail = [-1]
        nk = len(ks)
    # ---- histories: panics of update must be the model's
    hists = [(o, t, ns) for o, t, ns, _ in c01.load_corpus()]     # contains the panic witness of C02-incparse-panic
    for _ in range(6000 if ctx.thorough() else 800):
        k, t, ns = c01.gen_history(rng)
        hists.append((k, t, ns))
    hl = [c01.hist_line(t, ns) for _, t, ns in hists]
    hi = common.run_lines(os.path.join(bindir, "dump_hist"), hl)
    hm = common.run_lines(judge, hl) if judge else hi
    known_panics, hviol, hmism = 0, [], []
    for i in range(len(hl)):
        ni, nm = c01.parse_impl(hi[i]), c01.parse_model(hm[i])
        ip = any(p[0] == 1 for p in ni if p[0] != "init") or (ni and ni[0][0] == "init" and ni[0][1][:1] == (1,))
        mp = any(p[0] == 1 for p in nm if p[0] != "init") or (nm and nm[0][0] == "init" and nm[0][1][:1] == (1,))
        if ip and mp and len(ni) == len(nm):
            known_panics += 1
        elif ip:
            hviol.append(i)
        elif mp:
            hmism.append(i)
    known_listed = any(e.get("id") == "C02-incparse-panic" for e in common.load_known_findings("C02"))
    if known_panics and not known_listed:
        hviol += [i for i in range(len(hl)) if any(p[0] == 1 for p in c01.parse_impl(hi[i]) if p[0] != "init")][:1]
    for i in sorted(hviol, key=lambda i: len(hl[i]))[:2]:
        ctx.violation(dict(kind="oracle", property="C02", what="AnalyzedSource::update panics on this history (not predicted by the model "
                           "of the pinned incremental parser)", text=hists[i][1], notifications=hists[i][2], command=hl[i]))
    # ---- (b) binary
    sess_docs = [d for d in docs if len(d[1]) < 3000]
    nsess = 400 if ctx.thorough() else 48
    # every deep / hand-written document (nesting 30, 120 and 400 of every recursive construct), then a random sample
    picks = [d for d in sess_docs if d[0] == "deep"] + rng.sample(sess_docs, nsess)
    odd_jobs = [(t, [], ctx.seed * 613 + i, 40) for i, t in enumerate(ODD_ROLE_DOCS)]
    cdir = os.path.join(common.VERIF, "corpus", "C02")
    for f in sorted(os.listdir(cdir)) if os.path.isdir(cdir) else []:
        picks.insert(0, ("corpus:" + f, json.load(open(os.path.join(cdir, f)))["text"]))
    jobs = []
    for j, (k, t) in enumerate(picks):
        edits = []
        cur = t
        if "\r" not in t:
            for _ in range(rng.choice([0, 1, 2, 3])):
                cs, ce, ins = editgen.random_change(rng, cur)
                if "\r" in ins:
                    continue
                edits.append((cs, ce, ins))
                cur = editgen.apply_change(cur, cs, ce, ins)
        jobs.append((t, edits, ctx.seed * 7919 + j))
    # edits whose positions fall between the halves of a surrogate pair (documents with characters outside the BMP)
    astral = ["proc main() { // \U0001F600\U0001F600 x\n  printc('\U0001F600'); printc('\U0001D11E'); }\n",
              "// \U0001F600\nproc main() {\n  var a\U0001F600: int; // \U0001D11E\U0001D11E\n}\n",
              "\U0001F600", "'\U0001F600'\U0001F600'\U0001F600", "type t = int; // \U0001F600\n// \U0001F600\U0001F600\U0001F600\nproc main() {}"]
    for j in range(24 if ctx.thorough() else 8):
        t = rng.choice(astral)
        jobs.append((t, [], ctx.seed * 104729 + j, 1, 20.0, surrogate_edits(rng, t, rng.randint(1, 3))))

    # the same with the server's own logging switched on (`--log FILE`: every message and table is pretty-printed)
    import tempfile
    logdir = tempfile.mkdtemp(prefix="c02log_", dir=common.WORK)
    log_jobs = [(picks[i][1], [], ctx.seed * 31 + i, 2, 20.0, (), ("--log", os.path.join(logdir, "s%d.log" % i), "--stdio"))
                for i in rng.sample(range(len(picks)), min(len(picks), 12 if ctx.thorough() else 4))]
    jobs += log_jobs
    jobs += odd_jobs

    def one(job):
        return session(exe, *job)

    with ThreadPoolExecutor(10) as ex:
        res = list(ex.map(one, jobs))
    log_bytes = sum(os.path.getsize(os.path.join(logdir, f)) for f in os.listdir(logdir))
    import shutil
    shutil.rmtree(logdir, ignore_errors=True)
    ctx.cov["server_log_bytes_written"] = log_bytes
    sess_bad = []
    failing = sorted([(job, r) for job, r in zip(jobs, res) if not r.get("ok")], key=lambda x: len(x[0][0]))
    # no alarms from timing: must reproduce in three fresh processes; at most six failing sessions are confirmed (each
    # confirmation costs up to two minutes when the server is mute), the others are counted
    for job, r in failing[:6]:
        again = [session(exe, job[0], job[1], job[2], timeout=40.0, raw_edits=(job[5] if len(job) > 5 else ()),
                         server_args=(job[6] if len(job) > 6 else ())) for _ in range(3)]
        if all(not a.get("ok") for a in again):
            sess_bad.append((job, again[0]))
    ctx.cov["binary_sessions_failing_first_run"] = len(failing)
    known_sess = 0
    for job, r in sorted(sess_bad, key=lambda x: len(x[0][0]))[:]:
        # a silent server after an edit can be the known weakness of the incremental parser: either update itself panics
        # or it leaves a tree that does not fit the tokens (both exactly as the model of the pinned algorithm predicts) and a
        # handler then indexes out of bounds.  It counts as known only if the SAME final text, opened freshly, answers everything.
        byte_edits = job[1]
        if r.get("after_raw_edit") and len(job) > 5 and not job[1]:
            # edits given as LSP positions (inside surrogate pairs): the byte changes the server derives from them
            byte_edits, final = raw_to_byte_edits(job[0], job[5], r.get("raw_edit"))
            if byte_edits is None or (r.get("text") is not None and final != r.get("text")):
                byte_edits = None
        if (r.get("after_edits") or (r.get("after_raw_edit") and byte_edits)) and judge and known_listed:
            line = c01.hist_line(job[0], [[e] for e in byte_edits])
            a = common.run_lines(os.path.join(bindir, "dump_hist"), [line])[0]
            b = common.run_lines(judge, [line])[0]
            st, _ = c01.judge_history(c01.parse_impl(a), c01.parse_model(b))
            if st == "known":
                cur = job[0]
                for cs, ce, ins in byte_edits:
                    cur = editgen.apply_change(cur, cs, ce, ins)
                fresh = session(exe, cur, [], job[2], timeout=40.0)
                if fresh.get("ok"):
                    known_sess += 1
                    continue
        if len([1 for v in ctx.violations]) < 4:
            ctx.violation(dict(kind="oracle", property="C02", what=r.get("problem"), text=job[0], edits=job[1], seed=job[2],
                               raw_edits=[list(e) for e in job[5]] if len(job) > 5 else [],
                               server_args=list(job[6]) if len(job) > 6 else [],
                               last_text=r.get("text"), method=r.get("method"), position=r.get("position")))
    if not ctx.violations:
        if judge is None:
            ctx.violation(dict(kind="proof", property="C02", what="Coq development does not build", log=jlog[-2000:]), no_input=True)
        elif mism or kfail or hmism:
            i = sorted(mism, key=lambda i: len(l8[i]))[0] if mism else None
            ctx.violation(dict(kind="correspondence", property="C02", what="model and implementation disagree on the outcome of the analysis",
                               text=docs[i][1] if i is not None else None, command=(l8[i] if i is not None else (hl[hmism[0]] if hmism else None)),
                               mismatches=len(mism) + len(kfail) + len(hmism)), no_input=True)
        elif not proved:
            ctx.violation(dict(kind="proof", property="C02", detail=getattr(ctx, "proof_failure", None)), no_input=True)
    if (known_panics or known_sess) and known_listed:
        ctx.known("C02-incparse-panic AnalyzedSource::update panics (`Parser cannot fail` / slice out of range in parser::update) on %d of %d "
                  "generated edit histories, each predicted by the model of the pinned incremental parser; the broker task dies and "
                  "the server stops answering document requests (%d of the binary sessions)" % (known_panics, len(hl), known_sess))
    # ---- the stack: recursion depth of the parser is bounded by the 64 MiB thread stack only (DESIGN 10.3)
    stack_listed = any(e.get("id") == "C02-stack-exhaustion" for e in common.load_known_findings("C02"))
    probe_depth = 3000
    probe_text = "proc main() {\n" + "if (1 = 1) {\n" * probe_depth + "}\n" * probe_depth + "}\n"
    probe = session(exe, probe_text, [], ctx.seed, per_method=1, timeout=60.0)
    ctx.cov["stack_probe"] = dict(nested_if_statements=probe_depth, answered=bool(probe.get("ok")))
    if not probe.get("ok"):
        if stack_listed:
            ctx.known("C02-stack-exhaustion a document with %d nested if statements ends the server (stack overflow in the recursive-descent "
                      "parser; 64 MiB per thread: about 950 nested if / while statements or 2500 nested blocks in the debug build); "
                      "nesting up to 400 of every recursive construct is answered in every run" % probe_depth)
        else:
            ctx.violation(dict(kind="oracle", property="C02", what="the server dies on a deeply nested document: " + str(probe.get("problem")),
                               text=probe_text[:200] + " ...", nested_if_statements=probe_depth, seed=ctx.seed, edits=[], raw_edits=[], server_args=[]))
    hist = {}
    for k, _ in docs:
        hist[k] = hist.get(k, 0) + 1
    ctx.cov.update({
        "evaluations": len(docs) + len(hl) + sum(1 for r in res),
        "distinct_nontrivial": len(set(t for k, t in docs if k != "valid")),
        "rule": "library: AnalyzedSource::new + errors() under catch_unwind on the mixed stream (valid, damaged, token soup, arbitrary "
                "Unicode, CR/CRLF variants, truncated documents, nesting up to depth 400) and AnalyzedSource::update on edit histories; "
                "binary: %d sessions = didOpen + all 13 request kinds at random / boundary / out-of-range positions, 0-3 ranged edits "
                "each followed by the requests again, shutdown/exit; on documents with characters outside the BMP also edits whose range "
                "starts / ends between the two UTF-16 units of such a character or far behind the line end; non-trivial = distinct document that is not a valid program" % len(jobs),
        "input_histogram": hist,
        "library_documents": len(docs),
        "histories": len(hl),
        "history_panics_predicted_by_model": known_panics,
        "binary_sessions": len(jobs),
        "binary_requests": sum((len(j[1]) + 1) * (10 * 7 + 3) for j in jobs),
        "sessions_with_edits_inside_surrogate_pairs": sum(1 for j in jobs if len(j) > 5 and j[5]),
        "sessions_with_server_logging": len(log_jobs),
        "traces_validated_against_impl": len(docs) + len(hl),
        "kernel_judge_cases": nk,
        "correspondence_mismatches": len(mism) + len(kfail) + len(hmism),
        "exhaustive": False,
        "samples": [docs[i][1][:200] for i in rng.sample(range(len(docs)), 3)],
        "explanation": "Proved for ALL texts (Props/C02.v): AnalyzedSource::new never panics and terminates (lexer, parser with its fuel, "
                       "table construction, semantic analysis: C02_new_doc_total), errors() never panics and every published range lies "
                       "inside the document (C02_errors_total, C02_errors_inside); every request handler (go-to x4, references, rename, "
                       "prepareRename, hover, signature help, completion, folding, semantic tokens) returns a value - never reaches a panic "
                       "site - on the document of every text at every position (C02_handlers_total; the well-formedness predicates of the "
                       "per-feature robustness theorems hold for every parser output: C02_new_doc_nav_wf, _cursor_pre, _compl_wf, "
                       "_fold_pre, _doc_wf). Validated by correspondence + fuzzing, not proved: the formatting handler, the server runtime "
                       "(one response per request, process alive; stack depth: documents nested up to 400 levels are part of every run). AnalyzedSource::update CAN panic (known "
                       "finding C02-incparse-panic, class: predicted by the model of the pinned incremental parser).",
    })
    ctx.level = "other"
    if ctx.thorough() and proved:
        if not common.coqchk(ctx):
            ctx.violation(dict(kind="proof", property="C02", detail="coqchk failed or reports axioms", out=ctx.cov.get("coqchk")), no_input=True)
    ctx.assumptions = ["process liveness, stack depth and allocation are observed, not modelled; a request is considered unanswered after 20 s "
                       "(40 s on re-runs) and only when this reproduces in three fresh server processes"]


def replay(ctx, path):
    r = json.load(open(path))
    bindir, _ = common.build_harness()
    if r.get("command"):
        cmd = r["command"]
        exe = "dump_hist" if cmd.startswith("17 ") else "dump_sem"
        o = common.run_lines(os.path.join(bindir, exe), [cmd])[0]
        print(exe + ":", o[:300])
        return 1 if (o.split()[0] != "0" or " 1" == o[-2:]) else 0
    exe, _ = common.build_server()
    res = session(exe, r["text"], [tuple(e) for e in r.get("edits", [])], r.get("seed", 1), raw_edits=[tuple(e) for e in r.get("raw_edits", [])],
                  server_args=tuple(r.get("server_args", [])))
    print(res)
    return 0 if res.get("ok") else 1
