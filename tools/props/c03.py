"""C03 - diagnostics are exactly what SPL prescribes, and point at the culprit.

Stages (DESIGN.md section 4): proof stage (Props/C03.v) ; corpus/C03 ; correspondence of the model (judge command 8:
AnalyzedSource::new + errors() + table) with the implementation (harness `dump_sem`) on every generated document,
a sample of short ones through the kernel ; the ORACLE on the implementation alone:
  (a) well-typed programs get no diagnostic,
  (b) every single-fault variant (tools/splfaults.py: 27 message kinds + the two unary-minus faults, and the
      missing-token syntax faults) gets exactly the diagnostics SPL prescribes, each on the culprit: the culprit's token
      span in splgen.flatten is mapped to bytes by lexing the rendered text with the real lexer,
  (c) every published range lies inside the document and on character boundaries (all documents, malformed included),
  (d) publishDiagnostics of the built server carries the same messages, at the LSP positions of the byte ranges,
  (e) the same along EDIT HISTORIES (tools/c03hist.py): the edits that introduce / repair one violation, with unrelated
      edits before, between and in the same notification, so that the node carrying a diagnostic is reused by the
      incremental parser while the declaration that decides about it changes elsewhere: after every notification
      errors() must be those of a fresh analysis of the current text (whose correctness is (a)/(b)); a difference
      that Model/UpdateDoc.v predicts is the known finding C03-incparse-diagnostics (root cause: C01-incparse), any other
      is a violation with the history as replay.
"""
import collections
import json
import os
import queue
import random

import c03hist
import common
import enc
import lspclient
import semtest
import splfaults
import splgen

NAMED = {"UndefinedType", "NotAType", "RedeclarationAsType", "MustBeAReferenceParameter", "RedeclarationAsProcedure",
         "RedeclarationAsParameter", "RedeclarationAsVariable", "UndefinedVariable", "NotAVariable"}
CALLEE = {"UndefinedProcedure", "CallOfNoneProcedure", "TooFewArguments", "TooManyArguments", "ArgumentsTypeMismatch",
          "ArgumentMustBeAVariable"}


# ---- error.rs Display, written from the Rust source (independent of Model/Errors.v show_emsg) ----
def show(m):
    k, a = m[0], m[1:]
    t = {
        "MissingOpening": "missing opening `%s`", "MissingClosing": "missing closing `%s`",
        "MissingTrailingSemic": "missing trailing `;`", "UnexpectedCharacters": "unexpected `%s`",
        "ExpectedToken": "expected `%s`", "ConfusedToken": "expected `%s`, but got `%s`",
        "UndefinedType": "undefined type `%s`", "NotAType": "`%s` is not a type",
        "RedeclarationAsType": "redeclaration of `%s` as type",
        "MustBeAReferenceParameter": "parameter `%s` must be a reference parameter",
        "RedeclarationAsProcedure": "redeclaration of `%s` as procedure",
        "RedeclarationAsParameter": "redeclaration of `%s` as parameter",
        "RedeclarationAsVariable": "redeclaration of `%s` as variable",
        "MainIsMissing": "procedure `main` is missing", "MainIsNotAProcedure": "`main` is not a procedure",
        "MainMustNotHaveParameters": "procedure `main` must not have any parameters",
        "AssignmentHasDifferentTypes": "assignment has different types",
        "AssignmentRequiresIntegers": "assignment requires integer variable",
        "IfConditionMustBeBoolean": "`if` test expression must be of type boolean",
        "WhileConditionMustBeBoolean": "`while` test expression must be of type boolean",
        "UndefinedProcedure": "undefined procedure `%s`", "CallOfNoneProcedure": "call of non-procedure `%s`",
        "ArgumentsTypeMismatch": "procedure `%s` argument `%s` type mismatch",
        "ArgumentMustBeAVariable": "procedure `%s` argument `%s` must be a variable",
        "TooFewArguments": "procedure `%s` called with too few arguments",
        "TooManyArguments": "procedure `%s` called with too many arguments",
        "OperatorDifferentTypes": "expression combines different types",
        "ComparisonNonInteger": "comparison requires integer operands",
        "ArithmeticOperatorNonInteger": "arithmetic operation requires integer operands",
        "UndefinedVariable": "undefined variable `%s`", "NotAVariable": "`%s` is not a variable",
        "IndexingNonArray": "illegal indexing a non-array", "IndexingWithNonInteger": "illegal indexing with a non-integer",
    }[k]
    return (t % tuple(a) if a else t) + "\n"


# ---- LSP positions of byte offsets (UTF-16 columns; lines end with LF, CRLF or CR), written from the LSP spec ----
def position_of(text, byte):
    line = col = 0
    b = 0
    i = 0
    n = len(text)
    while i < n and b < byte:
        c = text[i]
        if c == "\n":
            line, col = line + 1, 0
        elif c == "\r":
            if not (i + 1 < n and text[i + 1] == "\n"):
                line, col = line + 1, 0
        else:
            col += 2 if ord(c) >= 0x10000 else 1
        b += len(c.encode("utf-8"))
        i += 1
    return (line, col)


# ---- lexing with the real lexer: the byte spans of the non-comment tokens, and of the comments in front of each ----
def lex_cmd(text):
    return "1 " + " ".join(str(ord(c)) for c in text)


def token_table(line):
    """[(kind, start, end, start of the first comment directly in front)] of the non-comment tokens (Eof excluded);
    None when the lexer panicked"""
    r = enc.Reader(enc.nums(line))
    if r.get() != 0:
        return None
    out = []
    lead = None
    for t in enc.read_tokens(r):
        if t["kind"] == "Comment":
            if lead is None:
                lead = t["s"]
            continue
        if t["kind"] == "Eof":
            break
        out.append((t["kind"], t["s"], t["e"], lead if lead is not None else t["s"]))
        lead = None
    return out


# ---- documents ----
class Doc:
    __slots__ = ("stream", "text", "expect", "meta", "prog", "pending")

    def __init__(self, stream, text, expect=None, meta=None, prog=None, pending=None):
        self.stream, self.text, self.expect, self.meta, self.prog, self.pending = stream, text, expect, meta, prog, pending


def render(toks, rng, comments, newline="\n"):
    return splgen.render(toks, rng, comments=comments, newline=newline)


parameter_named_like_a_later_parameters_type = None  # moved to tools/navlib.py


def gen_docs(ctx, total):
    """the document streams, sized as fractions of `total`"""
    rng = ctx.rng
    docs = []
    nvalid = int(total * 0.13)
    progs = []
    import navlib
    for _ in range(nvalid):
        prog = semtest.well_typed(rng)
        if rng.random() < 0.4:
            # legal shadowing: a parameter / variable named like its procedure, a type (or `int`), another or a predefined
            # procedure - parameter types are resolved globally, variable types with the locals entered so far
            prog, _ = navlib.shadow_variants(prog, rng, p=0.6)
        if rng.random() < 0.35:
            prog = navlib.parameter_named_like_a_later_parameters_type(prog, rng) or prog
        progs.append(prog)
        toks = splgen.flatten(prog)
        docs.append(Doc("valid", render(toks, rng, 0.08, rng.choice(["\n", "\n", "\r\n"])), [], prog=prog))
        docs.append(Doc("valid", render(toks, rng, rng.choice([0.0, 0.3, 0.6]), rng.choice(["\n", "\r\n"])), [], prog=prog))
    # every applicable single fault of a subset, with and without comments
    nfault_progs = max(2, int(total * 0.5) // (2 * len(splfaults.ALL_INJECTORS)))
    for _ in range(nfault_progs):
        prog = semtest.well_typed(rng, ndecls=rng.randrange(1, 5))
        for inj in splfaults.ALL_INJECTORS:
            r = splfaults.inject_full(prog, rng, inj)
            if r is None:
                continue
            p, exps = r
            toks = splgen.flatten(p)
            for comments in (0.0, rng.choice([0.15, 0.4])):
                docs.append(Doc("fault", render(toks, rng, comments, rng.choice(["\n", "\n", "\r\n"])), None,
                                meta=inj.__name__, prog=p, pending=("sem", exps)))
    # single faults whose (missing) diagnosis is a listed known finding
    for fid, inj in sorted(splfaults.KNOWN_FINDING_INJECTORS.items()):
        for _ in range(max(4, total // 300)):
            prog = semtest.well_typed(rng, ndecls=rng.randrange(1, 4))
            r = splfaults.inject_full(prog, rng, inj)
            if r is None:
                continue
            p, exps = r
            docs.append(Doc("fault-known", render(splgen.flatten(p), rng, rng.choice([0.0, 0.2])), None,
                            meta=fid, prog=p, pending=("sem", exps)))
    for _ in range(int(total * 0.07)):
        prog = semtest.well_typed(rng, ndecls=rng.randrange(1, 4))
        r = splfaults.missing_token(prog, rng)
        if r is None:
            continue
        toks, kind, arg, before = r
        docs.append(Doc("syntax-fault", render(toks, rng, rng.choice([0.0, 0.0, 0.2])), None, meta=kind,
                        pending=("syn", (kind, arg, before, len(toks)))))
    # a deleted right operand: known finding C03-rhs-missing-operand (the diagnostic is published too far left)
    for _ in range(max(6, int(total * 0.03))):
        prog = semtest.well_typed(rng, ndecls=rng.randrange(1, 4))
        r = splfaults.missing_right_operand(prog, rng)
        if r is None:
            continue
        toks, kind, arg, before, inside_par = r
        docs.append(Doc("syntax-fault-known", render(toks, rng, rng.choice([0.0, 0.0, 0.2])), None, meta="C03-rhs-missing-operand",
                        pending=("syn", (kind, arg, before, len(toks)))))
    for _ in range(int(total * 0.10)):
        prog, _ = splgen.well_typed_program(rng, ndecls=rng.randrange(1, 4))
        r = splfaults.inject(prog, rng)
        if r is None:
            continue
        toks = splgen.damage(splgen.flatten(r[0]), rng, k=rng.choice([1, 1, 2, 3]))
        docs.append(Doc("fault+damage", splgen.render(toks, rng)))
    for _ in range(int(total * 0.13)):
        k, t = splgen.any_document(rng)
        docs.append(Doc("mixed-" + k, t))
    for _ in range(int(total * 0.02)):
        docs.append(Doc("unicode", splgen.random_unicode(rng, rng.randrange(0, 60))))
    for t in semtest.HAND:
        docs.append(Doc("hand", t))
        if t:
            docs.append(Doc("hand-cut", t[:rng.randrange(0, len(t))]))
    return docs


def resolve_expectations(docs, dump):
    """turns the culprit token spans of the fault documents into byte ranges, using the real lexer on the rendered text.
    Returns the number of documents whose rendering does not lex to the intended tokens (dropped from the oracle)."""
    idx = [i for i, d in enumerate(docs) if d.pending is not None]
    lines = common.run_lines(dump, [lex_cmd(docs[i].text) for i in idx])
    bad = 0
    for i, line in zip(idx, lines):
        d = docs[i]
        tab = token_table(line)
        what, data = d.pending
        if what == "sem":
            toks = splgen.flatten(d.prog)
            if tab is None or len(tab) != len(toks):
                bad += 1
                d.stream = "fault-unlexable"
                continue
            exp = []
            for kind, culprit in data:
                sp = splfaults.culprit_span(d.prog, culprit)
                if sp is None:
                    exp.append((kind, None, None))
                    continue
                (a, b), exact = sp
                start = tab[a][1] if exact else tab[a][3]
                exp.append((kind, (start, tab[b - 1][2]), " ".join(toks[a:b])))
            d.expect = exp
        else:
            kind, arg, before, ntoks = data
            if tab is None or len(tab) != ntoks:
                bad += 1
                d.stream = "fault-unlexable"
                continue
            d.expect = [(kind, (tab[before][2], tab[before][2]), arg)]
    return bad


def check_expect(d, errs):
    """None when the diagnostics `errs` ([(s, e, msg)]) are exactly the expected ones, else a description"""
    if errs is None:
        return "panic"
    obs = sorted((m[0], s, e, m[1:]) for s, e, m in errs)
    exp = sorted(d.expect, key=lambda x: (x[0], x[1] or (-1, -1)))
    if len(obs) != len(exp):
        return "expected %d diagnostic(s), got %d" % (len(exp), len(obs))
    left = list(obs)
    for kind, rng_, extra in exp:
        hit = None
        for o in left:
            if o[0] == kind and (rng_ is None or (o[1], o[2]) == rng_):
                hit = o
                break
        if hit is None:
            return "no %s at %s" % (kind, rng_)
        left.remove(hit)
        if d.stream == "fault" and kind in NAMED and hit[3][0] != extra:
            return "%s quotes %r, the culprit is %r" % (kind, hit[3][0], extra)
        if d.stream in ("syntax-fault", "syntax-fault-known") and extra is not None and hit[3][0] != extra:
            return "%s names %r, expected %r" % (kind, hit[3][0], extra)
    return None


def inside(text_bytes, s, e):
    n = len(text_bytes)
    if not (0 <= s <= e <= n):
        return False
    for p in (s, e):
        if p < n and (text_bytes[p] & 0xC0) == 0x80:
            return False
    return True


# ---- LSP ----
def lsp_batch(exe, batch, tag):
    """[(index, diagnostics | None)] - publishDiagnostics after didOpen, one document after the other"""
    s = lspclient.Server(exe)
    out = []
    try:
        s.initialize(diagnostics=True)
        for k, (i, text) in enumerate(batch):
            uri = "file:///%s_%d.spl" % (tag, k)
            s.open(uri, text)
            got = None
            try:
                while True:
                    m = s.read_msg(timeout=5.0)
                    if m is None:
                        break
                    if m.get("method") == "textDocument/publishDiagnostics" and m["params"]["uri"] == uri:
                        got = m["params"]["diagnostics"]
                        break
            except queue.Empty:
                got = None
            out.append((i, got))
            s.close(uri)
            if got is None:
                break
    finally:
        s.kill()
    return out


def lsp_expected(text, errs):
    return [dict(message=show(m), start=position_of(text, s), end=position_of(text, e)) for s, e, m in errs]


def lsp_observed(diags):
    return [dict(message=d["message"], start=(d["range"]["start"]["line"], d["range"]["start"]["character"]),
                 end=(d["range"]["end"]["line"], d["range"]["end"]["character"])) for d in diags]


def lsp_check(ctx, exe, docs, impl_errs, pick):
    """compares publishDiagnostics with errors() for the documents `pick`; returns (compared, violations reported)"""
    from concurrent.futures import ThreadPoolExecutor
    chunk = 120
    parts = [pick[i:i + chunk] for i in range(0, len(pick), chunk)]
    rows = []
    with ThreadPoolExecutor(4) as ex:
        for r in ex.map(lambda kp: lsp_batch(exe, [(i, docs[i].text) for i in kp[1]], "d%d" % kp[0]), list(enumerate(parts))):
            rows += r
    compared, bad, mute = 0, [], []
    for i, got in rows:
        if impl_errs[i] is None:
            continue
        if got is None:
            mute.append(i)
            continue
        compared += 1
        if lsp_observed(got) != lsp_expected(docs[i].text, impl_errs[i]):
            bad.append((i, got))
    reported = 0
    for i, got in sorted(bad, key=lambda x: len(docs[x[0]].text))[:2]:
        ctx.violation(dict(kind="oracle", property="C03", part="d: publishDiagnostics", text=docs[i].text, stream=docs[i].stream,
                           observed=lsp_observed(got), expected=lsp_expected(docs[i].text, impl_errs[i]),
                           what="publishDiagnostics after didOpen differs from errors() (messages / LSP positions of the byte ranges)"))
        reported += 1
    for i in sorted(mute, key=lambda i: len(docs[i].text))[:2]:
        # no notification: confirm with three fresh processes (DESIGN.md "No alarms from timing")
        again = [lsp_batch(exe, [(i, docs[i].text)], "re%d" % k) for k in range(3)]
        if all(a and a[0][1] is None for a in again):
            ctx.violation(dict(kind="oracle", property="C03", part="d: publishDiagnostics", text=docs[i].text,
                               what="no publishDiagnostics for this document in three fresh server processes (the library does "
                                    "not panic on it: the server lost the notification or died)"))
            reported += 1
    return compared, len(bad), len(mute), reported


# ---- corpus ----
def corpus_docs():
    d = os.path.join(common.VERIF, "corpus", "C03")
    out = []
    if os.path.isdir(d):
        for f in sorted(os.listdir(d)):
            if f.endswith(".json"):
                c = json.load(open(os.path.join(d, f)))
                exp = [(k, (s, e), None) for s, e, k in c["expect"]]
                out.append(Doc("corpus", c["text"], exp, meta="corpus/C03/" + f))
    return out


def run(ctx):
    thorough = ctx.thorough()
    proved = common.proof_stage(ctx)
    ctx.level = "proof" if proved else "other"
    judge, jlog = common.build_judge()
    bindir, hlog = common.build_harness()
    exe, slog = common.build_server()
    if bindir is None or exe is None:
        ctx.violation(dict(kind="build-failure", what="the harness / lsp4spl does not build", log=((hlog if bindir is None else slog) or "")[-3000:]),
                      no_input=True)
        return
    impl = os.path.join(bindir, "dump_sem")
    dump = os.path.join(bindir, "dump")

    docs = corpus_docs()
    ncorpus = len(docs)
    docs += gen_docs(ctx, 30000 if thorough else 3000)
    unlexable = resolve_expectations(docs, dump)
    lines = [semtest.cmd(d.text) for d in docs]
    impl_out = common.run_lines(impl, lines)
    impl_errs = [semtest.read_errors(o) for o in impl_out]

    # ---------------- oracle on the implementation alone ----------------
    known = common.load_known_findings("C03")
    known_ids = set(e.get("id") for e in known)
    known_hits, known_gone = collections.defaultdict(list), collections.Counter()
    fails = collections.defaultdict(list)        # part -> [(index, why)]
    for i, d in enumerate(docs):
        errs = impl_errs[i]
        if errs is None:
            fails["panic"].append((i, "AnalyzedSource::new / errors() panicked"))
            continue
        b = d.text.encode("utf-8")
        for s, e, m in errs:
            if not inside(b, s, e):
                fails["c"].append((i, "range %d..%d of %s is not inside the document (%d bytes) / not on a character boundary" % (s, e, m[0], len(b))))
                break
        if d.expect is not None:
            why = check_expect(d, errs)
            if why is not None and d.stream == "fault-known" and d.meta in known_ids and errs == []:
                # the listed finding: the one prescribed diagnostic is missing, nothing else is reported
                known_hits[d.meta].append(i)
            elif why is not None and d.stream == "syntax-fault-known" and d.meta in known_ids and errs is not None \
                    and len(errs) == 1 and errs[0][2][0] == d.expect[0][0] and errs[0][0] == errs[0][1] \
                    and errs[0][0] < d.expect[0][1][0]:
                # the listed finding: exactly the prescribed diagnostic, with an empty range, LEFT of the prescribed place
                known_hits[d.meta].append(i)
            elif why is not None:
                fails["a" if d.stream == "valid" else "corpus" if d.stream == "corpus" else "b"].append((i, why))
            elif d.stream in ("fault-known", "syntax-fault-known"):
                known_gone[d.meta] += 1
    reported = 0
    parts = {"a": "a: a well-typed program gets a diagnostic", "b": "b: a single-fault variant does not get exactly the prescribed diagnostic(s) on the culprit",
             "c": "c: a published range is outside the document or splits a character", "corpus": "corpus: a repaired defect is back",
             "panic": "the analysis panics"}
    for part in ("corpus", "a", "b", "c", "panic"):
        seen_meta = set()
        for i, why in sorted(fails[part], key=lambda x: len(docs[x[0]].text)):
            d = docs[i]
            if (part, d.meta) in seen_meta or len([1 for p, _ in seen_meta if p == part]) >= 3:
                continue
            seen_meta.add((part, d.meta))
            ctx.violation(dict(kind="oracle", property="C03", part=parts[part], why=why, text=d.text, stream=d.stream, fault=d.meta,
                               expected=[dict(kind=k, bytes=r, culprit=x) for k, r, x in d.expect] if d.expect is not None else None,
                               observed=[dict(kind=m[0], args=list(m[1:]), bytes=[s, e], covers=d.text.encode("utf-8")[s:e].decode("utf-8", "replace"))
                                         for s, e, m in (impl_errs[i] or [])]))
            reported += 1

    # ---------------- (e) along edit histories ----------------
    from props import c01
    hists = c03hist.histories(ctx.rng, 4000 if thorough else 700)
    hlines = [c01.hist_line(t, ns) for _, _, t, ns in hists]
    himpl = common.run_lines(os.path.join(bindir, "dump_hist"), hlines)
    hmodel = common.run_lines(judge, hlines) if judge else [""] * len(hlines)
    hstats, hist_known, hist_bad, hist_mism = collections.Counter(), [], [], []
    for i, (shape, kind, t, ns) in enumerate(hists):
        ni, nm = c01.parse_impl(himpl[i]), c01.parse_model(hmodel[i])
        st, why = c01.judge_history(ni, nm) if judge else ("ok", None)
        diag_diverges = any(len(p) == 3 and p[0] == 0 and not p[1][4] for p in ni) or any(p[0] == 1 for p in ni)
        hstats[st] += 1
        if st == "violation":
            hist_bad.append((i, why))
        elif st == "mismatch":
            hist_mism.append((i, why))
        elif st == "known" and diag_diverges:
            hist_known.append(i)
    for i, why in sorted(hist_bad, key=lambda x: len(hlines[x[0]]))[:2]:
        shape, kind, t, ns = hists[i]
        ctx.violation(dict(kind="oracle", property="C03", part="e: diagnostics after an edit history differ from those of the resulting text",
                           why=why, history_shape=shape, fault=kind, text=t, notifications=ns, command=hlines[i],
                           encoding="see harness/src/bin/dump_hist.rs; replay with ./check C03 --replay"))
        reported += 1
    if hist_known and "C03-incparse-diagnostics" not in known_ids:
        i = hist_known[0]
        ctx.violation(dict(kind="oracle", property="C03", part="e: diagnostics after an edit history differ (predicted by the model) "
                           "but known_findings.jsonl has no entry C03-incparse-diagnostics", text=hists[i][2], notifications=hists[i][3],
                           command=hlines[i]))
        reported += 1

    # ---------------- (d) over LSP ----------------
    nlsp = 1500 if thorough else 240
    cand = [i for i in range(len(docs)) if impl_errs[i] is not None]
    prio = [i for i in cand if docs[i].stream in ("corpus", "hand") or any(ord(c) > 127 for c in docs[i].text) or "\r" in docs[i].text]
    ctx.rng.shuffle(prio)
    rest = [i for i in cand if i not in set(prio[:nlsp // 2])]
    pick = prio[:nlsp // 2] + ctx.rng.sample(rest, min(len(rest), nlsp - min(len(prio), nlsp // 2)))
    lsp_compared, lsp_bad, lsp_mute, r = lsp_check(ctx, exe, docs, impl_errs, pick)
    reported += r

    # ---------------- correspondence: the model predicts errors() and the table on every document ----------------
    mism, kfail, nk = [], [], 0
    if judge:
        model_out = common.run_lines(judge, lines)
        mism = [i for i in range(len(docs)) if model_out[i] != impl_out[i]]
        short = [i for i in range(len(docs)) if len(docs[i].text) <= 140 and i not in set(mism)]
        by_stream = collections.defaultdict(list)
        for i in short:
            by_stream[docs[i].stream].append(i)
        ksel = list(range(ncorpus))
        want = 120 if thorough else 40
        while len(ksel) < want and any(by_stream.values()):
            for k in sorted(by_stream):
                if by_stream[k] and len(ksel) < want:
                    j = by_stream[k].pop(ctx.rng.randrange(len(by_stream[k])))
                    if j not in ksel:
                        ksel.append(j)
        kc = [(enc.nums(lines[i]), enc.nums(impl_out[i])) for i in ksel]
        nk = len(kc)
        try:
            kfail = [ksel[j] for j in common.kernel_judge("C03", kc, shard=4)]
        except RuntimeError as e:
            kfail = []
            ctx.violation(dict(kind="correspondence", property="C03", what="kernel judge failed to run", detail=str(e)[-1500:]), no_input=True)
    if not reported and hist_mism:
        i, why = sorted(hist_mism, key=lambda x: len(hlines[x[0]]))[0]
        ctx.violation(dict(kind="correspondence", property="C03", what="model UpdateDoc.update_doc and AnalyzedSource::update differ on an "
                           "introduce/repair history: " + str(why), text=hists[i][2], notifications=hists[i][3], command=hlines[i],
                           impl=himpl[i][:2000], model=hmodel[i][:2000], mismatches=len(hist_mism)), no_input=True)
        reported += 1
    if not reported:
        if mism or kfail:
            i = sorted(mism + kfail, key=lambda i: len(docs[i].text))[0]
            t = docs[i].text
            ctx.violation(dict(kind="correspondence", property="C03", what="model (judge command 8: new + errors() + table) and implementation differ",
                               text=t, stream=docs[i].stream, model=(model_out[i][:600] if judge else None), impl=impl_out[i][:600],
                               model_errors=semtest.read_errors(model_out[i]) if model_out[i].split()[0] == "0" else model_out[i][:20],
                               impl_errors=impl_errs[i], mismatches=len(mism), kernel_failures=len(kfail)), no_input=True)
        elif judge is None or not proved:
            ctx.violation(dict(kind="proof", property="C03", detail=getattr(ctx, "proof_failure", (jlog or "")[-2000:])), no_input=True)
    if hist_known and "C03-incparse-diagnostics" in known_ids:
        i = min(hist_known, key=lambda i: len(hlines[i]))
        ctx.known("C03-incparse-diagnostics after an incremental update whose tree diverges from the scratch parse exactly as the model of "
                  "the pinned algorithm predicts (C01-incparse) errors() differs from a fresh analysis: %d of %d introduce/repair histories, "
                  "e.g. %r + %r" % (len(hist_known), len(hists), hists[i][2][:120], hists[i][3]))
    for e in known:
        hits = known_hits.get(e.get("id"), [])
        if hits:
            i = min(hits, key=lambda i: len(docs[i].text))
            ctx.known("%s %s: %d of %d probes, e.g. %r" % (e.get("id", ""), e.get("class", ""), len(hits),
                                                            len(hits) + known_gone[e.get("id")], docs[i].text[:200]))

    # ---------------- evidence ----------------
    per = collections.Counter(d.stream for d in docs)
    hist = collections.Counter()
    for errs in impl_errs:
        for s, e, m in errs or []:
            hist[m[0]] += 1
    fault_kinds = collections.Counter()
    comment_faults = 0
    for d in docs:
        if d.stream in ("fault", "syntax-fault"):
            for k, _, _ in d.expect:
                fault_kinds[k] += 1
            if "//" in d.text:
                comment_faults += 1
    nontrivial = set()
    for i, d in enumerate(docs):
        if len(d.text) >= 20 and (d.expect or (impl_errs[i] or [])) or d.stream == "valid":
            nontrivial.add(d.text)
    samples = []
    for st in ("valid", "fault", "syntax-fault", "fault+damage"):
        c = [i for i, d in enumerate(docs) if d.stream == st]
        if c:
            i = min(c, key=lambda i: len(docs[i].text))
            samples.append(dict(stream=st, fault=docs[i].meta, text=docs[i].text,
                                expected=docs[i].expect, observed=[[s, e] + list(m) for s, e, m in (impl_errs[i] or [])]))
    ctx.cov["edit_histories"] = dict(histories=len(hists), status=dict(hstats), diagnostics_diverge_as_predicted=len(hist_known),
                                     shapes=dict(collections.Counter(h[0] for h in hists)),
                                     fault_kinds=dict(collections.Counter(h[1] for h in hists)))
    ctx.cov.update({
        "evaluations": len(docs) + len(hists),
        "distinct_nontrivial": len(nontrivial),
        "rule": "documents: corpus/C03 ; well-typed programs (splgen.well_typed_program minus programs whose locals shadow a type name) x 2 layouts "
                "(random whitespace, comment lines in gaps, LF/CRLF) ; for a subset every applicable injector of tools/splfaults.py (27 message kinds + "
                "2 unary-minus faults), each rendered without and with comments ; one deleted closing token (`;`, `)`) ; fault + token damage ; the "
                "malformed stream (splgen.any_document, random unicode, hand-written edge cases and their prefixes).  non-trivial = distinct texts that "
                "are well-typed programs, or >= 20 chars with an expectation or at least one diagnostic",
        "input_histogram": dict(per),
        "fault_expectations_by_kind": dict(sorted(fault_kinds.items())),
        "fault_documents_with_comments": comment_faults,
        "fault_documents_dropped_unlexable_rendering": unlexable,
        "implementation_diagnostics_by_kind": dict(sorted(hist.items())),
        "corpus_documents": ncorpus,
        "oracle_failures": {k: len(v) for k, v in fails.items()},
        "known_finding_probes": {k: dict(still_failing=len(v), passing=known_gone[k]) for k, v in known_hits.items()},
        "traces_validated_against_impl": len(docs) if judge else 0,
        "kernel_judge_cases": nk,
        "correspondence_mismatches": len(mism) + len(kfail),
        "lsp_documents_compared": lsp_compared, "lsp_mismatches": lsp_bad, "lsp_no_notification": lsp_mute,
        "samples": samples,
        "explanation":
            "PROVED (Props/C03.v, %d theorems, closed, for ALL syntax trees and symbol tables, no parser involved): the analysis algorithm " % len(ctx.cov.get("theorems", []))
            +
            "(models of table::build, table::analyze, ast::error_container, AnalyzedSource::errors) against a declarative static semantics of SPL "
            "(Spec/Typing.v): no false positive for declarations (C03_build_sound, with the table mapping every declared name to its own "
            "declaration: C03_build_table) and for bodies (C03_analyze_sound); no false negative for bodies (C03_analyze_complete; "
            "C03_analyze_exact: analyze attaches nothing IFF all bodies are well-typed, for well-formed declarations); per rule, a node violating "
            "exactly one premise gets exactly that rule's message at the node the rule names with that node's range (18 semantic + 10 "
            "declaration rules, C03_rule_*); exactly one fault => exactly one diagnostic: a statement that is well-typed except for one "
            "violated premise at ANY depth (Spec/Typing.v fault_stmt: 17 semantic kinds + unary minus) gets exactly the prescribed error, "
            "also for whole trees (C03_single_fault_stmt, C03_single_fault_program); localisation: errors() is exactly the attached errors, each shifted by the sum of the offsets of the "
            "enclosing References (C03_localisation) and mapped to start-of-first .. end-of-last token (C03_published_range); errors() cannot "
            "fail if the collected ranges lie in the token vector (C03_ranges_inside, hypothesis explicit).  With C04's round-trip theorem: every "
            "TEXT that lexes to the tokens of a well-typed abstract program (comments in any gap) gets no diagnostic (C03_no_false_positive; the "
            "lexer's output is a hypothesis), and every text that lexes to a program with exactly one semantic fault in a body gets exactly that one "
            "diagnostic with the byte range of its tokens (C03_single_semantic_fault, C03_statement_semantic).  The same for the 10 DECLARATION rules "
            "(Proofs/DeclFaults*.v: decl_fault_program, one constructor per rule - undefined type / not a type / redeclaration as type, procedure, "
            "parameter, variable / must be a reference parameter / main missing / main not a procedure / main with parameters - the rest of the "
            "program valid w.r.t. the table the faulty declaration leaves): exactly the prescribed diagnostic(s), at tree level "
            "(C03_single_declaration_fault) and from texts on (C03_single_declaration_fault_text, C03_main_is_missing_text, "
            "C03_main_is_not_a_procedure_text), hence C03_statement_declaration and C03_full_statement_declaration: the statement of the property "
            "for all the rule classes it lists.  NOT PROVED: missing-token SYNTAX faults (no Coq definition; not among the rules the property "
            "lists), programs that USE an entity whose type is unknown because of the fault (the model suppresses follow-up errors; evaluated only), "
            "and the lexer side (text of a layout -> tokens: C06); these are validated below.  VALIDATED by this run: the models agree with the "
            "implementation on every generated document (extracted judge) and on a sample in the kernel; the oracle checks on the "
            "implementation itself that well-typed programs get no diagnostic, each single-fault variant gets exactly the prescribed "
            "diagnostic(s) with the byte range of the culprit (leading comments of statement/expression nodes included, names bare), all "
            "ranges lie inside the document on character boundaries, and publishDiagnostics carries the same messages at the LSP positions.",
    })
    ctx.assumptions = [
        "the lexer maps a rendered program to the intended tokens (checked per fault document with the real lexer; C06 is about the lexer)",
        "the theorems' single-fault variants are the Coq relations fault_program (semantic rules) and decl_fault_program (declaration rules); "
        "the oracle's variants and culprit spans are defined independently by tools/splfaults.py",
        "MainIsMissing has no offending construct: only 'inside the document' is required of its range",
        "statement/expression diagnostics cover the node including the comments directly in front of it (the parser's node ranges, C04)",
        "serde/lsp-types JSON mapping trusted; positions compared with an LSP-spec position function written in python (the model of "
        "document.rs as_position is C08's)",
    ]
    if thorough and proved:
        if not common.coqchk(ctx):
            ctx.violation(dict(kind="proof", property="C03", detail="coqchk failed or reports axioms", out=ctx.cov.get("coqchk")), no_input=True)


def replay(ctx, path):
    r = json.load(open(path))
    if str(r.get("command", "")).startswith("17 "):
        from props import c01
        return c01.replay(ctx, path)
    if "text" not in r:
        print(json.dumps(r, indent=1))
        return 1
    bindir, _ = common.build_harness()
    judge, _ = common.build_judge()
    text = r["text"]
    line = semtest.cmd(text)
    out = common.run_lines(os.path.join(bindir, "dump_sem"), [line])[0]
    errs = semtest.read_errors(out)
    print("text:     %r" % text)
    print("observed: %s" % [(s, e, text.encode("utf-8")[s:e].decode("utf-8", "replace")) + tuple(m) for s, e, m in (errs or [])])
    ok = errs is not None
    if r.get("expect") is not None or r.get("expected") is not None:
        exp = r.get("expect") or [[x["bytes"][0], x["bytes"][1], x["kind"]] if x.get("bytes") else [None, None, x["kind"]] for x in r["expected"]]
        print("expected: %s" % exp)
        d = Doc("replay", text, [(k, (s, e) if s is not None else None, None) for s, e, k in exp])
        ok = ok and check_expect(d, errs) is None
    if errs is not None:
        b = text.encode("utf-8")
        ok = ok and all(inside(b, s, e) for s, e, _ in errs)
    if judge:
        m = common.run_lines(judge, [line])[0]
        print("model agrees with the implementation: %s" % (m == out))
        ok = ok and m == out
    if r.get("part", "").startswith("d:"):
        exe, _ = common.build_server()
        got = lsp_batch(exe, [(0, text)], "replay")
        obs = lsp_observed(got[0][1]) if got and got[0][1] is not None else None
        print("publishDiagnostics: %s\nexpected:           %s" % (obs, lsp_expected(text, errs or [])))
        ok = ok and obs == lsp_expected(text, errs or [])
    return 0 if ok else 1
