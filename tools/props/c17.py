"""C17 - folding ranges match procedure extents."""
import collections
import json
import os
import time

import common
import enc
import hoverlib as H
import splgen


def gen_case(rng):
    prog, _ = splgen.well_typed_program(rng, ndecls=rng.choice([1, 2, 3, 3, 4, 5, 6, 8]))
    family = "well-typed"
    r = rng.random()
    case = H.Case(prog, rng, newline=rng.choice(["\n", "\n", "\r\n"]), dense=r < 0.12,
                  p_comment=rng.choice([0.0, 0.05, 0.15]), p_doc=rng.choice([0.2, 0.6, 0.95]), p_hot=0.05, family=family)
    if rng.random() < 0.3:
        mix_line_ends(case, rng)
    return case


def mix_line_ends(case, rng):
    """mixed line terminators in one document: some LF (not the ones that end a comment) become a lone CR - same length,
    same lines under the LSP line model, so token offsets and expected lines stay what they are"""
    t = list(case.text)
    line_has_comment = False
    for i, c in enumerate(t):
        if c == "/" and i + 1 < len(t) and t[i + 1] == "/":
            line_has_comment = True
        if c == "\n":
            if not line_has_comment and (i == 0 or t[i - 1] != "\r") and rng.random() < 0.5:
                t[i] = "\r"
            line_has_comment = False
    case.text = "".join(t)
    case.mixed = True
    case.geo = H.Geometry(case.text)


def scramble(case, rng):
    """a syntactically valid (generally ill-typed) variant: identifiers replaced at random; same token structure and
    layout class (re-rendered)"""
    toks = list(case.tokens)
    for o in case.occs:
        if rng.random() < 0.4:
            toks[o["tok"]] = rng.choice(splgen.IDENT_POOL + ["int", "main", "printi"])
    c2 = object.__new__(H.Case)
    c2.__dict__.update(case.__dict__)
    c2.tokens = toks
    c2.family = "syntactically-valid-scrambled-names"
    c2.mixed = False
    c2.text, c2.spans, c2.gap_comments = H.render(toks, rng, case.doc_gaps, (), case.newline, 0.05, 0.5, 0.0,
                                                 rng.random() < 0.1)
    c2.geo = H.Geometry(c2.text)
    return c2


def one_line_layout(case, rng):
    """several procedures on ONE line: single blanks between the tokens, no comments"""
    c2 = object.__new__(H.Case)
    c2.__dict__.update(case.__dict__)
    c2.family = "all-on-one-line"
    out, spans, n, prev = [], [], 0, ""
    for t in case.tokens:
        gap = " " if (prev and (rng.random() < 0.7 or splgen.needs_sep(prev, t))) else ""
        out.append(gap + t)
        n += len(gap)
        spans.append((n, n + len(t)))
        n += len(t)
        prev = t
    c2.text, c2.spans = "".join(out), spans
    c2.gap_comments = [[] for _ in range(len(case.tokens) + 1)]
    c2.geo = H.Geometry(c2.text)
    return c2


def unclosed(case, rng):
    """ONE procedure (not the last declaration) loses its closing brace - the character is blanked, so every offset and line
    stays what it is.  Error recovery resynchronises at the next declaration: the damaged procedure ends with its last
    remaining token, all other ranges are unchanged.  Returns (text, expected ranges) or None"""
    procs = [k for k, inf in enumerate(case.infos) if inf["kind"] == "proc" and k + 1 < len(case.infos)]
    if not procs:
        return None
    k = rng.choice(procs)
    rb = case.infos[k]["rbrace"]
    s, e = case.spans[rb]
    text = case.text[:s] + " " * (e - s) + case.text[e:]
    want = []
    for j, inf in enumerate(case.infos):
        if inf["kind"] != "proc":
            continue
        a = case.geo.pos[case.spans[inf["start"]][0]][0]
        b = case.geo.pos[case.spans[inf["rbrace"] - 1 if j == k else inf["rbrace"]][1]][0]
        want.append((a, b))
    return text, want


def fold_ranges(res):
    """[(start, end)] from the JSON answer, or None"""
    try:
        return [(f["startLine"], f["endLine"]) for f in res]
    except (KeyError, TypeError):
        return None


def load_corpus():
    out = []
    cdir = os.path.join(common.VERIF, "corpus", "C17")
    if os.path.isdir(cdir):
        for f in sorted(os.listdir(cdir)):
            if f.endswith(".json"):
                c = json.load(open(os.path.join(cdir, f)))
                c["file"] = f
                out.append(c)
    return out


def observe(exe, texts, tag="c17"):
    docs = [(t, [(2, 0, 0)]) for t in texts]
    return [r[0] for r in H.run_parallel(exe, docs, workers=6, chunk=40, tag=tag)]


def model(judge, texts):
    """-> [(encoding string without the predicate flag, flag)]"""
    outs = H.run_lines_par(judge, [("42 " + H.text_nums_str(t)).strip() for t in texts])
    res = []
    for o in outs:
        ns = o.split()
        if ns[:1] in (["0"], ["1"]) and len(ns) >= 2:
            res.append((" ".join(ns[:-1]), int(ns[-1])))
        else:
            res.append((o, None))
    return res


def run(ctx):
    rng = ctx.rng
    timings, t_last = {}, [time.time()]

    def lap(name):
        timings[name] = round(time.time() - t_last[0], 1)
        t_last[0] = time.time()

    proved = common.proof_stage(ctx)
    lap("proof_stage")
    exe, log = common.build_server()
    if exe is None:
        ctx.violation(dict(kind="build-failure", what="lsp4spl does not build", log=log[-3000:]), no_input=True)
        return
    judge, jlog = common.build_judge()
    lap("builds")
    violations = 0
    hist = collections.Counter()

    # ---- corpus
    corpus = load_corpus()
    ctexts = [c["text"] for c in corpus]
    cres = observe(exe, ctexts, "c17c") if ctexts else []
    cmod = model(judge, ctexts) if (judge and ctexts) else []
    corr_fail = []
    for i, c in enumerate(corpus):
        got = fold_ranges(cres[i]) if cres[i] != H.MUTE else H.MUTE
        if "expect" in c and got != [tuple(x) for x in c["expect"]]:
            violations += 1
            ctx.violation(dict(kind="oracle", property="C17", corpus=c["file"], text=c["text"], observed=cres[i],
                               expected=c["expect"], what=c.get("what", "")))
        if judge and H.nums_str(H.enc_fold_json(cres[i])) != cmod[i][0]:
            corr_fail.append(("corpus", i))

    # ---- syntactically valid programs x layouts: exact oracle
    n = 8000 if ctx.thorough() else 1500
    cases = []
    for _ in range(n):
        c = gen_case(rng)
        r = rng.random()
        if r < 0.2:
            c = scramble(c, rng)
        elif r < 0.3:
            c = one_line_layout(c, rng)
        cases.append(c)
    lap("generate")
    res = observe(exe, [c.text for c in cases])
    lap("server_valid")
    mod = model(judge, [c.text for c in cases]) if judge else None
    lap("judge_valid")
    oracle_fail, nontrivial, pre_false = [], set(), []
    for i, c in enumerate(cases):
        hist["family:" + c.family] += 1
        hist["newline:" + ("mixed" if getattr(c, "mixed", False) else "crlf" if c.newline == "\r\n" else "lf")] += 1
        want = H.fold_expected(c)
        hist["procs:%d" % min(len(want), 6)] += 1
        if any(c.gap_comments[inf["start"]] for inf in c.infos if inf["kind"] == "proc"):
            hist["with-doc-comment-before-proc"] += 1
        lines_used = [s for s, _ in want]
        if len(set(lines_used)) < len(lines_used) or any(want[k][1] == want[k + 1][0] for k in range(len(want) - 1)):
            hist["several-procedures-per-line"] += 1
        if any(s != e for s, e in want):
            nontrivial.add(c.text)
        got = res[i]
        if got == H.MUTE or not isinstance(got, list):
            oracle_fail.append((i, "no response (server mute)" if got == H.MUTE else "unexpected answer %r" % (got,)))
            continue
        rs = fold_ranges(got)
        if rs != want:
            oracle_fail.append((i, "ranges %r, expected %r (line of `proc` .. line of the closing brace per procedure)" % (rs, want)))
        else:
            w = H.fold_wellformed(rs, c.geo.last_line())
            if w or any(f.get("kind") != "region" for f in got):
                oracle_fail.append((i, w or "kind is not region"))
        if mod is not None:
            if H.nums_str(H.enc_fold_json(got)) != mod[i][0]:
                corr_fail.append(("valid", i))
            if mod[i][1] == 0:
                pre_false.append(("valid", i))
    oracle_fail.sort(key=lambda f: len(cases[f[0]].text))
    for i, err in oracle_fail[:3]:
        c = cases[i]
        if res[i] == H.MUTE and not H.confirm_mute(exe, c.text, (2, 0, 0)):
            hist["unconfirmed-mute"] += 1
            continue
        violations += 1
        ctx.violation(dict(kind="oracle", property="C17", text=c.text, family=c.family, observed=res[i],
                           expected=[list(x) for x in H.fold_expected(c)], what=err))
    lap("oracle")

    # ---- all documents: well-formedness
    nmal = 20000 if ctx.thorough() else 4000
    mtexts, mkinds = [], collections.Counter()
    for _ in range(nmal):
        kind, text = splgen.any_document(rng)
        mkinds[kind] += 1
        mtexts.append(text)
    for t in ["", "\n", "proc", "proc main", "proc main() {", "// c\nproc", "proc\n\n//x", "}\nproc p(){\n}\n}", "proc a(){}proc b(){}\nproc c(){\n}",
              "type t = int;", "proc p() {\r\n}\r\nproc q() {\r}\r", "\ufeffproc a() {\n}\nproc b() {\n}\nproc main() {\n}\n",
              "\ufeff// doc\nproc a()\n{\n}\n\u00a0proc b() {\n\n}", "proc é() {\n}", "proc p() { // 😀\n}\n// tail"]:
        mtexts.append(t)
        mkinds["hand-written"] += 1
    # a procedure without its closing brace in front of another (documented) declaration: exact expectation
    unclosed_want = {}
    for c in cases[:(2000 if ctx.thorough() else 500)]:
        if getattr(c, "mixed", False) or c.family != "well-typed":
            continue
        u = unclosed(c, rng)
        if u is not None:
            unclosed_want[len(mtexts)] = u[1]
            mtexts.append(u[0])
            mkinds["unclosed-procedure"] += 1
    # deep nesting: exact expectation.  The recursion of the parser is bounded by the 64 MiB thread stack only; in the debug build
    # that is about 2500 nested blocks and fewer than 1000 nested if / while statements (a resource limit, DESIGN 10.6), so blocks
    # go to 1300 levels here and if / while to 400
    for depth in [30, 400, 999, 1000, 1001, 1024] + [rng.randrange(1002, 1300) for _ in range(4 if ctx.thorough() else 1)]:
        opener = rng.choice(["{", "if (1 = 1) {", "while (1 = 1) {"]) if depth <= 400 else "{"
        t = ("proc deep() {\n" + (opener + "\n") * depth + "}\n" * depth + "}\n// doc\nproc main() {\n}\n")
        unclosed_want[len(mtexts)] = [(0, 2 * depth + 1), (2 * depth + 3, 2 * depth + 4)]
        mtexts.append(t)
        mkinds["deep-nesting"] += 1
    mres = observe(exe, mtexts, "c17m")
    lap("server_malformed")
    mmod = model(judge, mtexts) if judge else None
    lap("judge_malformed")
    wf_fail = []
    for i, t in enumerate(mtexts):
        got = mres[i]
        if got == H.MUTE or not isinstance(got, list):
            wf_fail.append((i, "no response (server mute)" if got == H.MUTE else "unexpected answer %r" % (got,)))
        else:
            rs = fold_ranges(got)
            hist["malformed-ranges:%d" % min(len(rs), 4)] += 1
            w = "unexpected shape" if rs is None else H.fold_wellformed(rs, H.Geometry(t).last_line())
            if not w and i in unclosed_want and rs != unclosed_want[i]:
                w = ("ranges %r, expected %r: every procedure reaches from the line of `proc` to the line of its closing brace (deep "
                     "nesting), and a procedure that lost its closing brace ends on the line of its last remaining token, "
                     "the other procedures keep their extents" % (rs, unclosed_want[i]))
            if w:
                wf_fail.append((i, w))
        if mmod is not None:
            if H.nums_str(H.enc_fold_json(got)) != mmod[i][0]:
                corr_fail.append(("malformed", i))
            if mmod[i][1] == 0:
                pre_false.append(("malformed", i))
    wf_fail.sort(key=lambda f: len(mtexts[f[0]]))
    for i, err in wf_fail[:3]:
        if mres[i] == H.MUTE and not H.confirm_mute(exe, mtexts[i], (2, 0, 0)):
            hist["unconfirmed-mute"] += 1
            continue
        violations += 1
        ctx.violation(dict(kind="oracle", property="C17", text=mtexts[i], observed=mres[i],
                           what="folding ranges are not well-formed / not the procedures' extents: " + err))

    # ---- kernel judge on short documents
    nk, kfail, cases_k = 0, [], []
    if judge:
        short = [(t, r) for t, r in zip(mtexts, mres) if len(t) <= 160] + [(c.text, r) for c, r in zip(cases, res) if len(c.text) <= 200]
        rng.shuffle(short)
        short = short[:(400 if ctx.thorough() else 140)]
        for (t, r), mm in zip(short, model(judge, [t for t, _ in short])):
            cases_k.append(([42] + [ord(ch) for ch in t], H.enc_fold_json(r) + ([mm[1]] if mm[1] is not None else [])))
        nk = len(cases_k)
        kfail = common.kernel_judge("C17", cases_k)
    lap("kernel_judge")

    # the hypothesis of the proved well-formedness theorem must hold on what the pipeline produces
    if pre_false and not violations:
        where, i = pre_false[0]
        text = cases[i].text if where == "valid" else mtexts[i]
        violations += 1
        ctx.violation(dict(kind="correspondence", property="C17", text=text,
                           what="the model's document for this text violates fold_pre (token ranges in text order, procedure "
                                "token ranges in bounds / ordered / containing a non-comment token): the hypothesis of "
                                "C17_wellformed does not cover it", count=len(pre_false)), no_input=True)
    if not violations:
        if corr_fail or kfail:
            if corr_fail:
                where, i = corr_fail[0]
                text = corpus[i]["text"] if where == "corpus" else cases[i].text if where == "valid" else mtexts[i]
                got = cres[i] if where == "corpus" else res[i] if where == "valid" else mres[i]
                m = (cmod if where == "corpus" else mod if where == "valid" else mmod)[i][0]
            else:
                cmd, exp = cases_k[kfail[0]]
                text, got, m = "".join(map(chr, cmd[1:])), exp, "kernel judge (vm_compute) disagrees"
            ctx.violation(dict(kind="correspondence", property="C17", what="model (Model/Fold.v) and server differ", text=text,
                               server=got, model=m, mismatches=len(corr_fail) + len(kfail)), no_input=True)
        elif judge is None or not proved:
            ctx.violation(dict(kind="proof", property="C17", detail=getattr(ctx, "proof_failure", (jlog or "")[-2000:])), no_input=True)

    ctx.level = "proof" if proved else "other"
    ctx.cov.update({
        "evaluations": len(cases) + len(mtexts) + len(corpus) + nk,
        "distinct_nontrivial": len(nontrivial),
        "rule": "syntactically valid programs (well-typed from splgen; identifier-scrambled = valid syntax, ill-typed) in random layouts: doc "
                "comments before `proc`, comments in any gap, CRLF, dense, everything on one line: foldingRange must equal [(line of the "
                "`proc` keyword, line of the closing brace)] per procedure in source order, computed from the generator's own token "
                "offsets. non-trivial = distinct documents with a procedure spanning more than one line. All documents (damaged programs, "
                "token soup, random unicode, hand-written edge cases): start <= end <= last line, ranges in order and non-overlapping "
                "(end_i <= start_{i+1}); every document additionally satisfies the hypothesis fold_pre of the proved theorem.",
        "programs": len(cases), "malformed_documents": len(mtexts), "corpus_cases": len(corpus),
        "input_histogram": dict(hist), "malformed_kinds": dict(mkinds),
        "traces_validated_against_impl": (len(cases) + len(mtexts) + len(corpus)) if judge else 0,
        "kernel_judge_cases": nk,
        "correspondence_mismatches": len(corr_fail) + len(kfail),
        "fold_pre_false": len(pre_false),
        "oracle_failures": len(oracle_fail) + len(wf_fail),
        "samples": [dict(text=cases[i].text[:300], answer=res[i]) for i in rng.sample(range(len(cases)), 3)],
        "timings_s": timings,
        "explanation": EXPLANATION,
    })
    ctx.assumptions = ["serde/lsp-types JSON mapping trusted",
                       "documents as built from a text (AnalyzedSource::new); documents reached by incremental updates: C01",
                       "C17_valid speaks about the model; the model is tied to the code by correspondence on this run's documents"]
    if ctx.thorough() and proved:
        if not common.coqchk(ctx):
            ctx.violation(dict(kind="proof", property="C17", detail="coqchk failed or reports axioms", out=ctx.cov.get("coqchk")), no_input=True)


EXPLANATION = (
    "PROVED (Props/C17.v, all closed): (1) C17_valid - THE functional half of the property: for every abstract program of the "
    "grammar (Spec/Grammar.v, comment slot before every token) and EVERY text that lexes to its token kinds (= every layout: white "
    "space, line ends, comments, literal spellings), the model's folding ranges are, per procedure declaration in source order, "
    "(line of the `proc` keyword after the doc comments, line of the closing brace); the proof composes C04's round trip "
    "(parse = expected tree) with lemmas that table construction and semantic analysis keep ranges and offsets. (2) for ALL "
    "documents, under the explicit predicate fold_pre (token byte ranges in text order - a theorem for pipeline outputs via C06; the "
    "procedure declarations' absolute token ranges lie inside the token vector, are ordered and disjoint, and each contains a "
    "non-comment token) the handler does not panic and its ranges are well-formed: start <= end < number of lines (LSP line model "
    "of Spec/LspText.v), end_i <= start_{i+1} (C17_wellformed, C17_wellformed_new_doc); one range per procedure declaration of the "
    "tree in tree order with the stated extents (C17_count, C17_extents). (3) fold_pre holds for the document of EVERY text, "
    "malformed ones included (C17_fold_pre_total: the tree half for every parser output, Proofs/TotalFold.v), so well-formedness is "
    "unconditional (C17_wellformed_total); the judge still evaluates fold_pre on every document of the run. The tie between model and code is the correspondence (model = server on every document of the run, kernel "
    "vm_compute sample); the implementation-only oracle recomputes the expected ranges from the generator's own token offsets.")


def replay(ctx, path):
    r = json.load(open(path))
    if "text" not in r:
        print(json.dumps(r, indent=1)[:3000])
        return 1
    exe, _ = common.build_server()
    got = observe(exe, [r["text"]], "replay")[0]
    print("observed:", H.dumps(got))
    rs = fold_ranges(got) if got != H.MUTE else None
    if "expected" in r and r["expected"] is not None:
        print("expected:", r["expected"])
        return 0 if rs == [tuple(x) for x in r["expected"]] else 1
    if rs is None:
        return 1
    w = H.fold_wellformed(rs, H.Geometry(r["text"]).last_line())
    print("well-formed:", w or "yes")
    if r.get("kind") == "correspondence":
        judge, _ = common.build_judge()
        m = model(judge, [r["text"]])[0]
        print("model:", m)
        return 0 if (m[0] == H.nums_str(H.enc_fold_json(got)) and m[1] == 1) else 1
    return 1 if w else 0
