"""C15 - semantic tokens are well-formed and agree with lexical class and binding kind."""
import json
import os
from concurrent.futures import ThreadPoolExecutor

import common
import enc
import semtoklib as L
import splgen
import splscope

PID = "C15"
KIND_NAME = {"type": "type", "proc": "function", "param": "parameter", "var": "variable"}


# ---------------------------------------------------------------------------------------------
# generators

TAILS = ["// t", "\n// a\n// b\n", "  // \u00e9\U0001F600\r\n//x", "\n\n//\n", " //\r\n", "\n// last \u20ac"]


def with_tail(text, rng, p=0.3):
    """comments behind the last declaration (they belong to no declaration: the trailing slice of the handler)"""
    return text + rng.choice(TAILS) if rng.random() < p else text


def gen_valid(rng, n):
    """well-typed programs in random layouts: (tag, text, prog)"""
    out = []
    for i in range(n):
        prog, _ = splgen.well_typed_program(rng, ndecls=rng.choice([1, 2, 2, 3, 4, 5]))
        r = rng.random()
        nl = rng.choice(["\n", "\n", "\r\n"])
        if r < 0.15:
            text = L.render_program(prog, rng, comments=0.0, dense=True, newline=nl)
        elif r < 0.3:
            text = L.render_program(prog, rng, comments=0.3, newline=nl)
        else:
            text = L.render_program(prog, rng, comments=0.08, newline=nl)
        out.append(("valid", with_tail(text, rng), prog))
    return out


def _rename_local(decl, old, new):
    """decl with the parameter/variable `old` renamed to `new` (declaration and every use in the body)"""
    def var(v):
        if v[0] == "name":
            return ("name", new if v[1] == old else v[1])
        return ("index", var(v[1]), expr(v[2]))

    def expr(e):
        k = e[0]
        if k == "lit":
            return e
        if k == "var":
            return ("var", var(e[1]))
        if k in ("neg", "par"):
            return (k, expr(e[1]))
        return ("bin", e[1], expr(e[2]), expr(e[3]))

    def stmt(s):
        k = s[0]
        if k == "empty":
            return s
        if k == "assign":
            return ("assign", var(s[1]), expr(s[2]))
        if k == "call":
            return ("call", s[1], [expr(a) for a in s[2]])
        if k == "if":
            return ("if", expr(s[1]), stmt(s[2]), stmt(s[3]) if s[3] is not None else None)
        if k == "while":
            return ("while", expr(s[1]), stmt(s[2]))
        return ("block", [stmt(x) for x in s[1]])

    _, name, params, vars_, stmts = decl
    return ("proc", name, [(r, new if n == old else n, t) for r, n, t in params],
            [(new if n == old else n, t) for n, t in vars_], [stmt(s) for s in stmts])


def _type_names_used(te):
    return [te[1]] if te[0] == "named" else _type_names_used(te[2])


def gen_shadow(rng, n):
    """well-typed programs in which a parameter or local variable carries the name of a type that is used in the
    same procedure at a place where the analysis resolves it globally: in a parameter's type, or in the type of a
    variable declared before (or together with) the shadowing variable.  The type use is bound to the global type."""
    out = []
    tries = 0
    while len(out) < n and tries < n * 40:
        tries += 1
        prog, _ = splgen.well_typed_program(rng, ndecls=rng.choice([2, 3, 4]))
        cands = []
        for di, d in enumerate(prog):
            if d[0] != "proc":
                continue
            params, vars_ = d[2], d[3]
            locs = [pn for _, pn, _ in params] + [vn for vn, _ in vars_]
            ptypes = set(tn for _, _, te in params for tn in _type_names_used(te))
            for tn in ptypes | set(tn for _, te in vars_ for tn in _type_names_used(te)):
                if tn in locs or tn == d[1]:
                    continue
                for pi in range(len(params)):
                    # a parameter shadows the type in every variable declaration: none may use it
                    if tn in ptypes and not any(tn in _type_names_used(te) for _, te in vars_):
                        cands.append((di, params[pi][1], tn))
                for vi in range(len(vars_)):
                    used_before = tn in ptypes or any(tn in _type_names_used(te) for _, te in vars_[:vi + 1])
                    used_after = any(tn in _type_names_used(te) for _, te in vars_[vi + 1:])
                    if used_before and not used_after:
                        cands.append((di, vars_[vi][0], tn))
        if not cands:
            continue
        di, victim, tn = rng.choice(cands)
        prog2 = prog[:di] + [_rename_local(prog[di], victim, tn)] + prog[di + 1:]
        # also with many comments: between `:` / `of` and the type name the handler has to skip them
        text = L.render_program(prog2, rng, comments=rng.choice([0.05, 0.05, 0.5]), newline=rng.choice(["\n", "\r\n"]))
        out.append(("shadow", with_tail(text, rng), prog2))
    return out


def gen_malformed(rng, n):
    out = []
    for _ in range(n):
        r = rng.random()
        if r < 0.45:
            prog, _ = splgen.well_typed_program(rng, ndecls=rng.randrange(1, 4))
            toks = splgen.damage(splgen.flatten(prog), rng, k=rng.choice([1, 1, 1, 2, 3, 6]))
            out.append(("damaged", splgen.render(toks, rng, newline=rng.choice(["\n", "\n", "\r\n", "\r"])), None))
        elif r < 0.5:
            # documents without any declaration: comments, blank lines, nothing
            parts = [rng.choice(["// c\n", "// \u00e9\u20ac x\r\n", "//\n", "\n", "  ", "\t\r\n", "// last line without a line end"])
                     for _ in range(rng.randrange(0, 5))]
            out.append(("soup", "".join(parts), None))
        elif r < 0.8:
            out.append(("soup", splgen.token_soup(rng), None))
        else:
            out.append(("unicode", splgen.random_unicode(rng, rng.randrange(0, 60)), None))
    return out


# the witnesses of the repaired defects C15-type-use-shadowed-by-local (b909979) and C15-trailing-comment (e4d8780),
# with their derivations: replayed through correspondence AND the classification oracle on every run (they are also in
# corpus/C15 with the demanded streams, and Examples of Props/C15.v)
_MAIN = ("proc", "main", [], [], [])
FIXED_WITNESSES = [
    ("shadow", "type t = int; proc p(t: t) { } proc main() { }",
     [("type", "t", ("named", "int")), ("proc", "p", [(False, "t", ("named", "t"))], [], []), _MAIN]),
    ("shadow", "type t = int; proc p(t: t) { t := 1; }\nproc main() {}",
     [("type", "t", ("named", "int")),
      ("proc", "p", [(False, "t", ("named", "t"))], [], [("assign", ("name", "t"), ("lit", "1"))]), _MAIN]),
    ("shadow", "proc main() { var int: int; }", [("proc", "main", [], [("int", ("named", "int"))], [])]),
    ("shadow", "type t = int; proc main() { var a: array [2] of t; var t: array [3] of // d\n t; t[0] := a[1]; }",
     [("type", "t", ("named", "int")),
      ("proc", "main", [], [("a", ("array", "2", ("named", "t"))), ("t", ("array", "3", ("named", "t")))],
       [("assign", ("index", ("name", "t"), ("lit", "0")), ("var", ("index", ("name", "a"), ("lit", "1"))))])]),
    ("valid", "proc main() { } // x", [_MAIN]),
    ("valid", "proc main() { } // tail\n// tail2", [_MAIN]),
    ("valid", "// head\nproc main() { }\n\n// tail \u00e9\u20ac\U0001F600 x\r\n  // last", [_MAIN]),
]

# ---------------------------------------------------------------------------------------------
# running the implementation

def run_server(exe, texts, chunk=120, workers=4):
    """data (list) / None / 'mute' / ('error', ..) per text, plus the legend"""
    parts = [list(range(i, min(i + chunk, len(texts)))) for i in range(0, len(texts), chunk)]
    res = [None] * len(texts)
    legends = []

    def one(idx):
        s = L.Session(exe)
        legends.append(s.legend)
        try:
            for i in idx:
                if s.mute or s.s.p.poll() is not None:
                    s.kill()
                    s = L.Session(exe)
                uri = s.open(texts[i])
                res[i] = s.semtok(uri)
                if not s.mute:
                    s.close(uri)
        finally:
            s.kill()

    with ThreadPoolExecutor(workers) as ex:
        list(ex.map(one, parts))
    legend = legends[0] if legends else {}
    return res, legend, all(l == legend for l in legends)


def judge_cmd(text):
    return ("50 " + " ".join(str(ord(c)) for c in text)).strip()


# ---------------------------------------------------------------------------------------------
# expected classification of a well-typed program

def expected_stream(prog, toks):
    """[(lexical token index, type name, [modifiers])] for every token the property speaks about"""
    idx = L.align(prog, toks)
    occs, infos, scope = splscope.analyse(prog)
    by_tok = {idx[o["tok"]]: o for o in occs}
    exp = []
    for i, k in enumerate(toks):
        c = k["cls"]
        if c in ("comment", "keyword", "number"):
            exp.append((i, c, []))
        elif c == "ident":
            o = by_tok[i]
            if o["kind"] is None:
                raise RuntimeError("unbound identifier %r in a generated program" % o["name"])
            exp.append((i, KIND_NAME[o["kind"]], ["declaration"] if o["is_decl"] else []))
    return exp, by_tok, infos, idx


def classify_diffs(dec, idxs, exp, toks, by_tok, infos, flat_idx):
    """compares a decoded stream with the expected one; returns [(class id or None, description)]"""
    got = {}
    for (line, col, ln, ty, md), i in zip(dec, idxs):
        if i is not None:
            got[i] = (ty, md)
    want = {i: (ty, md) for i, ty, md in exp}
    last_real = max([i for i, k in enumerate(toks) if k["cls"] not in ("comment", "eof")], default=-1)
    out = []
    for i in sorted(set(got) | set(want)):
        k = toks[i]
        where = "%d:%d %r" % (k["line"], k["col"], k["text"])
        part = "b" if k["cls"] == "ident" else "a"
        if i not in got:
            # class of the former known finding (repaired in e4d8780; a VIOLATION unless listed as `known` again)
            cid = "C15-trailing-comment" if (k["cls"] == "comment" and i > last_real) else None
            out.append((cid, "%s (%s) is missing from the stream" % (where, want[i][0]), part))
        elif i not in want:
            out.append((None, "%s is reported as %s but the property does not classify it" % (where, got[i][0]), "extra"))
        elif got[i] != want[i]:
            cid = None
            o = by_tok.get(i)
            # class of the former known finding (repaired in b909979; a VIOLATION unless listed as `known` again)
            if o is not None and o["role"] == "type_use" and infos[o["decl"]]["kind"] == "proc" \
                    and o["name"] in infos[o["decl"]]["locals"] and want[i][0] == "type" \
                    and got[i][0] in ("parameter", "variable"):
                cid = "C15-type-use-shadowed-by-local"
            out.append((cid, "%s is %s %s, expected %s %s" % (where, got[i][0], got[i][1], want[i][0], want[i][1]), part))
    return out


# ---------------------------------------------------------------------------------------------

def load_corpus():
    d = os.path.join(common.VERIF, "corpus", PID)
    out = []
    if os.path.isdir(d):
        for f in sorted(os.listdir(d)):
            if f.endswith(".json"):
                c = json.load(open(os.path.join(d, f)))
                out.append((f, c))
    return out


def check_expected_decoded(dec, want):
    """corpus entries carry the decoded stream as [line, col, length, type name, modifier bits]"""
    have = [[l, c, n, ty, (1 if "declaration" in md else 0)] for l, c, n, ty, md in dec] if isinstance(dec, list) else dec
    return have == want, have


# ---- the meaning of the stream does not depend on what the client says it supports ----
STD_TYPES = ["namespace", "type", "class", "enum", "interface", "struct", "typeParameter", "parameter", "variable", "property", "enumMember",
             "event", "function", "method", "macro", "keyword", "modifier", "comment", "string", "number", "regexp", "operator", "decorator"]
STD_MODS = ["declaration", "definition", "readonly", "static", "deprecated", "abstract", "async", "modification", "documentation", "defaultLibrary"]
CLIENT_CAPS = [
    ("no-capabilities", {}),
    ("all-standard", {"textDocument": {"semanticTokens": {"requests": {"full": True}, "tokenTypes": STD_TYPES, "tokenModifiers": STD_MODS,
                                                          "formats": ["relative"]}}}),
    ("no-comment-type", {"textDocument": {"semanticTokens": {"requests": {"full": True}, "tokenTypes": [t for t in STD_TYPES if t != "comment"],
                                                             "tokenModifiers": STD_MODS, "formats": ["relative"]}}}),
    ("only-keyword-variable", {"textDocument": {"semanticTokens": {"requests": {"full": True}, "tokenTypes": ["variable", "keyword"],
                                                                   "tokenModifiers": [], "formats": ["relative"]}}}),
    ("reversed", {"textDocument": {"semanticTokens": {"requests": {"full": {"delta": True}, "range": True}, "tokenTypes": STD_TYPES[::-1],
                                                      "tokenModifiers": STD_MODS[::-1], "formats": ["relative"]}}}),
    ("empty-lists", {"textDocument": {"semanticTokens": {"requests": {}, "tokenTypes": [], "tokenModifiers": [], "formats": []}}}),
    ("no-declaration-modifier", {"textDocument": {"semanticTokens": {"requests": {"full": True}, "tokenTypes": STD_TYPES,
                                                                     "tokenModifiers": ["readonly", "static"], "formats": ["relative"]}}}),
    ("unknown-names", {"textDocument": {"semanticTokens": {"requests": {"full": True}, "tokenTypes": ["foo", "comment", "bar"],
                                                           "tokenModifiers": ["baz"], "formats": ["relative"], "multilineTokenSupport": True,
                                                           "overlappingTokenSupport": True}}}),
]


def caps_session(exe, caps, texts):
    """(legend, [decoded stream | problem string]) of one session initialised with the client capabilities `caps`"""
    import lspclient
    import queue
    s = lspclient.Server(exe)
    out = []
    try:
        try:
            r = s.request("initialize", {"processId": None, "rootUri": None, "capabilities": caps}, timeout=90.0)
        except queue.Empty:
            return None, ["no answer to initialize"] * len(texts)
        if not isinstance(r, dict) or "result" not in r:
            return None, ["initialize answered with %r" % (r,)] * len(texts)
        s.notify("initialized", {})
        legend = ((r["result"].get("capabilities") or {}).get("semanticTokensProvider") or {}).get("legend") or {}
        for k, t in enumerate(texts):
            uri = "file:///caps_%d.spl" % k
            s.open(uri, t)
            try:
                a = s.request("textDocument/semanticTokens/full", {"textDocument": {"uri": uri}}, timeout=20.0)
            except queue.Empty:
                a = None
            data = a.get("result", {}).get("data") if isinstance(a, dict) and isinstance(a.get("result"), dict) else None
            out.append(L.decode(data, legend) if isinstance(data, list) else "no semantic tokens: %r" % (a,))
            s.close(uri)
        return legend, out
    finally:
        s.kill()


def caps_stage(exe, texts):
    """the decoded streams (type NAMES, modifier NAMES) must be the same whatever the client announces; returns (violations, evidence)"""
    with ThreadPoolExecutor(3) as ex:
        res = list(ex.map(lambda nc: caps_session(exe, nc[1], texts), CLIENT_CAPS))
    (legend0, base), viol = res[0], []
    for (name, caps), (legend, dec) in zip(CLIENT_CAPS[1:], res[1:]):
        for t, a, b in zip(texts, base, dec):
            if a != b:
                viol.append(dict(kind="client-capabilities", property=PID, text=t, client=name, client_capabilities=caps,
                                 legend_without_capabilities=legend0, legend_announced=legend,
                                 decoded_without_capabilities=a if isinstance(a, str) else [list(x) for x in a][:40],
                                 decoded=b if isinstance(b, str) else [list(x) for x in b][:40],
                                 what="decoded against the legend announced in ITS session, the token stream differs from the one a "
                                      "client without semantic-token capabilities gets for the same text"))
                break
    return viol, dict(clients=[n for n, _ in CLIENT_CAPS], documents=len(texts), deviations=len(viol))


def run(ctx):
    proved = common.proof_stage(ctx)
    exe, log = common.build_server()
    if exe is None:
        ctx.violation(dict(kind="build-failure", what="lsp4spl does not build", log=log[-3000:]), no_input=True)
        return
    judge, jlog = common.build_judge()
    if judge is None:
        ctx.violation(dict(kind="proof", property=PID, detail="judge does not build", log=jlog[-3000:]), no_input=True)
        return
    known_ids = {e["id"] for e in common.load_known_findings(PID)}
    th = ctx.thorough()
    rng = ctx.rng

    corpus = load_corpus()
    docs = [("corpus", c["text"], None) for _, c in corpus]
    ncorpus = len(docs)
    docs += FIXED_WITNESSES
    docs += gen_valid(rng, 2400 if th else 300)
    docs += gen_shadow(rng, 300 if th else 40)
    docs += gen_malformed(rng, 9000 if th else 1200)
    texts = [t for _, t, _ in docs]

    with ThreadPoolExecutor(3) as ex:
        f_srv = ex.submit(run_server, exe, texts)
        f_mod = ex.submit(L.par_lines, judge, [judge_cmd(t) for t in texts])
        f_lex = ex.submit(L.lex_texts, judge, texts)
        (srv, legend, legends_agree), model, lexed = f_srv.result(), f_mod.result(), f_lex.result()

    # no alarms from timing: a silent request is repeated in fresh processes before it counts as a panic
    retried = [n for n, r in enumerate(srv) if r == "mute"]
    for n in retried:
        r = L.retry_mute(exe, texts[n], lambda s, uri: s.semtok(uri))
        srv[n] = r.get("data") if isinstance(r, dict) else r

    viol = []          # (size, replay dict)
    known_hits = {}
    mism = []
    hist = {"valid": 0, "shadow": 0, "damaged": 0, "soup": 0, "unicode": 0, "corpus": 0, "crlf": 0, "non_ascii": 0,
            "with_comments": 0, "empty_stream": 0, "tokens_reported": 0, "declaration_bits": 0, "mute": 0,
            "model_wf_false": 0, "trailing_comments_checked": 0, "shadowed_type_uses_checked": 0}
    types_seen = {}
    spec_hist, spec_disagree = {}, []
    wf_false = []
    nontrivial = set()
    if not legends_agree or not legend.get("tokenTypes"):
        viol.append((0, dict(kind="oracle", what="initialize announces no (or a varying) semantic token legend", legend=legend)))

    for n, ((tag, text, prog), data, mo, toks) in enumerate(zip(docs, srv, model, lexed)):
        hist[tag] += 1
        hist["crlf"] += "\r\n" in text
        hist["non_ascii"] += any(ord(c) > 127 for c in text)
        hist["with_comments"] += any(k["cls"] == "comment" for k in toks)
        mnums = enc.nums(mo)
        # --- correspondence
        if data == "mute":
            hist["mute"] += 1
            obs = [1]
        elif isinstance(data, list):
            obs = [0] + data
        else:
            obs = ["unexpected", data]
        mod = ([0] + mnums[3:] if mnums[0] == 0 else [1]) if mnums[0] in (0, 1) else mnums
        spec_flag = mnums[2] if mnums[0] == 0 and len(mnums) > 2 else None
        if len(mnums) > 1 and mnums[0] in (0, 1) and mnums[1] != 1:
            hist["model_wf_false"] += 1
            wf_false.append(n)
        if obs != mod:
            mism.append(n)
        # --- oracle, well-formedness part (all documents)
        if data == "mute":
            # still silent after the retries in three fresh processes
            viol.append((len(text), dict(kind="oracle", property=PID, text=text, observed="no response (handler panic), confirmed in 3 fresh processes",
                                         what="semanticTokens/full is never answered; also a crash in the sense of C02")))
            continue
        if not isinstance(data, list):
            viol.append((len(text), dict(kind="oracle", property=PID, text=text, observed=repr(data), what="semanticTokens/full answered with null or an error for an open document")))
            continue
        dec = L.decode(data, legend)
        if isinstance(dec, str):
            viol.append((len(text), dict(kind="oracle", property=PID, text=text, data=data, what=dec)))
            continue
        probs, idxs = L.stream_problems(dec, toks)
        if probs:
            viol.append((len(text), dict(kind="oracle", property=PID, part="well-formedness", text=text, data=data, problems=probs[:10])))
            continue
        hist["tokens_reported"] += len(dec)
        hist["empty_stream"] += not dec
        for _, _, _, ty, md in dec:
            types_seen[ty] = types_seen.get(ty, 0) + 1
            hist["declaration_bits"] += bool(md)
        if len(dec) >= 3:
            nontrivial.add(text)
        # --- oracle, classification part (well-typed programs)
        if prog is not None:
            if spec_flag == 0:
                # the model reports diagnostics for this program: not a valid program, no classification claim
                hist["generator_rejects"] = hist.get("generator_rejects", 0) + 1
                continue
            exp, by_tok, infos, flat_idx = expected_stream(prog, toks)
            diffs = classify_diffs(dec, idxs, exp, toks, by_tok, infos, flat_idx)
            # the Coq specification (SemTokProofs.semtok_full_statement, decided by the judge for this document)
            # and this oracle must agree on which part fails
            py_flag = 1 + (2 if any(p == "a" for _, _, p in diffs) else 0) + (1 if any(p == "b" for _, _, p in diffs) else 0)
            spec_hist[spec_flag] = spec_hist.get(spec_flag, 0) + 1
            if spec_flag != py_flag and obs == mod:
                spec_disagree.append((n, spec_flag, py_flag))
            diffs = [(cid, d) for cid, d, _ in diffs]
            # how often the two repaired classes were exercised (former known findings)
            last_real = max([i for i, k in enumerate(toks) if k["cls"] not in ("comment", "eof")], default=-1)
            hist["trailing_comments_checked"] += sum(1 for i, k in enumerate(toks) if k["cls"] == "comment" and i > last_real)
            hist["shadowed_type_uses_checked"] += sum(
                1 for o in by_tok.values() if o["role"] == "type_use" and infos[o["decl"]]["kind"] == "proc"
                and o["name"] in infos[o["decl"]]["locals"])
            new = [d for cid, d in diffs if cid is None or cid not in known_ids]
            for cid, d in diffs:
                if cid is not None and cid in known_ids:
                    known_hits.setdefault(cid, []).append((len(text), text, d))
            if new:
                viol.append((len(text), dict(kind="oracle", property=PID, part="classification", text=text, problems=new[:10],
                                             expected=[[toks[i]["line"], toks[i]["col"], toks[i]["len16"], ty, md] for i, ty, md in exp],
                                             decoded=[list(x) for x in dec])))

    # --- corpus: recorded decoded streams
    for (fname, c), data in zip(corpus, srv[:ncorpus]):
        if "decoded" in c:
            dec = L.decode(data, legend) if isinstance(data, list) else data
            ok, have = check_expected_decoded(dec, c["decoded"])
            if not ok:
                viol.append((0, dict(kind="oracle", property=PID, part="corpus", file=fname, text=c["text"], expected_decoded=c["decoded"], decoded=have)))

    for cid in sorted(known_hits):
        hits = sorted(known_hits[cid])
        ctx.known("%s: %d generated programs, smallest witness %r: %s" % (cid, len(set(h[1] for h in hits)), hits[0][1], hits[0][2]))
    viol.sort(key=lambda v: v[0])
    for _, v in viol[:3]:
        ctx.violation(v)
    caps_texts = [t for tag, t, _ in docs if tag in ("valid", "shadow") and "//" in t][:6] + [t for tag, t, _ in docs if tag == "damaged"][:2]
    cviol, caps_cov = caps_stage(exe, caps_texts)
    for v in cviol[:2]:
        ctx.violation(v)

    # --- kernel judge on a sample of short documents
    short = [n for n in range(len(docs)) if len(texts[n]) <= 160 and n not in mism and isinstance(srv[n], list)]
    pick = rng.sample(short, min(len(short), 400 if th else 120))
    kfail = common.kernel_judge(PID, [(enc.nums(judge_cmd(texts[n])), enc.nums(model[n])) for n in pick])
    if not viol:
        if mism or kfail:
            n = sorted(mism, key=lambda n: len(texts[n]))[0] if mism else pick[kfail[0]]
            ctx.violation(dict(kind="correspondence", property=PID, text=texts[n], server=srv[n], model=model[n],
                               mismatches=len(mism), kernel_failures=len(kfail),
                               what="Model/SemTok.v and the server's semanticTokens/full answer differ (model output: tag, wf flag, data)"), no_input=True)
        elif wf_false:
            ctx.violation(dict(kind="specification", property=PID, text=texts[wf_false[0]], cases=len(wf_false),
                               what="SemTok.doc_wf_b, the hypothesis of the C15 theorems, does not hold for the analysed document"), no_input=True)
        elif spec_disagree:
            n, cf, pf = spec_disagree[0]
            ctx.violation(dict(kind="specification", property=PID, text=texts[n], coq_flag=cf, oracle_flag=pf, cases=len(spec_disagree),
                               what="the Coq statement semtok_full_statement (decided by the judge: 1 holds, +2 part a fails, +1 part b fails) "
                                    "and the python oracle disagree on this well-typed program"), no_input=True)
        elif not proved:
            ctx.violation(dict(kind="proof", property=PID, detail=getattr(ctx, "proof_failure", None)), no_input=True)

    ctx.level = "proof" if proved else "other"
    ctx.cov.update({
        "evaluations": len(docs),
        "distinct_nontrivial": len(nontrivial),
        "rule": "documents opened with didOpen, one semanticTokens/full request each; decoded against the legend of the initialize "
                "response. Well-formedness oracle on every document (valid, damaged, token soup, random unicode; LF/CRLF/CR): strictly "
                "increasing, non-overlapping, each token = one lexical token of the Coq lexer model (start and UTF-16 length) with the matching "
                "lexical class. Classification oracle on well-typed programs: the stream must be exactly keywords/numbers/comments with "
                "their class + every identifier with the kind of its binding (splscope) and the declaration bit on the declaring occurrence. "
                "non-trivial = distinct documents whose stream has >= 3 tokens",
        "client_capabilities": caps_cov,
        "input_histogram": hist, "token_types_seen": types_seen, "legend": legend,
        "coq_full_statement_flags_on_valid_programs": {str(k): v for k, v in sorted(spec_hist.items())},
        "coq_spec_vs_oracle_disagreements": len(spec_disagree),
        "traces_validated_against_impl": len(docs) - len(mism),
        "correspondence_mismatches": len(mism) + len(kfail), "kernel_judge_cases": len(pick),
        "oracle_failures": len(viol), "silent_requests_retried": len(retried),
        "samples": [dict(text=texts[n][:300], data=srv[n] if not isinstance(srv[n], list) else srv[n][:40]) for n in rng.sample(range(len(docs)), 3)],
        "explanation": EXPLANATION,
    })
    ctx.assumptions = ["u32 width of line/column/length counters not modelled (texts below 4 GiB)",
                       "documents are analysed from scratch (didOpen); trees produced by incremental re-parsing are covered by C01",
                       "serde/lsp-types JSON mapping trusted; HashMap lookups modelled as association lists"]
    if th and proved:
        if not common.coqchk(ctx):
            ctx.violation(dict(kind="proof", property=PID, detail="coqchk failed or reports axioms", out=ctx.cov.get("coqchk")), no_input=True)


EXPLANATION = (
    "PROVED for all documents (Props/C15.v over the model Model/SemTok.v of semantic_tokens.rs as of /repo e4d8780), under the explicit "
    "executable well-formedness predicate doc_wf_b (tokens ordered / sliceable on character boundaries / not starting at a line terminator; "
    "declarations in source order with in-bounds ranges; the program's range ends at or behind the last declaration, where the trailing "
    "slice starts; declaration names end with an identifier token): C15_no_panic (no slice panic, no u32 underflow), C15_coincide (the "
    "decoded stream is the image of an order-preserving subsequence of the document's tokens: each decoded token = position of the first "
    "byte and UTF-16 length of one lexical token), C15_increasing (strictly increasing positions), C15_disjoint (pairwise disjoint byte "
    "ranges), C15_lexical_class + C15_lexical_complete (keywords/numbers/comments inside declarations AND in the trailing slice behind the "
    "last declaration are reported with exactly their class, nothing but identifiers otherwise), C15_tokens_wf (token half of doc_wf_b for "
    "every output of lex), C15_decls_ordered (ordering half for every output of parse, incl. the end of the program's range), "
    "C15_new_doc_wf (build and analyze keep offsets and ranges: for AnalyzedSource::new outputs doc_wf_b reduces to the name condition "
    "decls_names_b), C15_new_doc_covered (declarations + trailing slice tile the token vector), C15_new_doc_stream and "
    "C15_lexical_reported_everywhere (= part (a) of C15_full_statement without its no-diagnostics hypothesis: EVERY keyword/number/comment "
    "token of the document is in the answer with its class). C15_new_doc_names / C15_new_doc_wf_total: the name condition, hence doc_wf_b, "
    "holds for the document of EVERY text (every parser output, any syntax errors), so C15_new_doc_stream_total and "
    "C15_lexical_reported_everywhere_total state all of the above without any hypothesis. C15_valid (+ C15_valid_doc_wf): for every valid "
    "program in every layout (abstract program of the grammar, well-typed, any text that lexes to its tokens) every identifier occurrence "
    "is reported with the kind of the entry it is bound to under SPL scoping and the declaration modifier exactly on its declaring "
    "occurrence, nothing else at that position - part (b), the binding half of the property. The former refutation "
    "C15_full_statement_refuted is gone with the repairs b909979 (identifiers in type expressions of a procedure are looked up globally) "
    "and e4d8780 (trailing comments): its witness and the witnesses of the two former known findings now evaluate to the demanded streams "
    "(Examples C15_example_type_use / _int_hidden / _trailing, corpus/C15, FIXED_WITNESSES). NOT PROVED, VALIDATED only (correspondence + "
    "oracle): that the model is the code; the wording `document without diagnostics` instead of `layout of a well-typed abstract program` "
    "(front-end completeness); documents reached by incremental updates (C01's known finding). The judge still computes doc_wf_b and the "
    "Coq full statement per document and the python oracle from splscope must agree.")


def replay(ctx, path):
    r = json.load(open(path))
    if r.get("kind") == "client-capabilities":
        exe, _ = common.build_server()
        l0, (a,) = caps_session(exe, {}, [r["text"]])
        l1, (b,) = caps_session(exe, r["client_capabilities"], [r["text"]])
        print("legend without capabilities:", l0, "\nlegend announced:", l1)
        print("same decoded stream" if a == b else "decoded streams differ:\n  %r\n  %r" % (a, b))
        return 0 if a == b else 1
    if "text" not in r:
        print(json.dumps(r, indent=1)[:3000])
        return 1
    exe, _ = common.build_server()
    judge, _ = common.build_judge()
    (data,), legend, _ = run_server(exe, [r["text"]])
    print("text:", repr(r["text"]))
    print("data:", data)
    if not isinstance(data, list):
        return 1
    dec = L.decode(data, legend)
    print("decoded:", dec)
    if isinstance(dec, str):
        return 1
    toks = L.lex_texts(judge, [r["text"]])[0]
    probs, _ = L.stream_problems(dec, toks)
    for p in probs:
        print("problem:", p)
    rc = 1 if probs else 0
    want = r.get("expected_decoded") or r.get("decoded_expected")
    if "expected" in r:
        have = [[l, c, n, ty, md] for l, c, n, ty, md in dec]
        if have != r["expected"]:
            print("expected:", r["expected"])
            rc = 1
    if "decoded" in r and "expected" not in r and r.get("part") != "classification" and "problems" not in r:
        ok, have = check_expected_decoded(dec, r["decoded"])
        if not ok:
            print("expected decoded:", r["decoded"])
            rc = 1
    if want:
        ok, have = check_expected_decoded(dec, want)
        if not ok:
            print("expected decoded:", want)
            rc = 1
    print("property holds on this input" if rc == 0 else "property FAILS on this input")
    return rc
