"""C20 - ordering, read-your-writes and document isolation under load.

Three layers (DESIGN.md section 5, C20):
  proof            Props/C20.v about the reader / broker / responder model (Model/Broker.v): every schedule refines the
                   sequential specification on both output streams, response order, read-your-writes, last diagnostics,
                   capability, isolation, closed documents, no deadlock / termination
  correspondence   sessions of 200-2000 pipelined messages against the built binary (multi-thread runtime, several
                   repetitions, several write patterns / worker-thread counts to vary the schedule); the observed response
                   stream and the publishDiagnostics stream are compared with `Broker.seq_run` instantiated with the text model
                   of Model/Doc.v (Judge/RunBroker.v, command 21), evaluated by the extracted judge and, on a sample, by coqc
  oracle           on the implementation alone: (a) last (and every) publishDiagnostics of a URI = diagnostics of that text
                   opened in a fresh server, (b) no publishDiagnostics without the capability, (c) responses in request order,
                   exactly one each, (d) closed documents answer null until reopened, (e) a URI's responses and diagnostics are
                   those of the session filtered to that URI, (f) the pipelined run equals the run with one message at a time,
                   (g) every `$/verif/text` answer = the client's text (independent python client model)
"""
import hashlib
import json
import os
import queue
import random
import subprocess
import threading
import time
from concurrent.futures import ThreadPoolExecutor

import common
import lspclient

LEVEL = "proof"          # every theorem of Props/C20.v is closed; what the model does not exhibit is listed in `assumptions`
CORPUS = os.path.join(common.VERIF, "corpus", "C20")
URI_POOL = ["file:///a.spl", "untitled:///a.spl", "file:///b.spl", "file:///dir/a.spl"]
INIT_ID, SHUTDOWN_ID, BARRIER0 = 1000000, 1000001, 2000000
BARRIER_URI = "file:///verif-barrier.spl"
BURST_TIMEOUT = 60.0     # seconds until end-of-output for one burst (the server needs well under a second)
RUNNERS = 6              # concurrent server processes

# document contents.  J: no letter sequence can form `proc` / `type`, so the whole text is one error declaration and ranged
# edits never reach the incremental re-parse of declarations (C01's subject, a known divergence of AnalyzedSource::update from
# AnalyzedSource::new); the diagnostics quote the text, so they discriminate between contents.  K: declarations; K documents
# are only opened and replaced as a whole.
J = ["a", "b", "x1", "1", "0x1F", ";", "=", " ", "\n", "é", "😀", "(", ")", "\r\n", ":=", "+", ",", "{", "}", "[", "]", ":",
     "//c\n", "'c'", "<", "#", "\r", "a1", "  "]
K = ["proc main() {}\n", "proc main() { x := 1; }\n", "type t = int;\n",
     "type v = array [3] of int;\nproc main() { var a: v; a[0] := 1; }\n",
     "proc f(ref a: int) { a := 1; }\nproc main() { var i: int; f(i); }\n", "proc main() { while (1 < 2) { } }\n",
     "proc main() { q(); }\n", "// doc\nproc main() {}\n", "proc é() {}\n", "type w = ;\n", "proc g(a: int) { a := 'x'; }\n"]
OTHER_REQS = ["textDocument/hover", "textDocument/foldingRange"]
UNKNOWN_METHODS = ["workspace/symbolFoo", "textDocument/codeLens", "$/verif/unknown"]
NOTES = ["$/setTrace", "workspace/didChangeConfiguration", "$/cancelRequest", "textDocument/didSave"]


# ---- independent client-side model of LSP texts (python strings, UTF-16 columns) ----
def split_lines(t):
    out, cur, i = [], "", 0
    while i < len(t):
        c = t[i]
        if c == "\n":
            out.append((cur, "\n"))
            cur = ""
        elif c == "\r":
            if i + 1 < len(t) and t[i + 1] == "\n":
                out.append((cur, "\r\n"))
                i += 1
            else:
                out.append((cur, "\r"))
            cur = ""
        else:
            cur += c
        i += 1
    out.append((cur, ""))
    return out


def u16(c):
    return 2 if ord(c) >= 0x10000 else 1


def offset_of(t, line, col):
    ls = split_lines(t)
    if line >= len(ls):
        return len(t)
    off = sum(len(c) + len(x) for c, x in ls[:line])
    k = 0
    for ch in ls[line][0]:
        if k + u16(ch) > col:
            break
        k += u16(ch)
        off += 1
    return off


def client_apply(t, change):
    rng_, new = change
    if rng_ is None:
        return new
    (l1, c1), (l2, c2) = rng_
    a, b = offset_of(t, l1, c1), offset_of(t, l2, c2)
    return t[:a] + new + t[b:]


# ---- generator ----
def j_text(rng, n):
    return "".join(rng.choice(J) for _ in range(rng.randint(0, n)))


def k_text(rng):
    return "".join(rng.choice(K) for _ in range(rng.randint(1, 3)))


def rand_pos(rng, t):
    """never inside a surrogate pair: valid, overshooting column, overshooting line"""
    ls = split_lines(t)
    r = rng.random()
    if r < 0.06:
        return [len(ls) + rng.randint(0, 3), rng.randint(0, 5)]
    line = rng.randrange(len(ls))
    cols = [0]
    for ch in ls[line][0]:
        cols.append(cols[-1] + u16(ch))
    if r < 0.2:
        return [line, cols[-1] + rng.randint(1, 9)]
    return [line, rng.choice(cols)]


def j_change(rng, t):
    if rng.random() < 0.12 or len(t) > 120:
        return [None, j_text(rng, 10)]
    p, q = sorted([rand_pos(rng, t), rand_pos(rng, t)])
    if rng.random() < 0.35:
        q = p
    return [[p, q], j_text(rng, 4)]


def gen_session(rng, n, diag, k=None):
    k = k or rng.choice([1, 2, 2, 3, 3, 4])
    if k >= 2 and rng.random() < 0.75:
        uris = URI_POOL[:2] + rng.sample(URI_POOL[2:], k - 2)      # the two URIs that differ only in scheme
        rng.shuffle(uris)
    else:
        uris = rng.sample(URI_POOL, k)
    style = ["K" if rng.random() < 0.3 else "J" for _ in range(k)]
    texts = [None] * k
    hot = rng.randrange(k)
    msgs = []

    def fresh(u):
        return k_text(rng) if style[u] == "K" and rng.random() < 0.8 else j_text(rng, 12)

    def changes(u):
        t = texts[u] if texts[u] is not None else ""
        chs = []
        for _ in range(rng.choice([1, 1, 1, 2, 3])):
            ch = [None, fresh(u)] if style[u] == "K" else j_change(rng, t)
            t = client_apply(t, ch)
            chs.append(ch)
        return chs, t

    while len(msgs) < n:
        u = hot if rng.random() < 0.4 else rng.randrange(k)
        rid = len(msgs) + 1
        r = rng.random()
        if texts[u] is not None:
            if r < 0.47:
                chs, t = changes(u)
                texts[u] = t
                msgs.append(["change", u, chs])
            elif r < 0.80:
                msgs.append(["text", rid, u])
            elif r < 0.84:
                texts[u] = None
                msgs.append(["close", u])
            elif r < 0.86:
                texts[u] = fresh(u)
                msgs.append(["open", u, texts[u]])
            elif r < 0.91:
                msgs.append(["req", rid, rng.choice(OTHER_REQS), u])
            elif r < 0.94:
                msgs.append(["unknown", rid, rng.choice(UNKNOWN_METHODS)])
            elif r < 0.95:
                msgs.append(["init", rid])
            else:
                msgs.append(["note", rng.choice(NOTES)])
        else:
            if r < 0.35:
                texts[u] = fresh(u)
                msgs.append(["open", u, texts[u]])
            elif r < 0.68:
                msgs.append(["text", rid, u])
            elif r < 0.76:
                msgs.append(["change", u, changes(u)[0]])      # not open: the server ignores it
            elif r < 0.79:
                msgs.append(["close", u])
            elif r < 0.86:
                msgs.append(["req", rid, rng.choice(OTHER_REQS), u])
            elif r < 0.92:
                msgs.append(["unknown", rid, rng.choice(UNKNOWN_METHODS)])
            elif r < 0.94:
                msgs.append(["init", rid])
            else:
                msgs.append(["note", rng.choice(NOTES)])
    for u in range(k):                                          # final texts
        msgs.append(["text", len(msgs) + 1, u])
    return {"diag": bool(diag), "uris": uris, "msgs": msgs}


def session_key(sess):
    return hashlib.sha256(json.dumps(sess, sort_keys=True, ensure_ascii=False).encode()).hexdigest()[:16]


# ---- a session as JSON-RPC ----
def lsp_change(ch):
    d = {"text": ch[1]}
    if ch[0] is not None:
        (l1, c1), (l2, c2) = ch[0]
        d["range"] = {"start": {"line": l1, "character": c1}, "end": {"line": l2, "character": c2}}
    return d


def to_jsonrpc(sess, m, version):
    uris = sess["uris"]
    kind = m[0]
    if kind == "open":
        return {"jsonrpc": "2.0", "method": "textDocument/didOpen",
                "params": {"textDocument": {"uri": uris[m[1]], "languageId": "spl", "version": version, "text": m[2]}}}
    if kind == "change":
        return {"jsonrpc": "2.0", "method": "textDocument/didChange",
                "params": {"textDocument": {"uri": uris[m[1]], "version": version},
                           "contentChanges": [lsp_change(c) for c in m[2]]}}
    if kind == "close":
        return {"jsonrpc": "2.0", "method": "textDocument/didClose", "params": {"textDocument": {"uri": uris[m[1]]}}}
    if kind == "text":
        return {"jsonrpc": "2.0", "id": m[1], "method": "$/verif/text", "params": {"uri": uris[m[2]]}}
    if kind == "req":
        p = {"textDocument": {"uri": uris[m[3]]}}
        if m[2] == "textDocument/hover":
            p["position"] = {"line": 0, "character": 1}
        return {"jsonrpc": "2.0", "id": m[1], "method": m[2], "params": p}
    if kind == "unknown":
        return {"jsonrpc": "2.0", "id": m[1], "method": m[2], "params": {}}
    if kind == "init":
        return {"jsonrpc": "2.0", "id": m[1], "method": "initialize", "params": {"processId": None, "rootUri": None, "capabilities": {}}}
    if kind == "note":
        return {"jsonrpc": "2.0", "method": m[1], "params": {"value": "off"}}
    raise ValueError(kind)


def frames(sess):
    """versions are numbered the way clients do it: per document, starting afresh (at 1) with every didOpen and increasing by
    one per didChange - so a reopened document starts BELOW the last version the server saw before the close"""
    out, ver = [], {}
    for m in sess["msgs"]:
        if m[0] == "open":
            ver[m[1]] = 1
        elif m[0] == "change":
            ver[m[1]] = ver.get(m[1], 0) + 1
        out.append(lspclient.frame(to_jsonrpc(sess, m, ver.get(m[1], 1) if m[0] in ("open", "change") else 0)))
    return out


TAIL = (lspclient.frame({"jsonrpc": "2.0", "id": SHUTDOWN_ID, "method": "shutdown"})
        + lspclient.frame({"jsonrpc": "2.0", "method": "exit"}))


# ---- the model's view: command 21 of the judge ----
def model_cmd(sess, mode):
    parts = [21, mode, 1 if sess["diag"] else 0, len(sess["msgs"])]
    for m in sess["msgs"]:
        kind = m[0]
        if kind == "open":
            cps = [ord(c) for c in m[2]]
            parts += [0, m[1], len(cps)] + cps
        elif kind == "change":
            parts += [1, m[1], len(m[2])]
            for rng_, new in m[2]:
                cps = [ord(c) for c in new]
                if rng_ is None:
                    parts += [0, 0, 0, 0, 0, len(cps)] + cps
                else:
                    parts += [1, rng_[0][0], rng_[0][1], rng_[1][0], rng_[1][1], len(cps)] + cps
        elif kind == "close":
            parts += [2, m[1]]
        elif kind == "text":
            parts += [3, m[1], 0, m[2]]
        elif kind == "req":
            parts += [3, m[1], 1 + OTHER_REQS.index(m[2]) if m[2] in OTHER_REQS else 9, m[3]]
        elif kind == "unknown":
            parts += [4, m[1], 0]
        elif kind == "init":
            parts += [4, m[1], 1]
        elif kind == "note":
            parts += [5]
    return parts


def parse_state(nums, i):
    """1 len cps.. | 9  ->  (text or '<panic>', next index)"""
    if nums[i] == 1:
        n = nums[i + 1]
        return "".join(chr(c) for c in nums[i + 2:i + 2 + n]), i + 2 + n
    return "<broker-panic>", i + 1


def parse_mode1(nums):
    n, i, out = nums[0], 1, []
    for _ in range(n):
        u = nums[i]
        t, i = parse_state(nums, i + 1)
        out.append((u, t))
    assert i == len(nums)
    return out


# ---- the client's view (python only): what the property promises for this session ----
def client_expectation(sess):
    texts = [None] * len(sess["uris"])
    resp, diag = [], []          # resp: (id, kind, value)   diag: (uri index, text)
    for m in sess["msgs"]:
        kind = m[0]
        if kind == "open":
            texts[m[1]] = m[2]
            if sess["diag"]:
                diag.append((m[1], m[2]))
        elif kind == "change":
            if texts[m[1]] is not None:
                t = texts[m[1]]
                for ch in m[2]:
                    t = client_apply(t, ch)
                texts[m[1]] = t
                if sess["diag"]:
                    diag.append((m[1], t))
        elif kind == "close":
            texts[m[1]] = None
        elif kind == "text":
            resp.append((m[1], "text", texts[m[2]]))
        elif kind == "req":
            resp.append((m[1], "req", None))
        elif kind == "unknown":
            resp.append((m[1], "error", -32601))
        elif kind == "init":
            resp.append((m[1], "error", -32600))
    return {"resp": resp, "diag": diag, "final": texts}


# ---- running the binary ----
class Srv(lspclient.Server):
    def __init__(self, exe, workers=None):
        env = dict(os.environ)
        env.update({"RUST_BACKTRACE": "0", "RUST_LIB_BACKTRACE": "0"})
        if workers:
            env["TOKIO_WORKER_THREADS"] = str(workers)
        self.p = subprocess.Popen([exe], stdin=subprocess.PIPE, stdout=subprocess.PIPE, stderr=subprocess.DEVNULL,
                                  bufsize=0, env=env)
        self.q = queue.Queue()
        self.raw = bytearray()
        self.frame_errors = []
        self.next_id = INIT_ID
        self.pending = []
        self.t = threading.Thread(target=self._reader, daemon=True)
        self.t.start()


WRITE_MODES = ["whole", "chunks", "paced", "frames"]
WORKERS = [None, 2, None, 1, 4, None, 8, 3]


def write_burst(s, fr, mode, rng):
    data = b"".join(fr) + TAIL
    if mode == "whole":
        s.send_raw(data)
    elif mode == "chunks":
        pos = 0
        while pos < len(data):
            n = rng.choice([1, 7, 64, 512, 4096, 30000])
            if not s.send_raw(data[pos:pos + n]):
                return
            pos += n
    elif mode == "paced":
        pos = 0
        while pos < len(data):
            n = rng.choice([3000, 9000, 20000])
            if not s.send_raw(data[pos:pos + n]):
                return
            pos += n
            time.sleep(rng.choice([0, 0.0005, 0.002]))
    else:
        for f in fr:
            if not s.send_raw(f):
                return
        s.send_raw(TAIL)


def split_output(msgs):
    resp = [m for m in msgs if isinstance(m, dict) and "id" in m and "method" not in m]
    diag = [m for m in msgs if isinstance(m, dict) and m.get("method") == "textDocument/publishDiagnostics"]
    other = [m for m in msgs if not (isinstance(m, dict) and (("id" in m and "method" not in m)
                                                               or m.get("method") == "textDocument/publishDiagnostics"))]
    return resp, diag, other


def run_pipelined(exe, sess, rep=0, timeout=BURST_TIMEOUT, seed=0):
    """initialize, then the whole burst + shutdown + exit written without waiting for anything"""
    rng = random.Random(seed * 7919 + rep)
    mode = WRITE_MODES[rep % len(WRITE_MODES)]
    workers = WORKERS[rep % len(WORKERS)]
    s = Srv(exe, workers)
    t0 = time.time()
    try:
        try:
            r = s.initialize(diagnostics=sess["diag"], timeout=30.0)
        except queue.Empty:
            r = None
        if not isinstance(r, dict) or "result" not in r:
            return dict(complete=False, why="no initialize result: %r" % (r,), resp=[], diag=[], other=[], order="", mode=mode,
                        workers=workers, code=None, dt=time.time() - t0)
        th = threading.Thread(target=write_burst, args=(s, frames(sess), mode, rng), daemon=True)
        th.start()
        msgs, eof = s.drain(timeout)
        code = s.wait(10.0) if eof else None
        th.join(2.0)
        resp, diag, other = split_output(msgs)
        why = None
        if not eof:
            why = "no end of output within %.0fs" % timeout
        elif code != 0:
            why = "exit status %r" % (code,)
        elif s.frame_errors:
            why = "malformed output frames: %r" % s.frame_errors[:2]
        order = "".join("r" if ("id" in m and "method" not in m) else "d" for m in msgs if isinstance(m, dict))
        return dict(complete=why is None, why=why, resp=resp, diag=diag, other=other, order=order, mode=mode, workers=workers,
                    code=code, dt=time.time() - t0)
    finally:
        s.kill()


def run_sequential(exe, sess, timeout=30.0):
    """one message at a time: after every message a barrier request is answered before the next message is sent"""
    s = Srv(exe)
    got = []
    why = None
    try:
        try:
            r = s.initialize(diagnostics=sess["diag"], timeout=30.0)
        except queue.Empty:
            r = None
        if not isinstance(r, dict) or "result" not in r:
            return dict(complete=False, why="no initialize result", resp=[], diag=[], other=[])
        for i, f in enumerate(frames(sess)):
            s.send_raw(f)
            bid = BARRIER0 + i
            s.send({"jsonrpc": "2.0", "id": bid, "method": "$/verif/text", "params": {"uri": BARRIER_URI}})
            try:
                b = s.wait_response(bid, timeout, got)
            except queue.Empty:
                b = None
            if b is None:
                why = "no answer to the barrier after message %d" % (i + 1)
                break
        if why is None:
            s.send_raw(TAIL)
            msgs, eof = s.drain(timeout)
            got += msgs
            code = s.wait(10.0) if eof else None
            if not eof or code != 0:
                why = "no clean exit (eof=%s status=%r)" % (eof, code)
        resp, diag, other = split_output(got)
        return dict(complete=why is None, why=why, resp=resp, diag=diag, other=other)
    finally:
        s.kill()


class Reference:
    """diagnostics of a text = what a fresh server publishes when exactly this text is opened (one text at a time)"""

    def __init__(self, exe):
        self.exe = exe
        self.cache = {}
        self.lock = threading.Lock()
        self.opened = 0
        self.failed = 0

    def fill(self, texts):
        todo = sorted(set(t for t in texts if t not in self.cache))
        if not todo:
            return
        parts = [todo[i::4] for i in range(4) if todo[i::4]]
        with ThreadPoolExecutor(len(parts)) as ex:
            for res in ex.map(self._serve, parts):
                with self.lock:
                    self.cache.update(res)

    def _serve(self, texts):
        out = {}
        s = Srv(self.exe)
        try:
            s.initialize(diagnostics=True, timeout=30.0)
            for i, t in enumerate(texts):
                uri = "file:///verif-ref-%d.spl" % i
                s.open(uri, t)
                deadline = time.time() + 30.0
                while True:
                    m = s.read_msg(max(0.1, deadline - time.time()))
                    if m is None:
                        raise RuntimeError("reference server ended")
                    if m.get("method") == "textDocument/publishDiagnostics" and m["params"]["uri"] == uri:
                        out[t] = canon(m["params"]["diagnostics"])
                        break
                s.close(uri)
                with self.lock:
                    self.opened += 1
        except (queue.Empty, RuntimeError) as e:
            for t in texts:
                out.setdefault(t, "<reference failed: %r>" % (e,))
        finally:
            s.kill()
        return out

    def get(self, t):
        return self.cache[t]


def canon(x):
    return json.dumps(x, sort_keys=True, ensure_ascii=False)


# ---- judging one observed run ----
def encode_obs(sess, obs):
    """the observed streams in the encoding of judge command 21 mode 0"""
    kinds = {m[1]: m[0] for m in sess["msgs"] if m[0] in ("text", "req", "unknown", "init")}
    resp = [m for m in obs["resp"] if m.get("id") != SHUTDOWN_ID]
    out = [len(resp)]
    for m in resp:
        rid = m.get("id")
        out.append(rid if isinstance(rid, int) and rid >= 0 else 999999999)
        k = kinds.get(rid)
        if "error" in m and "result" not in m:
            code = m["error"].get("code") if isinstance(m["error"], dict) else None
            if k == "unknown" and code == -32601:
                out += [3, 0]
            elif k == "init" and code == -32600:
                out += [3, 1]
            else:
                out += [7, abs(code) if isinstance(code, int) else 0]
        elif "result" in m:
            res = m["result"]
            if k == "text" and res is None:
                out += [0]
            elif k == "text" and isinstance(res, str):
                out += [1, len(res)] + [ord(c) for c in res]
            elif k == "req":
                out += [2]
            else:
                out += [8]
        else:
            out += [8]
    out.append(len(obs["diag"]))
    for d in obs["diag"]:
        u = d.get("params", {}).get("uri")
        out.append(sess["uris"].index(u) if u in sess["uris"] else 99)
    return out


def is_prefix(a, b):
    return len(a) <= len(b) and b[:len(a)] == a


def oracle(sess, exp, obs, ref):
    """implementation-only oracles (a)-(d), (g) on one observed run; returns a list of (kind, detail).
    A complete run must show exactly the promised streams, an incomplete one a prefix of them."""
    bad = []
    complete = obs["complete"]
    resp = [m for m in obs["resp"] if m.get("id") != SHUTDOWN_ID]
    want_ids = [r[0] for r in exp["resp"]]
    got_ids = [m.get("id") for m in resp]
    if (got_ids != want_ids) if complete else (not is_prefix(got_ids, want_ids)):
        if is_prefix(got_ids, want_ids):
            bad.append(("c-missing-response", "only %d of %d responses" % (len(got_ids), len(want_ids))))
        else:
            i = next((j for j in range(min(len(got_ids), len(want_ids))) if got_ids[j] != want_ids[j]), min(len(got_ids), len(want_ids)))
            bad.append(("c-response-order", "response %d has id %r, request order prescribes %r" % (
                i + 1, got_ids[i] if i < len(got_ids) else None, want_ids[i] if i < len(want_ids) else None)))
    if complete and not any(m.get("id") == SHUTDOWN_ID and "result" in m for m in obs["resp"]):
        bad.append(("c-missing-response", "no response to shutdown"))
    byid = {r[0]: r for r in exp["resp"]}
    for m in resp:
        e = byid.get(m.get("id"))
        if e is None:
            continue
        rid, kind, val = e
        if kind == "text":
            if "result" not in m or m["result"] != val:
                what = "g-stale-or-wrong-text" if val is not None else "d-closed-document-remembered"
                bad.append((what, "request %d: server answered %r, the client's document is %r" % (rid, m.get("result", m.get("error")), val)))
                break
        elif kind == "req":
            if "result" not in m:
                bad.append(("c-request-failed", "request %d: %r" % (rid, m.get("error"))))
                break
        elif kind == "error":
            if not isinstance(m.get("error"), dict) or m["error"].get("code") != val:
                bad.append(("c-wrong-error", "request %d: %r, expected error code %d" % (rid, m.get("error", m.get("result")), val)))
                break
    if obs["other"]:
        bad.append(("unexpected-message", repr(obs["other"][:2])[:300]))
    uris = sess["uris"]
    got_d = [(d.get("params", {}).get("uri"), canon(d.get("params", {}).get("diagnostics"))) for d in obs["diag"]]
    if not sess["diag"]:
        if got_d:
            bad.append(("b-diagnostics-without-capability", "%d publishDiagnostics, first for %s" % (len(got_d), got_d[0][0])))
        return bad
    want_d = [(uris[u], t) for u, t in exp["diag"]]
    gu, wu = [g[0] for g in got_d], [w[0] for w in want_d]
    if (gu != wu) if complete else (not is_prefix(gu, wu)):
        bad.append(("a-diagnostics-stream", "publishDiagnostics for %r ..., the notifications prescribe %r ... (%d vs %d)" % (
            gu[:6], wu[:6], len(gu), len(wu))))
        return bad
    if ref is not None:
        last = {}
        for i, (u, _) in enumerate(want_d):
            last[u] = i
        for i, ((u, got), (_, t)) in enumerate(zip(got_d, want_d)):
            if ref.get(t).startswith("<reference failed"):
                ref.failed += 1           # infrastructure, counted in the evidence, never a verdict
                continue
            if ref.get(t) != got:
                final = complete and last[u] == i
                bad.append(("a-last-diagnostics" if final else "a-diagnostics-content",
                            "publishDiagnostics #%d (%s)%s: %s; a fresh server publishes for the text %r: %s" % (
                                i + 1, u, ", the last for this URI" if final else "", got[:300], t, ref.get(t)[:300])))
                if final:
                    break
        # report the final ones first
        bad.sort(key=lambda b: 0 if b[0] == "a-last-diagnostics" else 1)
        seen, uniq = set(), []
        for b in bad:
            if b[0] not in seen:
                seen.add(b[0])
                uniq.append(b)
        bad = uniq
    return bad


def same_behaviour(sess, a, b, what):
    """(e)/(f): the full JSON of every response (by id) and the diagnostics stream (uri, payload) of run a and run b"""
    ra = {m.get("id"): canon({k: v for k, v in m.items() if k in ("result", "error")}) for m in a["resp"]}
    rb = {m.get("id"): canon({k: v for k, v in m.items() if k in ("result", "error")}) for m in b["resp"]}
    for rid in sorted(k for k in ra if isinstance(k, int) and k < INIT_ID):
        if rid in rb and ra[rid] != rb[rid]:
            return (what, "response %d: %s  vs  %s" % (rid, ra[rid][:300], rb[rid][:300]))
        if rid not in rb:
            return (what, "response %d missing in the other run" % rid)
    da = [(d["params"]["uri"], canon(d["params"]["diagnostics"])) for d in a["diag"]]
    db = [(d["params"]["uri"], canon(d["params"]["diagnostics"])) for d in b["diag"]]
    if da != db:
        i = next((j for j in range(min(len(da), len(db))) if da[j] != db[j]), min(len(da), len(db)))
        return (what, "publishDiagnostics #%d: %s  vs  %s (%d vs %d notifications)" % (
            i + 1, repr(da[i])[:300] if i < len(da) else None, repr(db[i])[:300] if i < len(db) else None, len(da), len(db)))
    return None


def filtered(sess, u):
    """the session restricted to document u: its notifications and the requests that name it (ids kept)"""
    keep = [m for m in sess["msgs"] if (m[0] in ("open", "change", "close") and m[1] == u) or (m[0] == "text" and m[2] == u)
            or (m[0] == "req" and m[3] == u)]
    return {"diag": sess["diag"], "uris": sess["uris"], "msgs": keep}


def restrict(obs, sess, u):
    ids = set(m[1] for m in sess["msgs"] if (m[0] == "text" and m[2] == u) or (m[0] == "req" and m[3] == u))
    uri = sess["uris"][u]
    return dict(resp=[m for m in obs["resp"] if m.get("id") in ids],
                diag=[d for d in obs["diag"] if d.get("params", {}).get("uri") == uri])


def examine(exe, sess, reps, ref, seed=0, full=True, pool=None):
    """runs one session `reps` times pipelined (+ once sequentially, + once per URI filtered when `full`) and applies
    the implementation oracles.  Returns dict(failures=[(kind, detail, rep)], incomplete=[...], runs=[obs...])."""
    exp = client_expectation(sess)
    if ref is not None and sess["diag"]:
        ref.fill([t for _, t in exp["diag"]])

    def one(rep):
        return run_pipelined(exe, sess, rep, seed=seed)

    if pool is not None:
        runs = list(pool.map(one, range(reps)))
    else:
        runs = [one(r) for r in range(reps)]
    failures, incomplete = [], []
    for rep, obs in enumerate(runs):
        for kind, detail in oracle(sess, exp, obs, ref if sess["diag"] else None):
            failures.append((kind, detail, rep))
        if not obs["complete"]:
            incomplete.append((rep, obs["why"]))
    extra = 0
    if full:
        seqrun = run_sequential(exe, sess)
        extra += 1
        if not seqrun["complete"]:
            incomplete.append(("sequential", seqrun["why"]))
        else:
            for rep, obs in enumerate(runs):
                if obs["complete"]:
                    d = same_behaviour(sess, obs, seqrun, "f-pipelined-differs-from-sequential")
                    if d:
                        failures.append((d[0], d[1], rep))
                        break
        base = next((o for o in runs if o["complete"]), None)
        if base is not None and len(sess["uris"]) > 1:
            for u in range(len(sess["uris"])):
                fs = filtered(sess, u)
                if not fs["msgs"]:
                    continue
                fo = run_pipelined(exe, fs, rep=u, seed=seed + 1)
                extra += 1
                if not fo["complete"]:
                    incomplete.append(("filtered-%d" % u, fo["why"]))
                    continue
                d = same_behaviour(sess, restrict(base, sess, u), restrict(fo, fs, u), "e-isolation")
                if d:
                    failures.append((d[0], "document %s alone vs among the others: %s" % (sess["uris"][u], d[1]), 0))
    summaries = [dict(complete=o["complete"], why=o["why"], enc=encode_obs(sess, o), order=o["order"], dt=o["dt"],
                      mode=o["mode"], workers=o["workers"]) for o in runs]      # the raw messages are not kept
    return dict(failures=failures, incomplete=incomplete, runs=summaries, executions=len(runs) + extra, exp=exp)


def shrink(exe, sess, kinds, ref, budget=60.0):
    """delta debugging on the message list: keeps a sub-session on which an oracle of the same kind still fails"""
    t_end = time.time() + budget
    kinds = set(kinds)

    def fails(s):
        r = examine(exe, s, 3, ref, full=any(k[0] in "ef" for k in kinds))
        return any(f[0] in kinds for f in r["failures"])

    msgs = list(sess["msgs"])
    n = 2
    while len(msgs) >= 2 and time.time() < t_end:
        size = max(1, len(msgs) // n)
        chunks = [msgs[i:i + size] for i in range(0, len(msgs), size)]
        reduced = False
        for i in range(len(chunks)):
            if time.time() >= t_end:
                break
            cand = [m for j, c in enumerate(chunks) if j != i for m in c]
            if cand and fails(dict(sess, msgs=cand)):
                msgs, n, reduced = cand, max(n - 1, 2), True
                break
        if not reduced:
            if size == 1:
                break
            n = min(len(msgs), n * 2)
    return dict(sess, msgs=msgs)


# ---- corpus ----
def load_corpus():
    out = []
    if os.path.isdir(CORPUS):
        for f in sorted(os.listdir(CORPUS)):
            if f.endswith(".json"):
                c = json.load(open(os.path.join(CORPUS, f)))
                out.append((f, {"diag": c["diag"], "uris": c["uris"], "msgs": c["msgs"]}))
    return out


def describe(sess):
    h = {}
    for m in sess["msgs"]:
        h[m[0]] = h.get(m[0], 0) + 1
    return h


def nontrivial(sess):
    """more messages than both channel capacities together, and a `$/verif/text` after a change of the same open document"""
    if len(sess["msgs"]) <= 64:
        return False
    changed = set()
    for m in sess["msgs"]:
        if m[0] in ("open", "change"):
            changed.add(m[1])
        elif m[0] == "text" and m[2] in changed:
            return True
    return False


def run(ctx):
    ctx.level = LEVEL
    proved = common.proof_stage(ctx, ["theories/Judge/RunBroker.vo"])
    exe, log = common.build_server()
    if exe is None:
        ctx.violation(dict(kind="build-failure", what="lsp4spl does not build", log=log[-3000:]), no_input=True)
        return
    judge, jlog = common.build_judge()
    thorough = ctx.thorough()
    nsess, reps = (300, 20) if thorough else (20, 8)
    sizes = [200, 250, 300, 400, 500, 650, 800, 1000, 1300, 1600, 2000]
    sessions = [("corpus/" + f, s) for f, s in load_corpus()]
    ncorpus = len(sessions)
    for i in range(nsess):
        n = sizes[i % len(sizes)] if not thorough else ctx.rng.choice(sizes)
        sessions.append(("generated-%d" % i, gen_session(ctx.rng, n, diag=(i % 3 != 2), k=[2, 3, 1, 4, 2, 3, 4][i % 7])))
    seed = ctx.rng.randrange(1 << 30)

    # the model's expectation (extracted judge): both streams, and the texts behind every publishDiagnostics
    model0 = model1 = None
    if judge:
        model0 = common.run_lines(judge, [" ".join(map(str, model_cmd(s, 0))) for _, s in sessions])
        model1 = common.run_lines(judge, [" ".join(map(str, model_cmd(s, 1))) for _, s in sessions])

    # request order on a large document (handlers take tens of milliseconds there)
    big_bad = []
    for k in range(6 if thorough else 2):
        sd = ctx.seed * 131 + k
        bad = big_document_order(exe, 12, sd)
        if bad and all(big_document_order(exe, 12, sd) for _ in range(2)):
            big_bad.append((sd, bad))
    for sd, bad in big_bad[:1]:
        ctx.violation(dict(kind="big-document-order", property="C20", requests=12, seed=sd, **bad))
    ctx.cov["big_document_order_sessions"] = 6 if thorough else 2
    # many documents in one session (counts past every round number a server might cap its store at)
    many = [70, 130, 300] + ([520, 1100] if thorough else [])
    for n in many:
        bad = many_documents(exe, n, ctx.seed + n)
        if bad and many_documents(exe, n, ctx.seed + n):
            ctx.violation(dict(kind="many-documents", property="C20", opens=n, seed=ctx.seed + n, **bad))
            break
    ctx.cov["many_documents_sessions"] = many

    ref = Reference(exe)
    results = []
    t_run = time.time()
    with ThreadPoolExecutor(RUNNERS) as pool:
        results = list(pool.map(lambda idx: examine(exe, sessions[idx][1], reps, ref, seed=seed + idx, full=True),
                                range(len(sessions))))
    t_run = time.time() - t_run

    # --- implementation oracles: wrong output counts at once, missing output only when it reproduces three times
    reported = 0
    confirmed_kinds = []
    unconfirmed = 0
    for idx, ((name, sess), res) in enumerate(zip(sessions, results)):
        wrong = [f for f in res["failures"] if f[0] != "c-missing-response"]
        missing = [f for f in res["failures"] if f[0] == "c-missing-response"] or (
            [("incomplete-run", "%s: %s" % (r, w), r) for r, w in res["incomplete"]])
        if not wrong and missing:
            again = [run_pipelined(exe, sess, rep=0, timeout=2 * BURST_TIMEOUT, seed=seed + 77 + k) for k in range(3)]
            exp = res["exp"]
            still = [[k for k, _ in oracle(sess, exp, o, None)] + ([] if o["complete"] else ["incomplete: %s" % o["why"]]) for o in again]
            if all(still):
                wrong = [(missing[0][0], missing[0][1] + " (reproduced in three fresh processes: %r)" % (still,), missing[0][2])]
            else:
                unconfirmed += 1
        if wrong and reported < 3:
            kinds = sorted(set(f[0] for f in wrong))
            small = sess
            if not kinds[0].startswith(("c-missing", "incomplete")):
                try:
                    small = shrink(exe, sess, kinds, ref, budget=90.0 if thorough else 45.0)
                except Exception:       # shrinking is best effort
                    small = sess
            confirmed_kinds += kinds
            reported += 1
            ctx.violation(dict(kind="oracle", property="C20", origin=name, failed=kinds,
                               details=[dict(oracle=k, what=d, repetition=r) for k, d, r in wrong[:6]],
                               session=small, session_messages=len(small["msgs"]), original_messages=len(sess["msgs"]),
                               original_session=sess if len(sess["msgs"]) <= 400 and small is not sess else None,
                               what="the built server, fed this session (initialize, then all messages written without waiting, "
                                    "then shutdown/exit), breaks the named promise of property C20; "
                                    "./check C20 --replay <this file> runs it again"))

    # --- correspondence: every observed run against the Coq model (command 21)
    mism = []
    traces = 0
    kernel_cases, kfail, nk = [], [], 0
    if judge:
        for idx, ((name, sess), res) in enumerate(zip(sessions, results)):
            want = [int(x) for x in model0[idx].split()]
            for rep, obs in enumerate(res["runs"]):
                got = obs["enc"]
                traces += 1
                if obs["complete"]:
                    if got != want:
                        mism.append((idx, rep, "streams differ from Broker.seq_run"))
                    elif rep == 0 and len(sess["msgs"]) <= 420:
                        kernel_cases.append((model_cmd(sess, 0), got))
                # an incomplete run is judged by the oracle (prefix) and the three-fold rerun above
            # the model's diagnostics texts = the client's (so that the reference diagnostics were asked for the model's texts)
            m1 = parse_mode1([int(x) for x in model1[idx].split()])
            if m1 != list(res["exp"]["diag"]):
                mism.append((idx, -1, "texts behind publishDiagnostics: model %r..., client %r..." % (m1[:2], res["exp"]["diag"][:2])))
        kernel_cases = kernel_cases[:ncorpus] + kernel_cases[ncorpus:][:(12 if thorough else 4)]
        nk = len(kernel_cases)
        if kernel_cases:
            kfail = common.kernel_judge("C20", kernel_cases, shard=1)
    if not ctx.violations:
        if mism or kfail:
            if mism:
                idx, rep, why = mism[0]
                name, sess = sessions[idx]
                ctx.violation(dict(kind="correspondence", property="C20", origin=name, repetition=rep, what=why,
                                   model=model0[idx][:4000], observed=" ".join(map(str, results[idx]["runs"][max(rep, 0)]["enc"]))[:4000],
                                   session=sess if len(sess["msgs"]) <= 400 else None, mismatches=len(mism)), no_input=True)
            else:
                ctx.violation(dict(kind="correspondence", property="C20", what="kernel judge (coqc vm_compute) disagrees with the extracted judge",
                                   cases=kfail[:5]), no_input=True)
        elif judge is None or not proved:
            ctx.violation(dict(kind="proof", property="C20", detail=getattr(ctx, "proof_failure", jlog[-2000:])), no_input=True)

    # --- evidence
    hist = {}
    for _, s in sessions:
        for k, v in describe(s).items():
            hist[k] = hist.get(k, 0) + v
    change_kinds = {"ranged": 0, "full-text": 0, "batched-notifications": 0, "on-closed-document": 0}
    for _, s in sessions:
        is_open = [False] * len(s["uris"])
        for m in s["msgs"]:
            if m[0] == "open":
                is_open[m[1]] = True
            elif m[0] == "close":
                is_open[m[1]] = False
            elif m[0] == "change":
                if not is_open[m[1]]:
                    change_kinds["on-closed-document"] += 1
                if len(m[2]) > 1:
                    change_kinds["batched-notifications"] += 1
                for c in m[2]:
                    change_kinds["ranged" if c[0] is not None else "full-text"] += 1
    orders = [len(set(o["order"] for o in r["runs"])) for r in results]
    scheme_pairs = sum(1 for _, s in sessions if "file:///a.spl" in s["uris"] and "untitled:///a.spl" in s["uris"])
    executions = sum(r["executions"] for r in results)
    sample = sessions[ncorpus][1] if len(sessions) > ncorpus else sessions[0][1]
    ctx.cov.update({
        "evaluations": executions,
        "distinct_nontrivial": len(set(session_key(s) for _, s in sessions if nontrivial(s))),
        "rule": "sessions = initialize (2 of 3 with the publishDiagnostics capability), then a burst of 200-2000 messages written "
                "without waiting (didOpen / didChange ranged, batched, full-text, also on closed documents / didClose / "
                "`$/verif/text` / hover, foldingRange / unknown methods, repeated initialize / other notifications) over 1-4 URIs "
                "(3 of 4 multi-URI sessions contain file:///a.spl and untitled:///a.spl), then one `$/verif/text` per URI, shutdown, "
                "exit; each session runs %d times against the built binary with varying write segmentation and "
                "TOKIO_WORKER_THREADS, once with one message at a time, once per URI filtered to that URI. "
                "evaluations = server executions. distinct_nontrivial = distinct sessions with more than 64 messages (both "
                "channel capacities) that contain a `$/verif/text` after a change of the same document" % reps,
        "sessions": len(sessions), "corpus_sessions": ncorpus, "repetitions": reps,
        "messages_total": sum(len(s["msgs"]) for _, s in sessions),
        "input_histogram": dict(messages=hist, content_changes=change_kinds,
                                sessions_with_capability=sum(1 for _, s in sessions if s["diag"]),
                                sessions_without_capability=sum(1 for _, s in sessions if not s["diag"]),
                                sessions_with_scheme_only_differing_uris=scheme_pairs,
                                uris_per_session={str(k): sum(1 for _, s in sessions if len(s["uris"]) == k) for k in (1, 2, 3, 4)}),
        "distinct_interleavings_per_session": dict(min=min(orders), max=max(orders), mean=round(sum(orders) / len(orders), 2),
                                                   note="distinct merge orders of responses and diagnostics among the repetitions of a "
                                                        "session (a lower bound on the schedules exercised)"),
        "traces_validated_against_impl": traces if judge else 0,
        "kernel_judge_cases": nk,
        "correspondence_mismatches": len(mism) + len(kfail),
        "unconfirmed_deviations": unconfirmed,
        "reference_texts_opened": ref.opened, "reference_lookups_failed": ref.failed,
        "seconds_running_sessions": round(t_run, 1),
        "slowest_burst_seconds": round(max(o["dt"] for r in results for o in r["runs"]), 2),
        "samples": [dict(diag=sample["diag"], uris=sample["uris"], first_messages=sample["msgs"][:12], messages=len(sample["msgs"]),
                         model_streams=(model0[ncorpus][:300] + " ...") if model0 and len(sessions) > ncorpus else None)],
        "explanation": "Props/C20.v (all closed): every schedule of the reader/broker/responder model refines the sequential "
                       "specification on the response stream and on the publishDiagnostics stream, at quiescence and as prefixes at "
                       "every moment; response order; read-your-writes; last diagnostics; capability; isolation (map, responses, "
                       "diagnostics); closed documents; no deadlock, termination, bounded work. The binary is compared with the "
                       "sequential specification (instantiated with the Doc.v text model) on every repetition; tokio's scheduler and "
                       "OS pipes are exercised, not modelled.",
    })
    ctx.assumptions = [
        "the model quantifies over all interleavings of the three tasks at channel-operation granularity; tokio's scheduler, its "
        "fairness, OS pipe buffering and the blocking stdin thread are not modelled (observed on the binary only)",
        "mpsc channels are FIFO and bounded; the responder can always write (stdout is drained by the client)",
        "document analysis and feature handlers are abstract functions of the stored state; well-formed params, i32 ids",
        "ranged edits are generated only on documents without `proc` / `type` (incremental re-analysis of declarations is property "
        "C01's subject); documents with declarations are opened and replaced as a whole",
    ]
    if thorough and proved:
        if not common.coqchk(ctx):
            ctx.violation(dict(kind="proof", property="C20", detail="coqchk failed or reports axioms", out=ctx.cov.get("coqchk")), no_input=True)


def big_document_order(exe, nreq, seed):
    """request order under load on a document whose handlers take tens of milliseconds (250 procedures, ~30 kB): didOpen, then
    `nreq` pipelined requests of all kinds (formatting among them) written in one piece, then shutdown / exit.  Returns None or
    a description: responses must carry the ids in request order, each exactly once."""
    import random
    from props import c18
    rng = random.Random(seed)
    kinds = [k for k in c18.REQUEST_KINDS]
    body = [rng.choice(kinds) for _ in range(nreq)]
    for _ in range(3):
        body.insert(rng.randrange(len(body)), "format")
    sess = ["initialize", "initialized", "bigdoc"] + body + ["shutdown", "exit"]
    data = b"".join(c18.frames(sess))
    s = lspclient.Server(exe)
    try:
        s.send_raw(data)
        msgs, eof = s.drain(120.0)
        code = s.wait(10.0)
    finally:
        s.kill()
    ids = [m.get("id") for m in msgs if isinstance(m, dict) and "id" in m and "method" not in m]
    want = [pos for pos, sym in enumerate(sess, 1) if c18.SYMS[sym][0]]
    if ids != want:
        return dict(session=sess, response_ids=ids, request_ids=want, exit_code=code,
                    what="responses do not come back in request order / not exactly one per request on a large document")
    return None


def many_documents(exe, nopen, seed):
    """one long-lived document that is never closed, and `nopen` other documents opened, changed and (most of them) closed
    again, pipelined; at the end the long-lived document must still be known with its own text, must follow one more change,
    and every document still open must hold its own text.  Returns None or a description."""
    import random
    rng = random.Random(seed)
    s = lspclient.Server(exe)
    try:
        s.initialize(diagnostics=False)
        keep = "file:///keep/main.spl"
        texts = {keep: "proc main() {\n  x := 1;\n}\n"}
        s.open(keep, texts[keep])
        for k in range(nopen):
            u = "file:///many/d%d.spl" % (k % max(3, nopen // 3))      # URIs are reused: open, close, open again
            if u in texts:
                s.close(u)
                del texts[u]
            texts[u] = "// %d\nproc p%d() { }\n" % (k, k)
            s.open(u, texts[u])
            if rng.random() < 0.5:
                s.change(u, [{"text": texts[u] + "// v2\n"}], version=2)
                texts[u] += "// v2\n"
            if rng.random() < 0.6:
                s.close(u)
                del texts[u]
        s.change(keep, [{"range": {"start": {"line": 1, "character": 7}, "end": {"line": 1, "character": 8}}, "text": "42"}], version=2)
        texts[keep] = "proc main() {\n  x := 42;\n}\n"
        for u in sorted(texts):
            try:
                r = s.request("$/verif/text", {"uri": u}, timeout=60.0)
            except Exception:  # noqa
                r = None
            got = r.get("result") if isinstance(r, dict) else "<no answer>"
            if got != texts[u]:
                return dict(documents_opened=nopen + 1, uri=u, client_text=texts[u], server_text=got,
                            what="after %d didOpen notifications in one session (most documents closed again) the server's text of a "
                                 "document that is still open differs from the client's (null = the server does not know it)" % (nopen + 1))
        try:
            r = s.request("textDocument/foldingRange", {"textDocument": {"uri": keep}}, timeout=30.0)
        except Exception:  # noqa
            r = None
        if not isinstance(r, dict) or not isinstance(r.get("result"), list) or len(r["result"]) != 1:
            return dict(documents_opened=nopen + 1, uri=keep, answer=r,
                        what="the long-lived document is no longer answered for after many other documents were opened and closed")
    finally:
        s.kill()
    return None


def replay(ctx, path):
    r = json.load(open(path))
    if r.get("kind") == "many-documents":
        exe, _ = common.build_server()
        bad = many_documents(exe, r["opens"], r["seed"])
        print(bad or "every open document keeps its text")
        return 1 if bad else 0
    if r.get("kind") == "big-document-order":
        exe, _ = common.build_server()
        bad = big_document_order(exe, r["requests"], r["seed"])
        print(bad or "responses in request order")
        return 1 if bad else 0
    sess = r.get("session") or r.get("original_session") or (r if "msgs" in r else None)      # replay file or corpus file
    if not sess:
        print(json.dumps(r, indent=1)[:4000])
        return 1
    sess = {"diag": sess["diag"], "uris": sess["uris"], "msgs": sess["msgs"]}
    exe, log = common.build_server()
    if exe is None:
        print(log[-2000:])
        return 1
    ref = Reference(exe)
    res = examine(exe, sess, 6, ref, seed=ctx.seed, full=True)
    judge, _ = common.build_judge()
    bad = list(res["failures"])
    if judge:
        want = [int(x) for x in common.run_lines(judge, [" ".join(map(str, model_cmd(sess, 0)))])[0].split()]
        for rep, obs in enumerate(res["runs"]):
            if obs["complete"] and obs["enc"] != want:
                bad.append(("model", "streams differ from Broker.seq_run (command 21)", rep))
    for rep, why in res["incomplete"]:
        print("incomplete run %s: %s" % (rep, why))
    seen = {}
    for k, d, rep in bad:
        seen.setdefault(k, [d, []])[1].append(rep)
    for k, (d, where) in seen.items():
        print("FAILS %s in repetitions %s: %s" % (k, where, d[:1200]))
    print("%d messages, %d runs, %d failures" % (len(sess["msgs"]), res["executions"], len(bad)))
    return 1 if bad or res["incomplete"] else 0
