"""C18 - JSON-RPC/LSP lifecycle conformance and clean termination."""
import itertools
import json
import os
import queue
import time
from concurrent.futures import ThreadPoolExecutor

import common
import lspclient

# symbol -> (is_request, method code of Judge.Run.LC.meth_of, JSON-RPC method, params)
HOVER = {"textDocument": {"uri": "file:///nowhere.spl"}, "position": {"line": 0, "character": 0}}
OPEN = {"textDocument": {"uri": "file:///a.spl", "languageId": "spl", "version": 1, "text": "proc main() {}\n"}}
SYMS = {
    "initialize": (1, 0, "initialize", {"processId": None, "rootUri": None, "capabilities": {}}),
    "initialized": (0, 3, "initialized", {}),
    "supported": (1, 2, "textDocument/hover", HOVER),
    "unknownreq": (1, 6, "workspace/symbolFoo", {}),
    "docnote": (0, 5, "textDocument/didOpen", OPEN),
    "unknownnote": (0, 6, "$/setTrace", {"value": "off"}),
    # $/cancelRequest: a notification like any other for the lifecycle (the server answers every request itself, in order);
    # the id is filled in by frames(): the request at the NEXT position / two positions later / the previous position
    "cancel-next": (0, 6, "$/cancelRequest", {"id": +1}),
    "cancel-later": (0, 6, "$/cancelRequest", {"id": +2}),
    "cancel-previous": (0, 6, "$/cancelRequest", {"id": -1}),
    "shutdown": (1, 1, "shutdown", None),
    "exit": (0, 4, "exit", None),
    # odd combinations outside the 8-symbol alphabet (random stream only)
    "exit-as-request": (1, 4, "exit", None),
    "initialized-as-request": (1, 3, "initialized", {}),
    "initialize-as-notification": (0, 0, "initialize", {"capabilities": {}}),
    "shutdown-as-notification": (0, 1, "shutdown", None),
    "fold": (1, 2, "textDocument/foldingRange", {"textDocument": {"uri": "file:///nowhere.spl"}}),
    # every other request kind, on the document `docnote` opens (a handler that answers from a task of its own, or later than
    # its successors, shows up as responses out of request order)
    "format": (1, 2, "textDocument/formatting", {"textDocument": {"uri": "file:///a.spl"}, "options": {"tabSize": 2, "insertSpaces": True}}),
    "semtok": (1, 2, "textDocument/semanticTokens/full", {"textDocument": {"uri": "file:///a.spl"}}),
    "complete": (1, 2, "textDocument/completion", {"textDocument": {"uri": "file:///a.spl"}, "position": {"line": 0, "character": 13}}),
    "refs": (1, 2, "textDocument/references", {"textDocument": {"uri": "file:///a.spl"}, "position": {"line": 0, "character": 6},
                                                "context": {"includeDeclaration": True}}),
    "rename": (1, 2, "textDocument/rename", {"textDocument": {"uri": "file:///a.spl"}, "position": {"line": 0, "character": 6}, "newName": "m"}),
    "sighelp": (1, 2, "textDocument/signatureHelp", {"textDocument": {"uri": "file:///a.spl"}, "position": {"line": 0, "character": 13}}),
    "goto": (1, 2, "textDocument/definition", {"textDocument": {"uri": "file:///a.spl"}, "position": {"line": 0, "character": 6}}),
}
BIG_TEXT = "".join("// procedure %d\nproc p%d(a: int, ref b: int) {\n  var i: int;\n  i := a * %d + b;\n  while (i < 10) { i := i + 1; }\n  b := i;\n}\n\n" % (k, k, k)
                   for k in range(250)) + "proc main() { }\n"
# the same document kind of notification as `docnote`, with a text of ~25 kB: handlers take tens of milliseconds on it
SYMS["bigdoc"] = (0, 5, "textDocument/didOpen", {"textDocument": {"uri": "file:///a.spl", "languageId": "spl", "version": 1, "text": BIG_TEXT}})
REQUEST_KINDS = ["supported", "fold", "format", "semtok", "complete", "refs", "rename", "sighelp", "goto", "unknownreq"]
BASE = ["initialize", "initialized", "supported", "unknownreq", "docnote", "unknownnote", "shutdown", "exit"]
CANCELS = ["cancel-next", "cancel-later", "cancel-previous"]
CODES = {-32002: 1, -32600: 2, -32601: 3}


IDMAP = None     # position -> request id; None = the position itself


def odd_ids(n):
    """request ids a client may legally use: negative, zero, the ends of the i32 range - all different"""
    pool = [-1, 0, -2147483648, 2147483647, -7, 1000000007, -2147483647, 2147483646]
    return {pos: (pool[pos - 1] if pos <= len(pool) else -pos * 1000) for pos in range(1, n + 1)}


def frames(session, idmap=None):
    out = []
    for pos, sym in enumerate(session, 1):
        isreq, _, method, params = SYMS[sym]
        m = {"jsonrpc": "2.0", "method": method}
        if isreq:
            m["id"] = idmap[pos] if idmap else pos
        if params is not None:
            if method == "$/cancelRequest":
                target = max(1, pos + params["id"])
                params = {"id": idmap[target] if idmap and target in idmap else target}
            m["params"] = params
        out.append(lspclient.frame(m))
    return out


def command(session, clean=True, upto=None):
    syms = session if upto is None else session[:upto]
    return "3 %d " % (1 if clean else 0) + " ".join("%d %d" % SYMS[s][:2] for s in syms)


def observe(exe, data, timeout=None, idmap=None):
    timeout = max(timeout or 6.0, 90.0 if len(data) > 20000 else 0.0)
    """feeds `data` then end-of-input; returns (encoding list or None on hang, seconds to exit); with `idmap` the response ids
    are translated back to message positions (an id the client never used stays as it is)"""
    back = {v: k for k, v in idmap.items()} if idmap else None
    s = lspclient.Server(exe)
    try:
        s.send_raw(data)
        t0 = time.time()
        s.close_stdin()
        msgs, eof = s.drain(timeout)
        code = s.wait(timeout)
        dt = time.time() - t0
        if code is None or not eof:
            return None, dt, "no exit within %.0fs (eof on stdout: %s)" % (timeout, eof)
        if s.frame_errors:
            return None, dt, "malformed output frames: %r" % s.frame_errors[:2]
        out = [code if code >= 0 else 256 + code]
        resps = [m for m in msgs if "id" in m and "method" not in m]
        out.append(len(resps))
        for m in resps:
            if back is not None:
                m = dict(m, id=back.get(m.get("id"), m.get("id")))
            if "error" in m and "result" not in m:
                out += [m["id"], CODES.get(m["error"].get("code"), 9)]
            elif "result" in m and "error" not in m and m.get("jsonrpc") == "2.0":
                out += [m["id"], 0]
            else:
                out += [m["id"], 8]
        return out, dt, None
    finally:
        s.kill()


def slow_reader(exe, n, size, pause, timeout=40.0):
    """a client that pipelines initialize, initialized, n requests with an unknown method whose name has `size` bytes (each error
    answer repeats it), shutdown, exit - and does not read the server's output for `pause` seconds, so that far more response
    bytes are pending than the stdout pipe holds.  Every request must still get exactly one response, in order; exit status 0.
    Returns None or a description of what went wrong."""
    import subprocess
    import threading
    msgs = [{"jsonrpc": "2.0", "id": 1, "method": "initialize", "params": {"processId": None, "rootUri": None, "capabilities": {}}},
            {"jsonrpc": "2.0", "method": "initialized", "params": {}}]
    for k in range(n):
        msgs.append({"jsonrpc": "2.0", "id": 2 + k, "method": "x/%d/" % k + "y" * size, "params": {}})
    msgs.append({"jsonrpc": "2.0", "id": 2 + n, "method": "shutdown"})
    msgs.append({"jsonrpc": "2.0", "method": "exit"})
    data = b"".join(lspclient.frame(m) for m in msgs)
    env = dict(os.environ, RUST_BACKTRACE="0", RUST_LIB_BACKTRACE="0")
    p = subprocess.Popen([exe], stdin=subprocess.PIPE, stdout=subprocess.PIPE, stderr=subprocess.DEVNULL, bufsize=0, env=env)

    def feed():
        try:
            p.stdin.write(data)
            p.stdin.flush()
        except Exception:  # noqa
            pass
    th = threading.Thread(target=feed, daemon=True)
    th.start()
    time.sleep(pause)
    out = bytearray()
    got = {}

    def suck():
        while True:
            b = p.stdout.read(65536)
            if not b:
                break
            out.extend(b)
    rd = threading.Thread(target=suck, daemon=True)
    rd.start()
    rd.join(timeout)
    try:
        code = p.wait(timeout=5)
    except subprocess.TimeoutExpired:
        code = None
    try:
        p.kill()
    except Exception:  # noqa
        pass
    for fh in (p.stdin, p.stdout):
        try:
            fh.close()
        except Exception:  # noqa
            pass
    ids, pos, raw = [], 0, bytes(out)
    while pos < len(raw):
        i = raw.find(b"\r\n\r\n", pos)
        if i < 0:
            return "trailing bytes without a frame head: %r" % raw[pos:pos + 60]
        try:
            ln = int(raw[pos:i].decode("ascii").split(":")[1])
            body = json.loads(raw[i + 4:i + 4 + ln].decode("utf-8"))
        except Exception as e:  # noqa
            return "malformed frame at byte %d: %s" % (pos, e)
        if "id" in body and "method" not in body:
            ids.append(body["id"])
        pos = i + 4 + ln
    if ids != list(range(1, n + 3)):
        missing = [k for k in range(1, n + 3) if k not in ids]
        return "responses carry the ids %r...; missing %r (of %d requests), exit status %r" % (ids[:8], missing[:8], n + 2, code)
    if code != 0:
        return "exit status %r after shutdown/exit" % code
    return None


def gen(ctx):
    cases = []  # (origin, session, byte data, command)
    maxlen = 5 if ctx.thorough() else 3
    for k in range(maxlen + 1):
        for sess in itertools.product(BASE, repeat=k):
            sess = list(sess)
            cases.append(("exhaustive", sess, b"".join(frames(sess)), command(sess)))
    if not ctx.thorough():
        for sess in ctx.rng.sample(list(itertools.product(BASE, repeat=4)), 1000):
            sess = list(sess)
            cases.append(("length4-sample", sess, b"".join(frames(sess)), command(sess)))
    allsyms = list(SYMS)
    for _ in range(600 if ctx.thorough() else 150):
        sess = [ctx.rng.choice(allsyms if ctx.rng.random() < 0.5 else BASE) for _ in range(ctx.rng.randint(5, 12))]
        cases.append(("random", sess, b"".join(frames(sess)), command(sess)))
    # pipelined sessions on an open document that mix all request kinds: responses must come back in request order
    for _ in range(300 if ctx.thorough() else 60):
        body = [ctx.rng.choice(REQUEST_KINDS) for _ in range(ctx.rng.randint(3, 10))]
        if "format" not in body:
            body.insert(ctx.rng.randrange(len(body)), "format")
        sess = ["initialize", "initialized", "docnote"] + body + (["shutdown", "exit"] if ctx.rng.random() < 0.7 else [])
        cases.append(("request-kinds", sess, b"".join(frames(sess)), command(sess)))
    for _ in range(40 if ctx.thorough() else 8):
        body = [ctx.rng.choice(REQUEST_KINDS) for _ in range(ctx.rng.randint(4, 10))]
        body.insert(ctx.rng.randrange(len(body) - 1), "format")
        sess = ["initialize", "initialized", "bigdoc"] + body + ["shutdown", "exit"]
        cases.append(("request-kinds-big-document", sess, b"".join(frames(sess)), command(sess)))
    # clients that cancel: ahead of the request, behind it, with the id used again by a later request
    for _ in range(200 if ctx.thorough() else 50):
        body = [ctx.rng.choice(BASE + CANCELS * 2) for _ in range(ctx.rng.randint(3, 9))]
        sess = (["initialize", "initialized"] if ctx.rng.random() < 0.85 else []) + body + (["shutdown", "exit"] if ctx.rng.random() < 0.6 else [])
        im = odd_ids(len(sess)) if ctx.rng.random() < 0.3 else None
        cases.append(("cancel", sess, b"".join(frames(sess, im)), command(sess)) + ((im,) if im else ()))
    # the same kind of sessions with request ids from all over the i32 range (negative, zero, extremes)
    for _ in range(200 if ctx.thorough() else 40):
        body = [ctx.rng.choice(BASE) for _ in range(ctx.rng.randint(1, 6))]
        sess = (["initialize", "initialized"] if ctx.rng.random() < 0.8 else []) + body
        im = odd_ids(len(sess))
        cases.append(("odd-ids", sess, b"".join(frames(sess, im)), command(sess), im))
    # a frame with correct headers whose body is not a JSON-RPC message: the stream is broken at that point - the server answers
    # what came before, exits with status 1 and looks at NOTHING behind it (in particular it does not slide into the next phase)
    bad_bodies = [b"{}", b'{"jsonrpc":"2.0","id":"five"}', b"[1,2]", b'{"jsonrpc":"2.0","method":', b"null", b'{"id":1}', b"\xff\xfe"]
    for _ in range(120 if ctx.thorough() else 30):
        body = [ctx.rng.choice(BASE) for _ in range(ctx.rng.randint(1, 6))]
        sess = (["initialize", "initialized"] if ctx.rng.random() < 0.7 else []) + body
        k = ctx.rng.randrange(0, len(sess))
        fr = frames(sess)
        bb = ctx.rng.choice(bad_bodies)
        bad = b"Content-Length: %d\r\n\r\n" % len(bb) + bb
        data = b"".join(fr[:k]) + bad + b"".join(fr[k:])
        cases.append(("bad-body", sess[:k] + ["<bad body %r>" % bb] + sess[k:], data, command(sess, False, k)))
    # every byte prefix of some sessions, followed by end-of-input
    for _ in range(20 if ctx.thorough() else 6):
        body = [ctx.rng.choice(BASE) for _ in range(ctx.rng.randint(2, 5))]
        sess = ["initialize", "initialized"] + body if ctx.rng.random() < 0.7 else body
        fr = frames(sess)
        data = b"".join(fr)
        ends = list(itertools.accumulate(len(f) for f in fr))
        step = 1 if ctx.thorough() else 3
        for cut in range(0, len(data) + 1, step):
            full = sum(1 for e in ends if e <= cut)
            clean = cut in ends or cut == 0
            cases.append(("prefix", sess[:full] + ["<cut@%d>" % cut], data[:cut], command(sess, clean, full)))
    return cases


def run(ctx):
    proved = common.proof_stage(ctx)
    exe, log = common.build_server()
    if exe is None:
        ctx.violation(dict(kind="build-failure", what="lsp4spl does not build", log=log[-3000:]), no_input=True)
        return
    judge, jlog = common.build_judge()
    cases = gen(ctx)
    expected = common.run_lines(judge, [c[3] for c in cases]) if judge else None

    def one(c):
        return observe(exe, c[2], idmap=(c[4] if len(c) > 4 else None))

    with ThreadPoolExecutor(4) as ex:
        obs = list(ex.map(one, cases))
    bad = []
    slow = 0.0
    for i, (c, (enc_, dt, why)) in enumerate(zip(cases, obs)):
        slow = max(slow, dt)
        got = " ".join(map(str, enc_)) if enc_ is not None else None
        if expected is not None and got != expected[i]:
            bad.append(i)
    # no alarms from timing: a deviation counts only if it reproduces in three fresh processes
    confirmed = []
    for i in sorted(bad, key=lambda i: len(cases[i][2]))[:40]:
        again = [observe(exe, cases[i][2], timeout=15.0, idmap=(cases[i][4] if len(cases[i]) > 4 else None)) for _ in range(3)]
        gots = [" ".join(map(str, a[0])) if a[0] is not None else None for a in again]
        if all(g != expected[i] for g in gots):
            confirmed.append((i, gots, [a[2] for a in again]))
    for i, gots, whys in confirmed[:3]:
        ctx.violation(dict(kind="oracle", property="C18", session=cases[i][1], origin=cases[i][0],
                           request_ids=({str(k): v for k, v in cases[i][4].items()} if len(cases[i]) > 4 else None),
                           bytes=cases[i][2].decode("utf-8", "replace"),
                           expected_by_specification=expected[i], observed=gots, notes=whys,
                           encoding="status, #responses, then (id, 0=result 1=ServerNotInitialized 2=InvalidRequest 3=MethodNotFound)*",
                           what="response stream / exit status differ from the lifecycle specification (Spec/Session.v), "
                                "which the model is proved to implement (C18_conformance)"))
    # a client that is slow to read: responses must wait in the pipe, not get lost
    slow_cfg = [(30, 16384, 2.5), (200, 2048, 1.5)] + ([(60, 65536, 4.0)] if ctx.thorough() else [])
    slow_bad = []
    for (n, size, pause) in slow_cfg:
        why = slow_reader(exe, n, size, pause)
        if why and all(slow_reader(exe, n, size, pause) for _ in range(2)):
            slow_bad.append((n, size, pause, why))
    for n, size, pause, why in slow_bad[:1]:
        ctx.violation(dict(kind="oracle", property="C18", slow_reader=dict(requests=n, method_name_bytes=size, pause_s=pause), what=
                           "a client that reads the output only after a pause (more response bytes pending than the stdout pipe holds) does "
                           "not get exactly one response per request in order: " + why))
        confirmed.append(("slow", n, size))
    # one response far beyond every write buffer (3 MiB), followed by further requests, shutdown and exit
    from props import c19
    bigp, _ = c19.big_check(exe, 3 << 20, 1 << 16, [])
    if bigp and all(c19.big_check(exe, 3 << 20, 1 << 16, [])[0] for _ in range(2)):
        ctx.violation(dict(kind="oracle", property="C18", big=dict(n_out=3 << 20, n_in=1 << 16), problems=bigp[:4], what=
                           "a session with a response of 3 MiB: not every request gets its response / exit status: " + bigp[0]))
        confirmed.append(("big", 0, 0))
    ctx.cov["slow_reader_sessions"] = [dict(requests=n, method_name_bytes=s, pause_s=p) for n, s, p in slow_cfg]
    # kernel judge on a sample: the same comparison made by coqc's VM
    kfail = []
    nk = 0
    if judge:
        pick = ctx.rng.sample(range(len(cases)), min(len(cases), 800 if ctx.thorough() else 300))
        kc = [([int(x) for x in cases[i][3].split()], obs[i][0]) for i in pick if obs[i][0] is not None and i not in bad]
        nk = len(kc)
        kfail = common.kernel_judge("C18", kc)
    if not confirmed:
        if kfail:
            ctx.violation(dict(kind="correspondence", property="C18", what="kernel judge disagrees with extracted judge", cases=kfail[:5]), no_input=True)
        elif judge is None or not proved:
            ctx.violation(dict(kind="proof", property="C18", detail=getattr(ctx, "proof_failure", jlog[-2000:])), no_input=True)
    hist = {}
    for c in cases:
        hist[c[0]] = hist.get(c[0], 0) + 1
    ctx.cov.update({
        "evaluations": len(cases),
        "distinct_nontrivial": len(set(c[2] for c in cases if len(c[1]) >= 2)),
        "rule": "every message sequence of length <= %d over the 8-symbol session alphabet (exhaustive), random longer sessions including "
                "odd request/notification combinations, and byte prefixes of sessions followed by end-of-input; each run in a fresh "
                "server process; plus pipelined sessions whose client reads only after a pause with hundreds of KiB of responses pending; non-trivial = distinct byte stream with >= 2 messages" % (5 if ctx.thorough() else 3),
        "exhaustive": True,
        "input_histogram": hist,
        "traces_validated_against_impl": len(cases),
        "kernel_judge_cases": nk,
        "unconfirmed_deviations": len(bad) - len(confirmed),
        "max_seconds_to_exit_after_eof": round(slow, 2),
        "samples": [dict(session=cases[i][1], expected=expected[i] if expected else None) for i in ctx.rng.sample(range(len(cases)), 4)],
        "explanation": "Props/C18.v: model = specification for all sessions; binary compared with the model on all sessions up to the bound",
    })
    ctx.assumptions = ["handlers abstract (a supported request yields a result)", "well-formed params; i32 ids",
                       "process liveness, exit status plumbing and time-to-exit are observed on the binary, not proved"]
    if ctx.thorough() and proved:
        if not common.coqchk(ctx):
            ctx.violation(dict(kind="proof", property="C18", detail="coqchk failed or reports axioms", out=ctx.cov.get("coqchk")), no_input=True)


def replay(ctx, path):
    r = json.load(open(path))
    exe, _ = common.build_server()
    judge, _ = common.build_judge()
    if "big" in r:
        from props import c19
        problems, _ = c19.big_check(exe, r["big"]["n_out"], r["big"]["n_in"], [])
        print(problems or "every request answered")
        return 1 if problems else 0
    if "slow_reader" in r:
        c = r["slow_reader"]
        why = slow_reader(exe, c["requests"], c["method_name_bytes"], c["pause_s"])
        print(why or "every request answered, in order; exit status 0")
        return 1 if why else 0
    if "session" not in r:
        print(json.dumps(r, indent=1))
        return 1
    data = r["bytes"].encode("utf-8")
    im = {int(k): v for k, v in r["request_ids"].items()} if r.get("request_ids") else None
    got, dt, why = observe(exe, data, 15.0, idmap=im)
    print("observed:", got, why or "")
    print("expected:", r["expected_by_specification"])
    return 0 if got is not None and " ".join(map(str, got)) == r["expected_by_specification"] else 1
