"""C06 - tokenisation is lossless and follows the SPL lexical grammar."""
import json
import os

import common
import enc
import lexgen


def gen_cases(ctx):
    cases = []  # (origin, codepoints, expected or None)
    cdir = os.path.join(common.VERIF, "corpus", "C06")
    if os.path.isdir(cdir):
        for f in sorted(os.listdir(cdir)):
            c = json.load(open(os.path.join(cdir, f)))
            cases.append(("corpus:" + f, enc.text_nums(c["text"]), None))
    for t in lexgen.exhaustive_texts(lexgen.ALPHA14, 5 if ctx.thorough() else 4):
        cases.append(("exhaustive", t, None))
    for t in lexgen.lookalike_texts():
        cases.append(("lookalike", t, None))
    for t in lexgen.digit_texts(ctx.rng, 20000 if ctx.thorough() else 3000):
        cases.append(("digits", t, None))
    nrand = 200000 if ctx.thorough() else 20000
    for _ in range(nrand):
        cases.append(("random", lexgen.random_text(ctx.rng, 60), None))
    for _ in range(nrand):
        cps, exp = lexgen.lexeme_concat(ctx.rng)
        cases.append(("lexemes", cps, exp))
    return cases


def oracle(cps, toks, exp):
    why = lexgen.tiling_oracle(cps, toks)
    if why:
        return "tiling: " + why
    if exp is not None:
        got = [dict(kind=t["kind"], val=t["val"], s=t["s"], e=t["e"], errs=t["errs"]) for t in toks]
        if got != exp:
            for g, e in zip(got + [None] * len(exp), exp + [None] * len(got)):
                if g != e:
                    return "conformance: expected %r, got %r" % (e, g)
    return None


def decode(line):
    n = enc.nums(line)
    if n[0] != 0:
        return None
    r = enc.Reader(n[1:])
    return enc.read_tokens(r)


def run(ctx):
    proved = common.proof_stage(ctx)
    cases = gen_cases(ctx)
    lines = ["1 " + " ".join(map(str, c[1])) for c in cases]
    bindir, log = common.build_harness()
    if bindir is None:
        ctx.violation(dict(kind="build-failure", what="harness/implementation does not build", log=log[-3000:]), no_input=True)
        return
    impl = common.run_lines(os.path.join(bindir, "dump"), lines)
    # implementation-only oracle (search for a failing input)
    fails = []
    hist = {}
    nontrivial = set()
    for (origin, cps, exp), out in zip(cases, impl):
        toks = decode(out)
        hist[origin.split(":")[0]] = hist.get(origin.split(":")[0], 0) + 1
        if toks is None:
            fails.append((origin, cps, "lexer panicked"))
            continue
        if len(toks) >= 3:
            nontrivial.add(tuple(cps))
        why = oracle(cps, toks, exp)
        if why:
            fails.append((origin, cps, why))
    for origin, cps, why in sorted(fails, key=lambda f: len(f[1]))[:3]:
        ctx.violation(dict(kind="oracle", property="C06", origin=origin, text="".join(map(chr, cps)), codepoints=cps, why=why))
    # correspondence: extracted judge on everything, kernel judge on a sample
    judge, jlog = common.build_judge()
    mism = []
    kfail = []
    nk = 0
    if judge is None:
        proved = False
        ctx.proof_failure = dict(kind="coq-build", log_tail=jlog[-3000:])
    else:
        model = common.run_lines(judge, lines)
        mism = [i for i in range(len(lines)) if impl[i] != model[i]]
        small = [i for i in range(len(lines)) if len(cases[i][1]) <= 24]
        pick = ctx.rng.sample(small, min(len(small), 1600 if ctx.thorough() else 480))
        kc = [(enc.nums(lines[i]), enc.nums(impl[i])) for i in pick]
        nk = len(kc)
        kfail = [pick[j] for j in common.kernel_judge("C06", kc)]
    if not fails:
        bad = sorted(set(mism) | set(kfail), key=lambda i: len(cases[i][1]))
        if bad:
            i = bad[0]
            ctx.violation(dict(kind="correspondence", property="C06", what="model Lexer.lex and spl_frontend::lexer::lex differ",
                               text="".join(map(chr, cases[i][1])), command=lines[i], impl=impl[i],
                               model=(model[i] if judge else None), mismatches=len(bad)), no_input=True)
        elif not proved:
            ctx.violation(dict(kind="proof", property="C06", detail=getattr(ctx, "proof_failure", None)), no_input=True)
    ctx.cov.update({
        "evaluations": len(cases),
        "distinct_nontrivial": len(nontrivial),
        "rule": "texts: corpus + all texts of length<=%d over a 14-symbol alphabet covering every look-ahead class + random Unicode "
                "+ number-shaped texts (long digit runs, leading zeros, values around 2^32) + random concatenations of SPL lexemes with separators; non-trivial = distinct text with >= 2 tokens before Eof"
                % (5 if ctx.thorough() else 4),
        "exhaustive": False,
        "input_histogram": hist,
        "traces_validated_against_impl": len(lines) if judge else 0,
        "kernel_judge_cases": nk,
        "correspondence_mismatches": len(mism) + len(kfail),
        "samples": [dict(text="".join(map(chr, c[1])), origin=c[0]) for c in ctx.rng.sample(cases, 5)],
        "explanation": "theorems of Props/C06.v proved for all texts; model tied to lexer::lex by differential runs",
    })
    if ctx.thorough() and proved:
        if not common.coqchk(ctx):
            ctx.violation(dict(kind="proof", property="C06", detail="coqchk failed or reports axioms", out=ctx.cov.get("coqchk")), no_input=True)
    ctx.assumptions = ["nom 7.1.3 combinator and character-class semantics as transcribed in Model/Lexer.v (validated by the correspondence)"]


def replay(ctx, path):
    r = json.load(open(path))
    bindir, _ = common.build_harness()
    if "codepoints" in r or "text" in r:
        cps = r.get("codepoints") or enc.text_nums(r["text"])
        out = common.run_lines(os.path.join(bindir, "dump"), ["1 " + " ".join(map(str, cps))])[0]
        toks = decode(out)
        why = "lexer panicked" if toks is None else oracle(cps, toks, None)
        print("impl:", out)
        print("oracle:", why)
        judge, _ = common.build_judge()
        if judge:
            m = common.run_lines(judge, ["1 " + " ".join(map(str, cps))])[0]
            print("model:", m, "(agrees)" if m == out else "(DIFFERS)")
            if m != out:
                return 1
        return 1 if why else 0
    print(json.dumps(r, indent=1))
    return 1
