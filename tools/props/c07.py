"""C07 - incremental lexing yields the batch token stream and an exact change window."""
import json
import os
import re
import subprocess

import common
import enc
import lexgen


def boundaries(cps):
    offs = [0]
    for c in cps:
        offs.append(offs[-1] + enc.ulen(c))
    return offs


def cmd_update(old, cs, ce, ins):
    return "2 %d %s %d %d %s" % (len(old), " ".join(map(str, old)), cs, ce, " ".join(map(str, ins)))


def random_change(rng, cps):
    offs = boundaries(cps)
    i = rng.randrange(len(offs))
    j = min(len(offs) - 1, i + rng.choice([0, 0, 1, 1, 2, 3, rng.randint(0, 8)]))
    r = rng.random()
    if r < 0.5:
        ins = [rng.choice(lexgen.ALPHA16) for _ in range(rng.choice([0, 1, 1, 2, 3]))]
    elif r < 0.8:
        ins, _ = lexgen.lexeme_concat(rng, 3)
    else:
        ins = lexgen.random_text(rng, 6)
    return offs[i], offs[j], ins


def apply_change(cps, cs, ce, ins):
    offs = boundaries(cps)
    return cps[:offs.index(cs)] + ins + cps[offs.index(ce):]


def gen_cases(ctx):
    cases = []
    cdir = os.path.join(common.VERIF, "corpus", "C07")
    if os.path.isdir(cdir):
        for f in sorted(os.listdir(cdir)):
            c = json.load(open(os.path.join(cdir, f)))
            cases.append(("corpus:" + f, cmd_update(enc.text_nums(c["old"]), c["cs"], c["ce"], enc.text_nums(c["ins"]))))
    k = 3
    for t in lexgen.exhaustive_texts(lexgen.ALPHA16, k):
        offs = boundaries(t)
        for i in range(len(offs)):
            for j in range(i, len(offs)):
                for ins in [[]] + [[a] for a in lexgen.ALPHA16]:
                    cases.append(("exhaustive", cmd_update(t, offs[i], offs[j], ins)))
    n = 300000 if ctx.thorough() else 30000
    for _ in range(n):
        base = lexgen.lexeme_concat(ctx.rng, 10)[0] if ctx.rng.random() < 0.7 else lexgen.random_text(ctx.rng, 40)
        cs, ce, ins = random_change(ctx.rng, base)
        cases.append(("random", cmd_update(base, cs, ce, ins)))
    return cases


def gen_chains(ctx):
    out = []
    for _ in range(20000 if ctx.thorough() else 3000):
        cps = lexgen.lexeme_concat(ctx.rng, 8)[0] if ctx.rng.random() < 0.7 else lexgen.random_text(ctx.rng, 30)
        parts = ["3", str(len(cps))] + list(map(str, cps))
        for _ in range(ctx.rng.randint(2, 8)):
            cs, ce, ins = random_change(ctx.rng, cps)
            parts += [str(cs), str(ce), str(len(ins))] + list(map(str, ins))
            cps = apply_change(cps, cs, ce, ins)
        out.append(" ".join(parts))
    return out


def run(ctx):
    proved = common.proof_stage(ctx)
    bindir, log = common.build_harness()
    if bindir is None:
        ctx.violation(dict(kind="build-failure", what="harness/implementation does not build", log=log[-3000:]), no_input=True)
        return
    oracle = os.path.join(bindir, "oracle_lex")
    cases = gen_cases(ctx)
    lines = [c[1] for c in cases]
    # implementation-only oracle: exhaustive scope inside Rust, then the generated cases and the histories
    scope = (4, 2) if ctx.thorough() else (3, 2)
    rc, out = common.sh([oracle, "--exhaustive", str(scope[0]), str(scope[1])] + [str(c) for c in lexgen.ALPHA16], timeout=7200)
    m = re.search(r"SUMMARY cases=(\d+) failures=(\d+)", out)
    exh_cases, exh_fail = (int(m.group(1)), int(m.group(2))) if m else (0, -1)
    fails = []
    for l in out.split("\n"):
        if l.startswith("FAIL "):
            cmd, _, why = l[5:].partition(" # ")
            fails.append((cmd.strip(), why))
    if not m:
        fails.append(("", "oracle crashed: " + out[-500:]))
    verdicts = common.run_lines(oracle, lines)
    for l, v in zip(lines, verdicts):
        if v != "ok":
            fails.append((l, v))
    chains = gen_chains(ctx)
    cverd = common.run_lines(oracle, chains)
    for l, v in zip(chains, cverd):
        if v != "ok":
            fails.append((l, v))
    for cmd, why in sorted(fails, key=lambda f: len(f[0]))[:3]:
        ctx.violation(dict(kind="oracle", property="C07", command=cmd, why=why[:2000],
                           what="lexer::update differs from lexer::lex of the new text, or the change window is not truthful"))
    # correspondence
    impl = common.run_lines(os.path.join(bindir, "dump"), lines)
    judge, jlog = common.build_judge()
    mism, kfail, nk = [], [], 0
    if judge is None:
        proved = False
        ctx.proof_failure = dict(kind="coq-build", log_tail=jlog[-3000:])
    else:
        model = common.run_lines(judge, lines)
        mism = [i for i in range(len(lines)) if impl[i] != model[i]]
        small = [i for i in range(len(lines)) if len(lines[i]) < 120]
        pick = ctx.rng.sample(small, min(len(small), 1600 if ctx.thorough() else 480))
        kc = [(enc.nums(lines[i]), enc.nums(impl[i])) for i in pick]
        nk = len(kc)
        kfail = [pick[j] for j in common.kernel_judge("C07", kc)]
    if not fails:
        bad = sorted(set(mism) | set(kfail), key=lambda i: len(lines[i]))
        if bad:
            i = bad[0]
            ctx.violation(dict(kind="correspondence", property="C07", what="model LexUpdate.lex_update and spl_frontend::lexer::update differ",
                               command=lines[i], impl=impl[i], model=(model[i] if judge else None), mismatches=len(bad)), no_input=True)
        elif not proved:
            ctx.violation(dict(kind="proof", property="C07", detail=getattr(ctx, "proof_failure", None)), no_input=True)
    hist = {}
    for c in cases:
        hist[c[0].split(":")[0]] = hist.get(c[0].split(":")[0], 0) + 1
    nontrivial = len(set(l for l, o in zip(lines, impl) if o.startswith("0 ") and len(o) > 40))
    ctx.cov.update({
        "evaluations": exh_cases + len(lines) + len(chains),
        "distinct_nontrivial": nontrivial,
        "rule": "oracle: all texts of length<=%d over a 16-symbol alphabet x all char-boundary ranges x all insertions of length<=%d "
                "(enumerated in Rust) + generated single changes + histories of 2-8 chained changes; correspondence: all texts<=3 x "
                "ranges x insertions<=1 + random changes on lexeme concatenations and Unicode texts. non-trivial = distinct change "
                "whose updated stream has more than ~3 tokens" % scope,
        "exhaustive_scope_cases": exh_cases,
        "exhaustive": False,
        "input_histogram": hist,
        "histories": len(chains),
        "traces_validated_against_impl": len(lines) if judge else 0,
        "kernel_judge_cases": nk,
        "correspondence_mismatches": len(mism) + len(kfail),
        "samples": [lines[i] for i in ctx.rng.sample(range(len(lines)), 3)] + chains[:1],
        "explanation": "Props/C07.v; model tied to lexer::update by differential runs; implementation oracle update==lex + window truthfulness",
    })
    if ctx.thorough() and proved:
        if not common.coqchk(ctx):
            ctx.violation(dict(kind="proof", property="C07", detail="coqchk failed or reports axioms", out=ctx.cov.get("coqchk")), no_input=True)
    ctx.assumptions = ["nom 7.1.3 semantics as transcribed in Model/Lexer.v; Vec::partition/take_while/skip_while as list functions"]


def replay(ctx, path):
    r = json.load(open(path))
    bindir, _ = common.build_harness()
    cmd = r.get("command")
    if not cmd:
        print(json.dumps(r, indent=1))
        return 1
    v = common.run_lines(os.path.join(bindir, "oracle_lex"), [cmd])[0]
    print("oracle:", v)
    rc = 0 if v == "ok" else 1
    if cmd.startswith("2 "):
        out = common.run_lines(os.path.join(bindir, "dump"), [cmd])[0]
        judge, _ = common.build_judge()
        if judge:
            m = common.run_lines(judge, [cmd])[0]
            print("impl :", out)
            print("model:", m, "(agrees)" if m == out else "(DIFFERS)")
            if m != out:
                rc = 1
    return rc
