"""C08 - the server's copy of a document always equals the client's, positions included."""
import json
import os
import queue

import common
import enc
import lspclient

ALPHA = ["a", "é", "€", "😀", "\r", "\n", " ", "x", "\r\n", "\ufeff"]


# ---- independent client-side model of LSP texts (python strings, UTF-16 columns) ----
def split_lines(t):
    """[(content, terminator)]; the last line has terminator ''"""
    out, cur, i = [], "", 0
    while i < len(t):
        c = t[i]
        if c == "\n":
            out.append((cur, "\n"))
            cur = ""
        elif c == "\r":
            if i + 1 < len(t) and t[i + 1] == "\n":
                out.append((cur, "\r\n"))
                i += 1
            else:
                out.append((cur, "\r"))
            cur = ""
        else:
            cur += c
        i += 1
    out.append((cur, ""))
    return out


ENC = "utf-16"     # the position encoding of the session (LSP 3.17 `positionEncoding`; utf-16 unless the server announces another)


def u16(c):
    """width of one character in the units of the session's position encoding"""
    if ENC == "utf-8":
        return len(c.encode("utf-8"))
    if ENC == "utf-32":
        return 1
    return 2 if ord(c) >= 0x10000 else 1


def offset_of(t, line, col):
    """character offset (python index) addressed by an LSP position"""
    ls = split_lines(t)
    if line >= len(ls):
        return len(t)
    off = sum(len(c) + len(x) for c, x in ls[:line])
    content = ls[line][0]
    k = 0
    for ch in content:
        if k + u16(ch) > col:
            break
        k += u16(ch)
        off += 1
    return off


def client_apply(t, change):
    if change["range"] is None:
        return change["text"]
    (l1, c1), (l2, c2) = change["range"]
    a, b = offset_of(t, l1, c1), offset_of(t, l2, c2)
    return t[:a] + change["text"] + t[b:]


def rand_text(rng, maxlen):
    return "".join(rng.choice(ALPHA) for _ in range(rng.randint(0, maxlen)))


def rand_pos(rng, t):
    """a position that never splits a surrogate pair: valid, overshooting column, overshooting line"""
    ls = split_lines(t)
    r = rng.random()
    if r < 0.08:
        return (len(ls) + rng.randint(0, 3), rng.randint(0, 5))
    line = rng.randrange(len(ls))
    content = ls[line][0]
    cols = [0]
    for ch in content:
        cols.append(cols[-1] + u16(ch))
    if r < 0.25:
        return (line, cols[-1] + rng.randint(1, 9))
    return (line, rng.choice(cols))


def rand_change(rng, t):
    if rng.random() < 0.12:
        return dict(range=None, text=rand_text(rng, 8))
    p, q = sorted([rand_pos(rng, t), rand_pos(rng, t)])
    if rng.random() < 0.3:
        q = p
    return dict(range=(p, q), text=rand_text(rng, 4))


def gen_histories(ctx, n):
    out = []
    for _ in range(n):
        t0 = rand_text(ctx.rng, 12)
        notes = []
        t = t0
        for _ in range(ctx.rng.randint(1, 5)):
            chs = []
            for _ in range(ctx.rng.randint(1, 3)):
                ch = rand_change(ctx.rng, t)
                t = client_apply(t, ch)
                chs.append(ch)
            notes.append((chs, t))
        out.append((t0, notes))
    return out


def lsp_change(ch):
    d = {"text": ch["text"]}
    if ch["range"] is not None:
        (l1, c1), (l2, c2) = ch["range"]
        d["range"] = {"start": {"line": l1, "character": c1}, "end": {"line": l2, "character": c2}}
    return d


def judge_cmd(before, chs):
    cps = enc.text_nums(before)
    parts = [6, len(cps)] + cps + [len(chs)]
    for ch in chs:
        ins = enc.text_nums(ch["text"])
        if ch["range"] is None:
            parts += [0, 0, 0, 0, 0, len(ins)] + ins
        else:
            (l1, c1), (l2, c2) = ch["range"]
            parts += [1, l1, c1, l2, c2, len(ins)] + ins
    return " ".join(map(str, parts))


def run_histories(exe, hists, tag, capabilities=None, announced=None):
    """returns list of (hist index, step, before, changes, expected(client), observed) for every step"""
    s = lspclient.Server(exe)
    rows = []
    try:
        r0 = s.initialize(diagnostics=False, capabilities=capabilities)
        if announced is not None:
            announced.append(((r0 or {}).get("result") or {}).get("capabilities", {}).get("positionEncoding"))
        for hi, (t0, notes) in enumerate(hists):
            uri = "file:///%s_%d.spl" % (tag, hi)
            s.open(uri, t0)
            before = t0
            for si, (chs, after) in enumerate(notes):
                s.change(uri, [lsp_change(c) for c in chs], version=si + 2)
                try:
                    r = s.request("$/verif/text", {"uri": uri}, timeout=10.0)
                except queue.Empty:
                    r = "timeout"
                obs = r.get("result") if isinstance(r, dict) else None
                rows.append((hi, si, before, chs, after, obs if isinstance(r, dict) else "<no response: %r>" % (r,)))
                if obs != after:
                    break  # server and client have diverged (or the server died); stop this history
                before = after
            s.close(uri)
            if s.p.poll() is not None:
                break
    finally:
        s.kill()
    return rows


# ---- several documents open at once: URIs that differ in scheme, query, fragment, case or one path segment only ----
URI_POOL = ["file:///w/a.spl", "git:/w/a.spl?%7B%22ref%22%3A%22HEAD%22%7D", "untitled:/w/a.spl", "file:///w/a.spl#L1", "file:///w/A.spl",
            "file:///w/b.spl", "file:///v/a.spl", "file://host/w/a.spl", "file:///w/a.spl?x=1", "vscode-vfs://github/w/a.spl"]


def gen_sessions(ctx, n):
    """[[op]]: op = (kind, uri, payload, expected client texts of all open documents after the op)"""
    out = []
    for _ in range(n):
        uris = ctx.rng.sample(URI_POOL, ctx.rng.randint(2, 4))
        texts, ops = {}, []
        for _ in range(ctx.rng.randint(4, 12)):
            closed = [u for u in uris if u not in texts]
            r = ctx.rng.random()
            if closed and (r < 0.35 or not texts):
                u = ctx.rng.choice(closed)
                texts[u] = rand_text(ctx.rng, 10)
                ops.append(("open", u, texts[u], dict(texts)))
            elif texts and r < 0.85:
                u = ctx.rng.choice(sorted(texts))
                chs = []
                for _ in range(ctx.rng.randint(1, 2)):
                    ch = rand_change(ctx.rng, texts[u])
                    texts[u] = client_apply(texts[u], ch)
                    chs.append(ch)
                ops.append(("change", u, chs, dict(texts)))
            elif texts:
                u = ctx.rng.choice(sorted(texts))
                del texts[u]
                ops.append(("close", u, None, dict(texts)))
        out.append((uris, ops))
    return out


def run_sessions(exe, sessions):
    """[(session index, op index, uri asked, expected text | None, observed)] - after every op the text of EVERY uri of the session"""
    rows = []
    for si, (uris, ops) in enumerate(sessions):
        s = lspclient.Server(exe)
        try:
            s.initialize(diagnostics=False)
            ver = {}
            for oi, (kind, u, payload, expect) in enumerate(ops):
                if kind == "open":
                    s.open(u, payload)
                    ver[u] = 1
                elif kind == "change":
                    ver[u] = ver.get(u, 1) + 1
                    s.change(u, [lsp_change(c) for c in payload], version=ver[u])
                else:
                    s.close(u)
                bad = False
                for q in uris:
                    try:
                        r = s.request("$/verif/text", {"uri": q}, timeout=10.0)
                    except queue.Empty:
                        r = "timeout"
                    obs = r.get("result") if isinstance(r, dict) else "<no response: %r>" % (r,)
                    rows.append((si, oi, q, expect.get(q), obs))
                    bad = bad or obs != expect.get(q)
                if bad:
                    break
        finally:
            s.kill()
    return rows


# ---- ranges the server reports (semantic tokens, diagnostics) address the tokens of the client's text ----
RR_PIECES = ["i", "x1", "proc", "type", "if", "while", "var", "int", "array", "of", "ref", "main", "7", "0x1F", "'a'", "'ä'", "'😀'", ":=", ";", ":",
             "(", ")", "{", "}", "[", "]", "<", "=", "+", "*", "ß", "é", "€", "😀", "ö", " ", "'ä", "'"]
RR_SEPS = ["", "", "", " ", " ", "\t", "\n", "\r\n", "\r", "// cömment €\n", "// 😀", "\n\n"]


def rr_text(rng):
    """SPL lexemes glued to non-ASCII characters, on lines with every kind of line end; after an edit too"""
    if rng.random() < 0.3:
        body = "".join(rng.choice(["ä", "€", "😀", ""]) + p + rng.choice(["", " ", "ß", "😀"]) for p in
                       ["proc ", "main", "(", ")", "{", "\n", "var ", "i", ":", "int", ";", "\r\n", "i", ":=", "7", ";", "}", "\n"])
        return body
    out = []
    for _ in range(rng.randint(1, 14)):
        out.append(rng.choice(RR_PIECES))
        out.append(rng.choice(RR_SEPS))
    t = "".join(out)
    i = t.find("// 😀")
    while i >= 0 and i + 4 < len(t) and rng.random() < 0.5:   # a comment runs to the end of the line: keep most of them short
        t = t[:i + 4] + "\n" + t[i + 4:]
        i = t.find("// 😀", i + 5)
    return t


def position_of(t, idx):
    """LSP position of the character index idx of the client's text (inverse of offset_of; inside CR LF = end of the line)"""
    line = 0
    for content, term in split_lines(t):
        if idx <= len(content):
            return (line, sum(u16(ch) for ch in content[:idx]))
        if idx < len(content) + len(term):
            return (line, sum(u16(ch) for ch in content))
        idx -= len(content) + len(term)
        line += 1
    last = split_lines(t)[-1][0]
    return (line - 1, sum(u16(ch) for ch in last))


def rr_expected(text, toks):
    """(set of (line, col, utf16 length) of the lexer's tokens, set of positions of token boundaries)"""
    b2c, k = {}, 0
    for ci, ch in enumerate(text):
        b2c[k] = ci
        k += len(ch.encode("utf-8"))
    b2c[k] = len(text)
    spans, bounds = set(), set()
    for t in toks:
        if t["s"] not in b2c or t["e"] not in b2c:
            continue
        s, e = b2c[t["s"]], b2c[t["e"]]
        spans.add(position_of(text, s) + (sum(u16(ch) for ch in text[s:e]),))
        bounds.add(position_of(text, s))
        bounds.add(position_of(text, e))
    return spans, bounds


def run_reported(exe, texts, tag):
    """[(text, semantic tokens as absolute (line, col, len, type) | None, diagnostics ranges | None)]"""
    s = lspclient.Server(exe)
    out = []
    try:
        s.initialize(diagnostics=True)
        for k, (t0, edit) in enumerate(texts):
            uri = "file:///%s_%d.spl" % (tag, k)
            s.open(uri, t0)
            want = 1
            text = t0
            if edit is not None:
                s.change(uri, [lsp_change(edit)], version=2)
                text = client_apply(t0, edit)
                want = 2
            diags = None
            try:
                while want:
                    m = s.read_msg(timeout=10.0)
                    if m is None:
                        break
                    if m.get("method") == "textDocument/publishDiagnostics" and m["params"]["uri"] == uri:
                        want -= 1
                        diags = [((d["range"]["start"]["line"], d["range"]["start"]["character"]),
                                  (d["range"]["end"]["line"], d["range"]["end"]["character"]), d["message"]) for d in m["params"]["diagnostics"]]
                if want:
                    diags = None
            except queue.Empty:
                diags = None
            try:
                r = s.request("textDocument/semanticTokens/full", {"textDocument": {"uri": uri}}, timeout=10.0)
            except queue.Empty:
                r = None
            sem = None
            if isinstance(r, dict) and isinstance(r.get("result"), dict):
                data = r["result"]["data"]
                sem, line, col = [], 0, 0
                for j in range(0, len(data) - 4, 5):
                    dl, dc, ln, ty = data[j], data[j + 1], data[j + 2], data[j + 3]
                    line, col = (line + dl, dc) if dl else (line, col + dc)
                    sem.append((line, col, ln, ty))
            out.append((t0, edit, text, sem, diags))
            s.close(uri)
            if s.p.poll() is not None:
                break
    finally:
        s.kill()
    return out


OFFERS = [["utf-16", "utf-8"], ["utf-8", "utf-16"], ["utf-8"], ["utf-32", "utf-16"], ["utf-16"], ["utf-32", "utf-8", "utf-16"], []]


def encoding_stage(ctx, exe):
    """LSP 3.17: the client may offer position encodings; whatever the server answers (nothing = utf-16) is the encoding of the
    session, and the client counts its columns in it.  Runs sequentially (the client model's encoding is a module switch)."""
    global ENC
    bad, cov = [], []
    for offer in OFFERS:
        caps = {"general": {"positionEncodings": offer}} if offer else {"general": {}}
        probe = []
        run_histories(exe, [], "enc_probe", capabilities=caps, announced=probe)
        enc = (probe[0] if probe else None) or "utf-16"
        if enc not in ("utf-8", "utf-16", "utf-32") or (enc != "utf-16" and enc not in offer):
            bad.append(dict(kind="position-encoding", property="C08", offer=offer, announced=enc,
                            what="the server announces a position encoding the client did not offer"))
            continue
        ENC = enc
        try:
            hists = gen_histories(ctx, 300 if ctx.thorough() else 60)
            rows = run_histories(exe, hists, "enc", capabilities=caps)
            fails = [r for r in rows if r[5] != r[4]]
            for hi, si, before, chs, after, obs in sorted(fails, key=lambda r: len(r[2]))[:1]:
                again = run_histories(exe, [(before, [(chs, after)])], "encre", capabilities=caps)
                if again and again[0][5] != after:
                    bad.append(dict(kind="position-encoding", property="C08", offer=offer, announced=enc, text_before=before, changes=chs,
                                    client_text=after, server_text=obs,
                                    what="the client offered the position encodings %r, the server announced %s; with columns counted in that "
                                         "encoding the server's text after didChange differs from the client's" % (offer, enc)))
            cov.append(dict(offer=offer, announced=enc, steps=len(rows), deviations=len(fails)))
        finally:
            ENC = "utf-16"
    return bad, cov


def reported_stage(ctx, exe, bindir):
    n = 2400 if ctx.thorough() else 400
    texts = []
    for _ in range(n):
        t = rr_text(ctx.rng)
        texts.append((t, rand_change(ctx.rng, t) if ctx.rng.random() < 0.3 else None))
    from concurrent.futures import ThreadPoolExecutor
    parts = [texts[i::4] for i in range(4)]
    rows = []
    with ThreadPoolExecutor(4) as ex:
        for r in ex.map(lambda kp: run_reported(exe, kp[1], "rr%d" % kp[0]), list(enumerate(parts))):
            rows += r
    lex = common.run_lines(os.path.join(bindir, "dump"), ["1 " + " ".join(str(ord(ch)) for ch in r[2]) for r in rows])
    bad, nsem, ndiag, glued = [], 0, 0, 0
    for (t0, edit, text, sem, diags), out in zip(rows, lex):
        toks = decode(out)
        if toks is None or sem is None or diags is None:
            bad.append((len(text), t0, edit, text, "no answer (semantic tokens %r, diagnostics %r, lexer %r)" % (sem is not None, diags is not None, toks is not None)))
            continue
        spans, bounds = rr_expected(text, toks)
        for (l, c_, ln, ty) in sem:
            nsem += 1
            if (l, c_, ln) not in spans:
                a, b = offset_of(text, l, c_), offset_of(text, l, c_ + ln)
                bad.append((len(text), t0, edit, text, "semantic token %d:%d length %d covers %r of the client's text, which is no token of it" % (l, c_, ln, text[a:b])))
                break
        else:
            for (st, en, msg) in diags:
                ndiag += 1
                if st not in bounds or en not in bounds:
                    bad.append((len(text), t0, edit, text, "diagnostic %r at %r..%r does not start and end on token boundaries of the client's text" % (msg, st, en)))
                    break
        for i in range(1, len(text)):
            if ord(text[i - 1]) > 127 and text[i].isalnum() and ord(text[i]) < 128:
                glued += 1
                break
    return rows, sorted(bad, key=lambda b: b[0]), dict(documents=len(rows), with_an_edit=sum(1 for r in rows if r[1]), semantic_tokens=nsem,
                                                       diagnostics=ndiag, documents_with_ascii_token_glued_to_non_ascii=glued)


def reported_stage_one(exe, bindir, t0, edit):
    """re-runs one document twice in fresh servers; returns the complaint if it is reproduced both times, else None"""
    whys = []
    for k in range(2):
        rows = run_reported(exe, [(t0, edit)], "rrc%d" % k)
        if not rows:
            return None
        (_, _, text, sem, diags) = rows[0]
        out = common.run_lines(os.path.join(bindir, "dump"), ["1 " + " ".join(str(ord(ch)) for ch in text)])[0]
        toks = decode(out)
        if toks is None or sem is None or diags is None:
            whys.append("no answer (semantic tokens %r, diagnostics %r, lexer %r)" % (sem is not None, diags is not None, toks is not None))
            continue
        spans, bounds = rr_expected(text, toks)
        why = None
        for (l, c_, ln, ty) in sem:
            if (l, c_, ln) not in spans:
                a, b = offset_of(text, l, c_), offset_of(text, l, c_ + ln)
                why = "semantic token %d:%d length %d covers %r of the client's text, which is no token of it" % (l, c_, ln, text[a:b])
                break
        if why is None:
            for (st, en, msg) in diags:
                if st not in bounds or en not in bounds:
                    why = "diagnostic %r at %r..%r does not start and end on token boundaries of the client's text" % (msg, st, en)
                    break
        if why is None:
            return None
        whys.append(why)
    return whys[0]


def decode(line):
    n = enc.nums(line)
    if not n or n[0] != 0:
        return None
    return enc.read_tokens(enc.Reader(n[1:]))


def run(ctx):
    proved = common.proof_stage(ctx)
    exe, log = common.build_server()
    if exe is None:
        ctx.violation(dict(kind="build-failure", what="lsp4spl does not build", log=log[-3000:]), no_input=True)
        return
    judge, jlog = common.build_judge()
    hists = []
    cdir = os.path.join(common.VERIF, "corpus", "C08")
    if os.path.isdir(cdir):
        for f in sorted(os.listdir(cdir)):
            c = json.load(open(os.path.join(cdir, f)))
            t = c["text"]
            notes = []
            for chs in c["notifications"]:
                chs = [dict(range=(tuple(map(tuple, ch["range"])) if ch["range"] else None), text=ch["text"]) for ch in chs]
                for ch in chs:
                    t = client_apply(t, ch)
                notes.append((chs, t))
            hists.append((c["text"], notes))
    ncorpus = len(hists)
    hists += gen_histories(ctx, 12000 if ctx.thorough() else 1500)
    # several server processes in sequence keep any crash local
    rows = []
    chunk = 250
    from concurrent.futures import ThreadPoolExecutor
    parts = [hists[i:i + chunk] for i in range(0, len(hists), chunk)]
    with ThreadPoolExecutor(4) as ex:
        for k, r in enumerate(ex.map(lambda kp: run_histories(exe, kp[1], "h%d" % kp[0]), list(enumerate(parts)))):
            rows += [(k * chunk + hi, si, b, chs, a, o) for (hi, si, b, chs, a, o) in r]
    # oracle: server text == client text
    fails = [r for r in rows if r[5] != r[4]]
    confirmed = []
    for r in sorted(fails, key=lambda r: len(r[2]) + sum(len(c["text"]) for c in r[3]))[:5]:
        hi, si, before, chs, after, obs = r
        again = [run_histories(exe, [(before, [(chs, after)])], "re%d" % k) for k in range(3)]
        if all(a and a[0][5] != after for a in again):
            confirmed.append(r)
    for hi, si, before, chs, after, obs in list(confirmed)[:3]:
        ctx.violation(dict(kind="oracle", property="C08", text_before=before, changes=chs, client_text=after, server_text=obs,
                           what="after didChange the server's text (via $/verif/text) differs from the client's text under the LSP position rules"))
    # several documents at once: every open document keeps the client's text, a closed one is unknown, whatever the other URIs do
    sessions = gen_sessions(ctx, 1200 if ctx.thorough() else 160)
    srows = []
    sparts = [sessions[i::4] for i in range(4)]
    with ThreadPoolExecutor(4) as ex:
        for k, r in enumerate(ex.map(lambda part: run_sessions(exe, part), sparts)):
            srows += [(si * 4 + k, oi, q, e, o) for (si, oi, q, e, o) in r]
    sfails = [r for r in srows if r[4] != r[3]]
    sconfirmed = []
    for r in sorted(sfails, key=lambda r: (len(sessions[r[0]][1]), r[1]))[:3]:
        si, oi, q, e, o = r
        sess = (sessions[si][0], sessions[si][1][:oi + 1])
        again = [run_sessions(exe, [sess]) for _ in range(2)]
        if all(any(x[4] != x[3] for x in a) for a in again):
            sconfirmed.append(r)
    for si, oi, q, e, o in sconfirmed[:2]:
        ctx.violation(dict(kind="oracle", property="C08", session=dict(uris=sessions[si][0], ops=[list(op[:3]) for op in sessions[si][1][:oi + 1]]),
                           uri=q, client_text=e, server_text=o,
                           what="with several documents open, the server's text of this URI ($/verif/text; null = not open) differs from the client's"))
        confirmed.append(("session", si, oi))
    # ranges reported by the server (semantic tokens, diagnostics) against the tokens of the client's text
    bindir, hlog = common.build_harness()
    rrcov = None
    if bindir is None:
        ctx.violation(dict(kind="build-failure", what="harness does not build", log=hlog[-2000:]), no_input=True)
    else:
        rrows, rbad, rrcov = reported_stage(ctx, exe, bindir)
        nrep = 0
        for _, t0, edit, text, why in rbad[:6]:
            again = reported_stage_one(exe, bindir, t0, edit)
            if again:
                ctx.violation(dict(kind="reported-range", property="C08", text=t0, edit=edit, client_text=text, what=again))
                confirmed.append(("reported", t0))
                nrep += 1
                if nrep >= 2:
                    break
        rrcov["deviations"] = len(rbad)
        rrcov["confirmed"] = nrep
    ebad, enc_cov = encoding_stage(ctx, exe)
    for v in ebad[:2]:
        ctx.violation(v)
        confirmed.append(("encoding", v.get("offer")))
    # correspondence: the Coq model applied to the same (text before, changes) must give the observed text
    mism, kfail, nk = [], [], 0
    if judge:
        cmds = [judge_cmd(r[2], r[3]) for r in rows if isinstance(r[5], str) and not r[5].startswith("<no response")]
        obs = [("0 %d " % len(r[5]) + " ".join(str(ord(c)) for c in r[5])).strip() for r in rows if isinstance(r[5], str) and not r[5].startswith("<no response")]
        model = common.run_lines(judge, cmds)
        mism = [i for i in range(len(cmds)) if model[i] != obs[i]]
        pick = ctx.rng.sample(range(len(cmds)), min(len(cmds), 900 if ctx.thorough() else 300))
        kc = [(enc.nums(cmds[i]), enc.nums(obs[i])) for i in pick if i not in mism]
        nk = len(kc)
        kfail = common.kernel_judge("C08", kc)
    if not confirmed:
        if mism or kfail:
            i = (mism + kfail)[0]
            ctx.violation(dict(kind="correspondence", property="C08", what="model Doc.apply_changes and the server's text differ",
                               command=cmds[i], server=obs[i], model=model[i], mismatches=len(mism)), no_input=True)
        elif judge is None or not proved:
            ctx.violation(dict(kind="proof", property="C08", detail=getattr(ctx, "proof_failure", jlog[-2000:])), no_input=True)
    kinds = {"ranged": 0, "full-text": 0, "overshoot-column": 0, "overshoot-line": 0, "multi-change": 0, "non-bmp-or-cr": 0}
    for r in rows:
        if len(r[3]) > 1:
            kinds["multi-change"] += 1
        if any(ord(ch) > 0xFFFF or ch == "\r" for ch in r[2]):
            kinds["non-bmp-or-cr"] += 1
        ls = split_lines(r[2])
        for c in r[3][:1]:
            if c["range"] is None:
                kinds["full-text"] += 1
            else:
                kinds["ranged"] += 1
                for (l, col) in c["range"]:
                    if l >= len(ls):
                        kinds["overshoot-line"] += 1
                    elif col > sum(u16(x) for x in ls[l][0]):
                        kinds["overshoot-column"] += 1
    ctx.cov.update({
        "evaluations": len(rows) + len(srows),
        "distinct_nontrivial": len(set((r[2], json.dumps(r[3])) for r in rows if len(r[2]) >= 3 and any(ord(c) > 127 or c in "\r\n" for c in r[2]))),
        "rule": "histories of 1-5 didChange notifications x 1-3 content changes on texts over {a, é, €, 😀, CR, LF, CRLF, SP, x} (<= 12 symbols): "
                "valid, column-overshooting and line-overshooting positions (never inside a surrogate pair), ordered ranges, full-text "
                "replacements; after every notification the server text ($/verif/text) is compared with an independent python client "
                "model and with the Coq model; sessions with 2-4 documents open at once under URIs that differ in scheme / query / fragment / "
                "case / host / one path segment only, interleaved open / change / close, the text of every URI compared after every "
                "operation; documents of SPL lexemes glued to non-ASCII characters (30% after one more edit): every semantic token the server "
                "reports, cut out of the client's text under the LSP rules, is exactly one lexer token of that text, and every diagnostic "
                "range starts and ends on token boundaries. non-trivial = distinct (text, changes) with >= 3 chars incl. a non-ASCII char or line end",
        "histories": len(hists), "corpus_histories": ncorpus,
        "multi_document_sessions": dict(sessions=len(sessions), texts_compared=len(srows), deviations=len(sfails), confirmed=len(sconfirmed),
                                        uri_pool=URI_POOL),
        "reported_ranges": rrcov,
        "position_encoding_offers": enc_cov,
        "input_histogram": kinds,
        "traces_validated_against_impl": len(rows) if judge else 0,
        "kernel_judge_cases": nk,
        "correspondence_mismatches": len(mism) + len(kfail),
        "unconfirmed_deviations": len(fails) - len(confirmed),
        "samples": [dict(text_before=r[2], changes=r[3], text_after=r[4]) for r in ctx.rng.sample(rows, 3)],
        "explanation": "Props/C08.v proved over the model of document.rs; model and python client model compared with the running server after every notification",
    })
    ctx.assumptions = ["positions never point between the halves of a surrogate pair; ranges are ordered (start <= end)",
                       "u32 wrap-around of line/column counters not modelled", "serde/lsp-types JSON mapping trusted"]
    if ctx.thorough() and proved:
        if not common.coqchk(ctx):
            ctx.violation(dict(kind="proof", property="C08", detail="coqchk failed or reports axioms", out=ctx.cov.get("coqchk")), no_input=True)


def replay(ctx, path):
    r = json.load(open(path))
    if "session" in r:
        exe, _ = common.build_server()
        # re-derive the expectations with the client model
        texts, ops = {}, []
        for kind, u, payload in r["session"]["ops"]:
            if kind == "open":
                texts[u] = payload
            elif kind == "change":
                payload = [dict(range=(tuple(map(tuple, c["range"])) if c["range"] else None), text=c["text"]) for c in payload]
                for c in payload:
                    texts[u] = client_apply(texts[u], c)
            else:
                texts.pop(u, None)
            ops.append((kind, u, payload, dict(texts)))
        rows = run_sessions(exe, [(r["session"]["uris"], ops)])
        bad = [x for x in rows if x[4] != x[3]]
        for x in bad[:3]:
            print("after op %d: %s client %r server %r" % (x[1], x[2], x[3], x[4]))
        return 1 if bad else 0
    if r.get("kind") == "position-encoding":
        global ENC
        exe, _ = common.build_server()
        caps = {"general": {"positionEncodings": r["offer"]}} if r["offer"] else {"general": {}}
        if "text_before" not in r:
            probe = []
            run_histories(exe, [], "enc_probe", capabilities=caps, announced=probe)
            print("offer %r, announced %r" % (r["offer"], probe))
            enc = (probe[0] if probe else None) or "utf-16"
            return 0 if enc == "utf-16" or enc in r["offer"] else 1
        ENC = r["announced"]
        chs = [dict(range=(tuple(map(tuple, c["range"])) if c["range"] else None), text=c["text"]) for c in r["changes"]]
        t = r["text_before"]
        for ch in chs:
            t = client_apply(t, ch)
        rows = run_histories(exe, [(r["text_before"], [(chs, t)])], "replay", capabilities=caps)
        ENC = "utf-16"
        print("client:", repr(t))
        print("server:", repr(rows[0][5]) if rows else None)
        return 0 if rows and rows[0][5] == t else 1
    if r.get("kind") == "reported-range":
        exe, _ = common.build_server()
        bindir, _ = common.build_harness()
        edit = r["edit"]
        if edit is not None:
            edit = dict(range=(tuple(map(tuple, edit["range"])) if edit["range"] else None), text=edit["text"])
        why = reported_stage_one(exe, bindir, r["text"], edit)
        print(why or "every reported range addresses a token of the client's text")
        return 1 if why else 0
    if "text_before" not in r:
        print(json.dumps(r, indent=1))
        return 1
    exe, _ = common.build_server()
    chs = [dict(range=(tuple(map(tuple, c["range"])) if c["range"] else None), text=c["text"]) for c in r["changes"]]
    rows = run_histories(exe, [(r["text_before"], [(chs, r["client_text"])])], "replay")
    print("client:", repr(r["client_text"]))
    print("server:", repr(rows[0][5]) if rows else None)
    return 0 if rows and rows[0][5] == r["client_text"] else 1
