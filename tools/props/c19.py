"""C19 - message framing is independent of how the byte stream is chunked.

Three layers:
  proof            Props/C19.v (decode is monotone, FramedRead loop = function of the concatenated stream,
                   encode/decode round trip in bytes) about the model Model/Codec.v
  correspondence   the model (Judge/RunCodec.v `run_codec`, evaluated by coqc's VM) against the real codec
                   (harness/src/bin/codec_direct.rs = lsp4spl/src/io.rs + httparse + tokio_util FramedRead):
                   `decode` on every prefix of byte streams, FramedRead on every two-way split and random
                   multi-way splits, `encode` on serialised messages
  oracle           implementation only: split-invariance and prefix-stability of the real codec, and the
                   server binary run under segmented writes (same responses, well-formed output frames)
"""
import json
import os
import queue
import re
import time
from concurrent.futures import ThreadPoolExecutor

import common
import lspclient

# One-line switch to the extracted judge: once `run_codec` is reachable from Judge.Run.run under command
# numbers 1+K, 2+K, 3+K, set EXTRACTED_OFFSET = K (the kernel judge is then only used on a sample).
EXTRACTED_OFFSET = 10

COQ_FILES = ["theories/Model/Codec.v", "theories/Proofs/CodecProofs.v", "theories/Props/C19.v",
             "theories/Judge/RunCodec.v"]

ENCODING = ("command 1 (decode): 0 NeedMore | 1 consumed len body.. | 2 InvalidHeaders | 3 panic;  "
            "command 2 (FramedRead): count, then 0 len body.. message | 1 InvalidHeaders | 2 len body.. invalid JSON | "
            "3 panic | 4 bytes remaining on stream;  command 3 (encode): 0 frame-bytes..")


# ----------------------------------------------------------------------------------------------
# Coq side (works before and after the files are listed in _CoqProject)

def wired():
    proj = open(os.path.join(common.COQ, "_CoqProject")).read()
    return all(f in proj for f in COQ_FILES)


def ensure_vo():
    """compiled .vo of the four C19 files; through make when they are part of the project"""
    if wired():
        return common.coq_make([f + "o" for f in COQ_FILES])
    with common.Lock("coq"):
        log = ""
        for f in COQ_FILES:
            src = os.path.join(common.COQ, f)
            vo = src + "o"
            deps = [os.path.join(common.COQ, g) + "o" for g in COQ_FILES[:COQ_FILES.index(f)] if "Props" not in g]
            stale = (not os.path.exists(vo) or os.path.getmtime(vo) < os.path.getmtime(src)
                     or any(os.path.exists(d) and os.path.getmtime(d) > os.path.getmtime(vo) for d in deps))
            if stale:
                rc, out = common.sh(["timeout", "900", "coqc", "-q", "-Q", "theories", "Spl", f], cwd=common.COQ)
                log += out
                if rc != 0:
                    return False, log
        return True, log


def proof_stage(ctx):
    if wired():
        ctx.cov["proof_stage_mode"] = "make"
        return common.proof_stage(ctx, extra_targets=["theories/Judge/RunCodec.vo"])
    # same steps as common.proof_stage, with a direct coqc build (files not yet in _CoqProject)
    ok, log = ensure_vo()
    audit = common.coq_audit()
    rep = common.props_report("C19") if ok else dict(ok=False, theorems=[], closed=[], open={}, log=log, sha256="")
    ctx.cov.update({
        "proof_stage_mode": "standalone coqc (files not yet listed in _CoqProject)",
        "obligations": max(1, len(rep["theorems"])),
        "discharged": len(rep["closed"]) if rep["ok"] else 0,
        "theorems": rep["theorems"],
        "props_sha256": rep["sha256"],
        "checker_cmd": "cd /verif/coq && coqc -q -Q theories Spl " + " && coqc -q -Q theories Spl ".join(COQ_FILES[:3])
                       + " (Print Assumptions)",
        "trusted_base": common.TRUSTED_BASE,
        "audit_problems": audit,
    })
    if ok and rep["ok"] and not audit:
        return True
    ctx.proof_failure = dict(kind="proof-obligation", build_ok=ok, audit=audit, open_assumptions=rep.get("open"),
                             log_tail=(rep.get("log") or log)[-3000:])
    return False


KERNEL_PRELUDE = """From Coq Require Import List NArith Bool.
Import ListNotations.
From Spl Require Import Model.Codec Judge.RunCodec.
Open Scope N_scope.
Definition slice (s : list N) (a l : N) : list N := firstn (N.to_nat l) (skipn (N.to_nat a) s).
(* pieces of s between the sorted offsets in cuts *)
Fixpoint pieces (s : list N) (pos : N) (cuts : list N) : list (list N) :=
  match cuts with
  | [] => [s]
  | c :: r => firstn (N.to_nat (c - pos)) s :: pieces (skipn (N.to_nat (c - pos)) s) c r
  end.
Definition build (s : list N) (kind : N) (p : list N) : list N :=
  if kind =? 1 then 1 :: firstn (N.to_nat (hd 0 p)) s
  else if kind =? 2 then
    let ps := pieces s 0 p in 2 :: N.of_nat (length ps) :: flat_map (fun c => N.of_nat (length c) :: c) ps
  else 3 :: s.
(* expected outputs refer to bodies as (offset, length) in the stream *)
Fixpoint expand_events (s : list N) (e : list N) : list N :=
  match e with
  | [] => []
  | t :: r =>
      if (t =? 0) || (t =? 2)
      then match r with a :: l :: r2 => t :: l :: slice s a l ++ expand_events s r2 | _ => e end
      else t :: expand_events s r
  end.
Definition expand (s : list N) (kind : N) (e : list N) : list N :=
  if kind =? 1 then match e with [1; consumed; a; l] => 1 :: consumed :: l :: slice s a l | _ => e end
  else if kind =? 2 then match e with n :: r => n :: expand_events s r | [] => [] end
  else 0 :: e ++ s.
"""


def nl(xs):
    return "[" + ";".join(map(str, xs)) + "]"


def parse_lists(out):
    """innermost [..] groups of a printed Coq term"""
    return [[int(x) for x in re.findall(r"\d+", g)] for g in re.findall(r"\[([0-9;%N\s]*)\]", out)]


def coqc_eval(name, text, timeout=900):
    d = os.path.join(common.WORK, "cases")
    os.makedirs(d, exist_ok=True)
    fn = os.path.join(d, "cases_C19_%s_%d.v" % (name, os.getpid()))
    with open(fn, "w") as f:
        f.write(text)
    rc, out = common.sh(["timeout", str(timeout), "coqc", "-q", "-noglob", "-Q", "theories", "Spl", "-o", fn[:-2] + ".vo", fn],
                        cwd=common.COQ, timeout=timeout + 30)
    for ext in (".v", ".vo", ".vok", ".vos"):
        try:
            os.remove(fn[:-2] + ext)
        except OSError:
            pass
    if rc != 0:
        raise RuntimeError("kernel judge failed: " + out[-2000:])
    return out


def kernel_codec(streams, groups, budget=30000):
    """streams: list of byte strings.  groups: list of (sid, kind, [params..], compact_expected, [case ids..]).
    For every group and every params p, coqc's VM checks  run_codec (build s kind p) = expand s kind expected.
    Returns the failing case ids."""
    by_stream = {}
    for g in groups:
        by_stream.setdefault(g[0], []).append(g)
    shards, cur, size = [], [], 0
    for sid in sorted(by_stream, key=lambda i: -len(streams[i])):
        w = len(streams[sid]) + sum(4 + len(g[3]) + sum(1 + len(p) for p in g[2]) for g in by_stream[sid])
        if cur and size + w > budget:
            shards.append(cur)
            cur, size = [], 0
        cur.append(sid)
        size += w
    if cur:
        shards.append(cur)

    def one(idx):
        sids = shards[idx]
        local = {sid: i for i, sid in enumerate(sids)}
        gs = [g for sid in sids for g in by_stream[sid]]
        t = [KERNEL_PRELUDE]
        t.append("Definition streams : list (list N) := [\n%s].\n" % ";\n".join(nl(streams[sid]) for sid in sids))
        t.append("Definition groups : list (nat * N * list (list N) * list N) := [\n%s].\n" % ";\n".join(
            "(%d%%nat,%d,[%s],%s)" % (local[g[0]], g[1], ";".join(nl(p) for p in g[2]), nl(g[3])) for g in gs))
        t.append("Definition check (g : nat * N * list (list N) * list N) : list bool :=\n"
                 "  let '(sid, kind, ps, e) := g in let s := nth sid streams [] in let ex := expand s kind e in\n"
                 "  map (fun p => bytes_eqb (run_codec (build s kind p)) ex) ps.\n")
        t.append("Definition flags : list bool := flat_map check groups.\n")
        t.append("Eval vm_compute in (length flags, map fst (filter (fun x => negb (snd x)) (combine (seq 0 (length flags)) flags))).\n")
        out = coqc_eval("s%d" % idx, "".join(t))
        ids = [cid for g in gs for cid in g[4]]
        m = re.search(r"=\s*\((\d+)%?\w*,\s*\[(.*?)\]\)", out.replace("\n", " "), flags=re.S)
        if not m or int(m.group(1)) != len(ids):
            raise RuntimeError("kernel judge: cannot parse output: " + out[-500:])
        return [ids[int(x)] for x in re.findall(r"\d+", m.group(2).replace("%nat", ""))]

    failing = []
    with ThreadPoolExecutor(common.JOBS) as ex:
        for r in ex.map(one, range(len(shards))):
            failing.extend(r)
    return sorted(failing), len(shards)


def kernel_outputs(lines):
    """model outputs of a few explicit commands (used to describe a mismatch)"""
    if not lines:
        return []
    text = ("From Coq Require Import List NArith.\nImport ListNotations.\nFrom Spl Require Import Judge.RunCodec.\n"
            "Open Scope N_scope.\nEval vm_compute in [%s].\n" % ";\n".join("run_codec " + nl(l.split()) for l in lines))
    out = coqc_eval("out", text)
    res = parse_lists(out[out.index("="):])
    return [" ".join(map(str, r)) for r in res]


# ----------------------------------------------------------------------------------------------
# generators

URI = "file:///tmp/\u00fc.spl"
TEXTS = [
    "// Gr\u00fc\u00dfe, \u4e16\u754c \U0001F600\nproc main() {\n  printi(1);\n  \u00e9\n}\n",
    "type v = array [3] of int; // \u2200x\u2208\u2115\n// \u00e4\u00f6\u00fc\nproc f(ref a: v) { a[0] := '\u00e9'; }\nproc main() { }\n",
    "// \U0001F980 \u0436\u0443\u043a\nproc main() {\n  var i: int;\n  i := 0x1F \u00a7 2;\n  printc('\\n');\n}\n",
]


def jbody(obj, style=0):
    if style == 1:
        return json.dumps(obj, ensure_ascii=True).encode("utf-8")           # \\uXXXX escapes, spaces after , and :
    if style == 2:
        return json.dumps(obj, ensure_ascii=False, indent=1).encode("utf-8")  # newlines inside the body
    return json.dumps(obj, ensure_ascii=False, separators=(",", ":")).encode("utf-8")


def req(i, method, params=None):
    m = {"jsonrpc": "2.0", "id": i, "method": method}
    if params is not None:
        m["params"] = params
    return m


def note(method, params=None):
    m = {"jsonrpc": "2.0", "method": method}
    if params is not None:
        m["params"] = params
    return m


def lsp_session_exit_only(text, uri=URI):
    """like lsp_session, but the client leaves with `exit` WITHOUT `shutdown` (status 1): every request sent before must still be
    answered, however the bytes are chunked"""
    return [m for m in lsp_session(text, uri) if m.get("method") != "shutdown"]


def lsp_session(text, uri=URI):
    """initialize, initialized, didOpen (non-ASCII text), hover on main (non-ASCII doc comment), $/verif/text,
    hover on a builtin, shutdown, exit"""
    line = next((i for i, l in enumerate(text.split("\n")) if l.startswith("proc main")), 0)
    return [
        req(1, "initialize", {"processId": None, "rootUri": None, "capabilities": {"textDocument": {"publishDiagnostics": {}}}}),
        note("initialized", {}),
        note("textDocument/didOpen", {"textDocument": {"uri": uri, "languageId": "spl", "version": 1, "text": text}}),
        req(2, "textDocument/hover", {"textDocument": {"uri": uri}, "position": {"line": line, "character": 6}}),
        req(3, "$/verif/text", {"uri": uri}),
        req(4, "shutdown"),
        note("exit"),
    ]


def lsp_session_two_documents(text):
    """two documents, interleaved didChange notifications (ranged and full), diagnostics announced: what is published must not
    depend on which frames happen to arrive in the same read"""
    ua, ub = "file:///a.spl", "file:///b.spl"
    full = lambda u, v, s: note("textDocument/didChange", {"textDocument": {"uri": u, "version": v}, "contentChanges": [{"text": s}]})
    ins = lambda u, v, s: note("textDocument/didChange", {"textDocument": {"uri": u, "version": v}, "contentChanges": [
        {"range": {"start": {"line": 0, "character": 0}, "end": {"line": 0, "character": 0}}, "text": s}]})
    return [
        req(1, "initialize", {"processId": None, "rootUri": None, "capabilities": {"textDocument": {"publishDiagnostics": {}}}}),
        note("initialized", {}),
        note("textDocument/didOpen", {"textDocument": {"uri": ua, "languageId": "spl", "version": 1, "text": text}}),
        note("textDocument/didOpen", {"textDocument": {"uri": ub, "languageId": "spl", "version": 1, "text": "proc main() { }\n"}}),
        full(ua, 2, "proc main() { x := 1; }\n"),
        full(ub, 2, "proc main() { y := '\u00e9'; }\n"),
        ins(ua, 3, "// \u4e16\n"),
        ins(ua, 4, "type t = int;\n"),
        ins(ub, 3, "type y = int;\n"),
        req(2, "$/verif/text", {"uri": ua}),
        full(ub, 4, text),
        full(ua, 5, "proc main() { var x: int; x := 1; }\n"),
        req(3, "$/verif/text", {"uri": ub}),
        req(4, "shutdown"),
        note("exit"),
    ]


def random_text(rng, n):
    pool = ["proc ", "main", "() {", "}\n", " ", "\u00e9", "\u00fc\u00df", "\u4e16\u754c", "\U0001F600", "// ", "x := 1;", "\n", "\"", "\\", "'a'", "\t"]
    s = ""
    while len(s.encode("utf-8")) < n:
        s += rng.choice(pool)
    return s


def random_message(rng, size=None):
    """a JSON value that deserialises to io::Message (request / notification / response)"""
    r = rng.random()
    text = random_text(rng, size if size is not None else rng.choice([0, 3, 10, 40, 80]))
    if r < 0.3:
        return note(rng.choice(["textDocument/didOpen", "textDocument/didChange", "x", "$/\u00e9"]),
                    {"textDocument": {"uri": URI, "text": text}})
    if r < 0.6:
        return req(rng.randint(-5, 99999), rng.choice(["textDocument/hover", "shutdown", "m\u00e9thode"]), {"t": text, "n": [1, 2.5, None, True]})
    if r < 0.7:
        return note(rng.choice(["exit", "initialized"]))
    if r < 0.85:
        return {"jsonrpc": "2.0", "id": rng.randint(0, 9), "result": rng.choice([None, text, {"k": text}])}
    return {"jsonrpc": "2.0", "id": rng.randint(0, 9), "error": {"code": -32601, "message": text, "data": None}}


CTYPE = b"Content-Type: application/vscode-jsonrpc; charset=utf-8"
GOOD_HEADS = ["std", "ctype_after", "ctype_before", "lf", "plus", "zeros", "spaces", "tab", "nospace", "mixed_eol", "dup_same"]


def head(style, n):
    d = b"%d" % n
    return {
        "std": b"Content-Length: " + d + b"\r\n\r\n",
        "ctype_after": b"Content-Length: " + d + b"\r\n" + CTYPE + b"\r\n\r\n",
        "ctype_before": CTYPE + b"\r\nContent-Length: " + d + b"\r\n\r\n",
        "lf": b"Content-Length: " + d + b"\n\n",
        "plus": b"Content-Length: +" + d + b"\r\n\r\n",
        "zeros": b"Content-Length: 000" + d + b"\r\n\r\n",
        "spaces": b"Content-Length:    " + d + b"   \r\n\r\n",
        "tab": b"Content-Length:\t" + d + b"\t \r\n\r\n",
        "nospace": b"Content-Length:" + d + b"\r\n\r\n",
        "mixed_eol": b"Content-Length: " + d + b"\n\r\n",
        "dup_same": b"Content-Length: " + d + b"\r\nContent-Length: 7\r\n\r\n",          # the first one wins
        # ---- rejected or otherwise odd heads
        "lower": b"content-length: " + d + b"\r\n\r\n",
        "upper": b"CONTENT-LENGTH: " + d + b"\r\n\r\n",
        "three": b"A: b\r\nContent-Length: " + d + b"\r\nC: d\r\n\r\n",
        "three_cl_last": b"A: b\r\nC: d\r\nContent-Length: " + d + b"\r\n\r\n",
        "no_cl": b"Content-Type: x\r\nX-Y: " + d + b"\r\n\r\n",
        "space_before_colon": b"Content-Length : " + d + b"\r\n\r\n",
        "leading_space": b" Content-Length: " + d + b"\r\n\r\n",
        "leading_crlf": b"\r\nContent-Length: " + d + b"\r\n\r\n",
        "leading_lf": b"\nContent-Length: " + d + b"\r\n\r\n\r\n\r\n\r\n\r\n",
        "folded": b"Content-Length: " + d + b"\r\n 1\r\n\r\n",
        "minus": b"Content-Length: -" + d + b"\r\n\r\n",
        "plusplus": b"Content-Length: ++" + d + b"\r\n\r\n",
        "plus_only": b"Content-Length: +\r\nX: " + d + b"\r\n\r\n",
        "hex": b"Content-Length: 0x" + d + b"\r\n\r\n",
        "empty_value": b"Content-Length:\r\nX: " + d + b"\r\n\r\n",
        "empty_value_sp": b"Content-Length:   \r\nX: " + d + b"\r\n\r\n",
        "inner_space": b"Content-Length: 1 " + d + b"\r\n\r\n",
        "trailing_garbage": b"Content-Length: " + d + b";\r\n\r\n",
        "float": b"Content-Length: " + d + b".0\r\n\r\n",
        "non_utf8_value": b"Content-Length: " + d + b"\xff\r\n\r\n",
        "arabic_digits": b"Content-Length: \xd9\xa1\xd9\xa2\r\nX: " + d + b"\r\n\r\n",
        "fullwidth_digit": b"Content-Length: \xef\xbc\x91" + d + b"\r\n\r\n",
        "nul_in_value": b"Content-Length: " + d + b"\x00\r\n\r\n",
        "del_in_value": b"Content-Length: " + d + b"\x7f\r\n\r\n",
        "ctl_after_colon": b"Content-Length:\x01" + d + b"\r\n\r\n",
        "cr_only": b"Content-Length: " + d + b"\r\r\n\r\n",
        "cr_x": b"Content-Length: " + d + b"\rX\n\r\n",
        "end_cr_x": b"Content-Length: " + d + b"\r\n\rX{}",
        "bad_name_char": b"Content-Length(x): " + d + b"\r\n\r\n",
        "at_name": b"@: 1\r\nContent-Length: " + d + b"\r\n\r\n",
        "name_non_ascii": b"Cont\xc3\xa9nt-Length: " + d + b"\r\n\r\n",
        "colon_first": b": " + d + b"\r\nContent-Length: 2\r\n\r\n",
        "obs_text_value": b"X: \xc3\xa9\xff\x80\r\nContent-Length: " + d + b"\r\n\r\n",
        "odd_tokens": b"!#$%&'*+-.^_`|~09azAZ: v\r\nContent-Length: " + d + b"\r\n\r\n",
        "value_with_colon": b"X: a:b: c\r\nContent-Length: " + d + b"\r\n\r\n",
        "dup_other": b"Content-Length: 3\r\nContent-Length: " + d + b"\r\n\r\n",
        "max": b"Content-Length: 18446744073709551615\r\n\r\n",
        "max_minus_30": b"Content-Length: 18446744073709551585\r\n\r\n",
        "max_minus_60": b"Content-Length: 18446744073709551555\r\n\r\n",
        "two_pow_64": b"Content-Length: 18446744073709551616\r\n\r\n",
        "huge": b"Content-Length: 99999999999999999999999999999999\r\n\r\n",
        "zeros_max": b"Content-Length: 0000000000000000000018446744073709551615\r\n\r\n",
        "i64_max": b"Content-Length: 9223372036854775807\r\n\r\n",
    }[style]


BAD_HEADS = ["lower", "upper", "three", "three_cl_last", "no_cl", "space_before_colon", "leading_space", "leading_crlf",
             "leading_lf", "folded", "minus", "plusplus", "plus_only", "hex", "empty_value", "empty_value_sp", "inner_space",
             "trailing_garbage", "float", "non_utf8_value", "arabic_digits", "fullwidth_digit", "nul_in_value",
             "del_in_value", "ctl_after_colon", "cr_only", "cr_x", "end_cr_x", "bad_name_char", "at_name", "name_non_ascii",
             "colon_first", "obs_text_value", "odd_tokens", "value_with_colon", "dup_other", "max", "max_minus_30",
             "max_minus_60", "two_pow_64", "huge", "zeros_max", "i64_max"]


def gen_decode_streams(ctx):
    """byte streams for command 1 (decode on prefixes): (origin, bytes)"""
    rng = ctx.rng
    out = []
    small = [b"{}", b"null", b" null\r\n", b"7", b"", b"[]", b"{\"a\":\"\xc3\xa9\"}", b"\xff\xfe", b"x" * 9]
    msgs = [jbody(note("exit")), jbody(req(1, "shutdown")), jbody(random_message(rng, 3)), jbody(random_message(rng, 40), 1),
            jbody(random_message(rng, 10), 2)]
    # every head style, with a one-digit and a multi-digit length, followed by the start of another frame
    for st in GOOD_HEADS + BAD_HEADS:
        for body in (rng.choice(small), rng.choice(msgs)):
            out.append(("head:" + st, head(st, len(body)) + body + b"Content-Length: 2\r\n\r\n{}"))
    # declared length shorter / longer than the body, short frames (< 21 bytes in total), garbage
    b = jbody(random_message(rng, 10))
    out.append(("short-length", head("std", len(b) - 5) + b + head("std", 2) + b"{}"))
    out.append(("long-length", head("std", len(b) + 7) + b + head("std", 2) + b"{}"))
    out.append(("tiny-frame", b"Content-Length:1\n\n7"))
    out.append(("tiny-frames", b"Content-Length:1\n\n7" * 3))
    out.append(("tiny-frame-crlf", b"Content-Length: 2\r\n\r\n{}"))
    out.append(("zero-length", b"Content-Length: 0\r\n\r\nContent-Length: 0\r\n\r\n"))
    out.append(("only-newlines", b"\r\n" * 15))
    out.append(("only-lf", b"\n" * 25))
    out.append(("json-without-head", b + b))
    n = 200 if ctx.thorough() else 30
    for _ in range(n):
        out.append(("garbage", bytes(rng.choice([rng.randrange(256), rng.choice(b"Content-Length: 0123456789\r\n\r\n:;\t")])
                                     for _ in range(rng.randint(21, 60)))))
    # mutations of a well-formed frame: one byte replaced / deleted / inserted in the head
    n = 260 if ctx.thorough() else 40
    for _ in range(n):
        body = rng.choice(small + msgs)
        st = rng.choice(GOOD_HEADS)
        h = bytearray(head(st, len(body)))
        i = rng.randrange(len(h))
        op = rng.random()
        c = rng.choice([rng.randrange(256), rng.choice(b"\r\n \t:+-0123456789")])
        if op < 0.5:
            h[i] = c
        elif op < 0.75:
            del h[i]
        else:
            h.insert(i, c)
        out.append(("mutated:" + st, bytes(h) + body + b"Content-Length: 2\r\n\r\n{}"))
    # well-formed sessions (what a client really sends), several digits in the length
    n = 60 if ctx.thorough() else 8
    for _ in range(n):
        k = rng.randint(1, 3)
        s = b"".join(frame_bytes(rng, jbody(random_message(rng), rng.choice([0, 0, 1, 2]))) for _ in range(k))
        out.append(("session", s))
    for size in ([1100, 10050] if ctx.thorough() else [1100]):
        bd = jbody(note("textDocument/didOpen", {"textDocument": {"uri": URI, "text": random_text(rng, size)}}))
        out.append(("long-body-%d-digits" % len(str(len(bd))), head("std", len(bd)) + bd + head("lf", 2) + b"{}"))
    return out


def frame_bytes(rng, body, styles=GOOD_HEADS):
    return head(rng.choice(styles), len(body)) + body


def gen_streams_for_splits(ctx):
    """byte streams for command 2 (FramedRead under segmentation); every complete frame holds a valid Message"""
    rng = ctx.rng
    out = []
    for f, c in corpus():
        if "codec" in c:
            out.append(("corpus:" + f, c["codec"]["stream"].encode("utf-8")))
    for t in TEXTS[: (3 if ctx.thorough() else 1)]:
        out.append(("lsp-session", b"".join(lspclient.frame(m) for m in lsp_session(t))))
    n = 40 if ctx.thorough() else 7
    tails = ["", "truncated", "bad-head", "garbage", "crash", "tiny", "three-headers-partial", "newlines", "null-body"]
    for i in range(n):
        k = rng.randint(2, 5)
        s = b"".join(frame_bytes(rng, jbody(random_message(rng), rng.choice([0, 0, 1, 2]))) for _ in range(k))
        tail = tails[i % len(tails)]
        if tail == "truncated":
            f = frame_bytes(rng, jbody(random_message(rng, 40)))
            s += f[:rng.randint(1, len(f) - 1)]
        elif tail == "bad-head":
            b = jbody(random_message(rng, 3))
            s += head(rng.choice(["lower", "three", "minus", "space_before_colon", "cr_x", "two_pow_64", "no_cl"]), len(b)) + b
        elif tail == "garbage":
            s += bytes(rng.randrange(256) for _ in range(rng.randint(1, 40)))
        elif tail == "crash":
            s += head(rng.choice(["max", "max_minus_30"]), 0) + b"{}"
        elif tail == "tiny":
            s += b"Content-Length:1\n\n7"
        elif tail == "three-headers-partial":
            s += b"A: b\r\nC: d\r\nContent-Length: 2"
        elif tail == "newlines":
            s += b"\r\n\r\n"
        elif tail == "null-body":
            nb = rng.choice([b"null", b" null ", b"\nnull\r\n"])
            s += head("std", len(nb)) + nb + frame_bytes(rng, jbody(random_message(rng, 3)))
        out.append(("frames+" + (tail or "clean"), s))
    return out


def gen_big_stream(ctx):
    rng = ctx.rng
    bd = jbody(note("textDocument/didOpen", {"textDocument": {"uri": URI, "text": random_text(rng, 10050)}}))
    b2 = jbody(req(2, "textDocument/hover", {"textDocument": {"uri": URI}, "position": {"line": 0, "character": 1}}))
    return head("std", len(bd)) + bd + head("ctype_after", len(b2)) + b2


def corpus():
    out = []
    d = os.path.join(common.VERIF, "corpus", "C19")
    if os.path.isdir(d):
        for f in sorted(os.listdir(d)):
            if f.endswith(".json"):
                out.append((f, json.load(open(os.path.join(d, f)))))
    return out


def cmd1(b):
    return "1 " + " ".join(map(str, b))


def cmd2(chunks):
    return ("2 %d " % len(chunks) + " ".join("%d %s" % (len(c), " ".join(map(str, c))) for c in chunks)).strip()


def cmd3(b):
    return "3 " + " ".join(map(str, b))


def pieces(s, cuts):
    out, pos = [], 0
    for c in list(cuts) + [len(s)]:
        out.append(s[pos:c])
        pos = c
    return out


def interesting_cuts(s, rng, n):
    """cut points concentrated on heads and multi-byte characters of a long stream"""
    cuts = set(range(0, 45)) | {len(s) - i for i in range(0, 12)}
    for m in re.finditer(rb"Content-", s):
        cuts |= set(range(max(0, m.start() - 3), min(len(s), m.start() + 40)))
    nonascii = [i for i, c in enumerate(s) if c >= 0x80]
    cuts |= set(rng.sample(nonascii, min(len(nonascii), n // 3)))
    cuts |= {rng.randrange(len(s) + 1) for _ in range(n // 3)}
    return sorted(c for c in cuts if 0 <= c <= len(s))


# ----------------------------------------------------------------------------------------------
# compact form of implementation outputs (bodies as offsets into the stream)

def compact_decode(s, out):
    if out[0] != 1:
        return out
    consumed, ln, body = out[1], out[2], bytes(out[3:])
    a = consumed - ln
    if len(body) != ln or s[a:a + ln] != body:
        return None
    return [1, consumed, a, ln]


def compact_events(s, out):
    n, r, pos, i = out[0], [out[0]], 0, 1
    for _ in range(n):
        t = out[i]
        i += 1
        if t in (0, 2):
            ln = out[i]
            body = bytes(out[i + 1:i + 1 + ln])
            i += 1 + ln
            a = s.find(body, pos)
            if a < 0:
                return None
            r += [t, a, ln]
            pos = a + ln
        else:
            r.append(t)
    return r if i == len(out) else None


# ----------------------------------------------------------------------------------------------
# codec level: real codec vs model, and the implementation-only oracles

def codec_level(ctx, bindir):
    rng = ctx.rng
    exe = os.path.join(bindir, "codec_direct")
    streams, cases = [], []  # case: dict(origin, sid, kind, params, line)

    def add_stream(s):
        streams.append(s)
        return len(streams) - 1

    # command 1: every prefix
    for origin, s in gen_decode_streams(ctx):
        sid = add_stream(s)
        ks = range(len(s) + 1) if len(s) <= 400 else sorted(set(list(range(0, 70)) + list(range(len(s) - 40, len(s) + 1))
                                                                 + rng.sample(range(len(s)), 40)))
        for k in ks:
            cases.append(dict(origin="decode-prefix/" + origin, sid=sid, kind=1, params=[k], line=cmd1(s[:k])))
    # command 2: all two-way splits, random multi-way splits, one byte per read
    split_streams = gen_streams_for_splits(ctx)
    for origin, s in split_streams:
        sid = add_stream(s)
        cases.append(dict(origin="unsplit/" + origin, sid=sid, kind=2, params=[], line=cmd2([s])))
        for k in range(len(s) + 1):
            cases.append(dict(origin="two-way/" + origin, sid=sid, kind=2, params=[k], line=cmd2(pieces(s, [k]))))
        for f, c in corpus():
            if origin == "corpus:" + f:
                cases.append(dict(origin="two-way/" + origin, sid=sid, kind=2, params=c["codec"]["cuts"],
                                  line=cmd2(pieces(s, c["codec"]["cuts"]))))
        for _ in range(60 if ctx.thorough() else 12):
            cuts = sorted(rng.randrange(len(s) + 1) for _ in range(rng.choice([2, 3, 4, 6, 10, 25])))
            cases.append(dict(origin="multi-way/" + origin, sid=sid, kind=2, params=cuts, line=cmd2(pieces(s, cuts))))
        if len(s) <= 700:
            cuts = list(range(1, len(s)))
            cases.append(dict(origin="bytewise/" + origin, sid=sid, kind=2, params=cuts, line=cmd2(pieces(s, cuts))))
    big = gen_big_stream(ctx)
    sid = add_stream(big)
    cases.append(dict(origin="unsplit/5-digit-length", sid=sid, kind=2, params=[], line=cmd2([big])))
    for k in interesting_cuts(big, rng, 300 if ctx.thorough() else 60):
        cases.append(dict(origin="two-way/5-digit-length", sid=sid, kind=2, params=[k], line=cmd2(pieces(big, [k]))))
    for _ in range(40 if ctx.thorough() else 8):
        cuts = sorted(rng.randrange(len(big) + 1) for _ in range(rng.choice([2, 3, 5, 9])))
        cases.append(dict(origin="multi-way/5-digit-length", sid=sid, kind=2, params=cuts, line=cmd2(pieces(big, cuts))))
    for k in sorted(set(list(range(0, 60)) + list(range(len(big) - 130, len(big) + 1, 3)))):
        cases.append(dict(origin="decode-prefix/5-digit-length", sid=sid, kind=1, params=[k], line=cmd1(big[:k])))
    # command 3: encode.  Stage 1 turns JSON texts into the server's own serialisation, stage 2 compares.
    raw = [jbody(random_message(rng), rng.choice([0, 1, 2])) for _ in range(120 if ctx.thorough() else 30)]
    raw += [jbody(m) for t in TEXTS for m in lsp_session(t)]
    raw += [jbody({"jsonrpc": "2.0", "id": 1, "result": random_text(rng, n)}) for n in (0, 5, 60, 950, 9990)]
    stage1 = common.run_lines(exe, [cmd3(b) for b in raw])
    enc_fail = []
    canon = []
    for b, o in zip(raw, stage1):
        o = [int(x) for x in o.split()]
        if o[0] != 0:
            enc_fail.append(dict(what="a valid message is rejected by serde/encode", body=b.decode("utf-8")))
            continue
        e = bytes(o[1:])
        m = re.match(rb"Content-Length: (0|[1-9][0-9]*)\r\n\r\n", e)
        ok = False
        if m and int(m.group(1)) == len(e) - m.end():
            try:
                ok = json.loads(e[m.end():].decode("utf-8")) is not None
            except ValueError:
                ok = False
        if not ok:
            enc_fail.append(dict(what="encoded frame: Content-Length is not the byte length of the JSON body",
                                 body=b.decode("utf-8"), frame=e.decode("utf-8", "replace")))
        else:
            canon.append(e[m.end():])
    for b in sorted(set(canon)):
        sid = add_stream(b)
        cases.append(dict(origin="encode", sid=sid, kind=3, params=[], line=cmd3(b)))
        f = b"Content-Length: %d\r\n\r\n" % len(b) + b
        sid = add_stream(f + b"C")
        cases.append(dict(origin="decode-of-encode", sid=sid, kind=1, params=[len(f) + 1], line=cmd1(f + b"C")))

    lines = [c["line"] for c in cases]
    impl = common.run_lines(exe, lines)
    impl_n = [[int(x) for x in o.split()] for o in impl]

    # ---- implementation-only oracles
    fails = list(enc_fail)
    base = {}
    for c, o in zip(cases, impl):
        if c["origin"].startswith("unsplit/"):
            base[c["sid"]] = o
    last = {}
    for i, (c, o) in enumerate(zip(cases, impl)):
        s = streams[c["sid"]]
        if c["kind"] == 2 and o != base[c["sid"]]:
            fails.append(dict(what="FramedRead<LSCodec> yields different items for a segmented stream",
                              stream=list(s), text=s.decode("utf-8", "replace"), cuts=c["params"], origin=c["origin"],
                              unsplit=base[c["sid"]], segmented=o, command=c["line"] if len(s) < 2000 else None))
        if c["kind"] == 1 and c["origin"].startswith("decode-prefix/"):
            p = last.get(c["sid"])
            if p is not None and p[1] != "0" and p[1] != o:
                fails.append(dict(what="decode changes a final verdict when more bytes arrive", stream=list(s),
                                  text=s.decode("utf-8", "replace"), prefix=p[0], verdict=p[1], longer_prefix=c["params"][0],
                                  later_verdict=o))
            last[c["sid"]] = (c["params"][0], o)
        if c["origin"] == "decode-of-encode":
            f = s[:-1]
            want = "1 %d %d %s" % (len(f), len(f) - f.index(b"\r\n\r\n") - 4, " ".join(map(str, f[f.index(b"\r\n\r\n") + 4:])))
            if o.strip() != want.strip():
                fails.append(dict(what="a frame written by encode is not read back exactly by decode",
                                  frame=f.decode("utf-8", "replace"), decode_output=o))
        if c["origin"] == "encode":
            if bytes(impl_n[i][1:]) != b"Content-Length: %d\r\n\r\n" % len(s) + s:
                fails.append(dict(what="encode is not the identity on its own serialisation / wrong Content-Length",
                                  body=s.decode("utf-8", "replace"), frame=bytes(impl_n[i][1:]).decode("utf-8", "replace")))

    # ---- correspondence
    mism, model_out, nshards = [], {}, 0
    if EXTRACTED_OFFSET is not None:
        judge, jlog = common.build_judge()
        shifted = ["%d %s" % (int(l.split(" ", 1)[0]) + EXTRACTED_OFFSET, l.split(" ", 1)[1] if " " in l else "") for l in lines]
        model = common.run_lines(judge, shifted)
        mism = [i for i in range(len(lines)) if model[i] != impl[i]]
        model_out = {i: model[i] for i in mism[:5]}
        kpick = set(ctx.rng.sample(range(len(cases)), min(len(cases), 3000)))
    else:
        kpick = set(range(len(cases)))
    groups, odd = {}, []
    for i, c in enumerate(cases):
        if i not in kpick:
            continue
        s = streams[c["sid"]]
        o = impl_n[i]
        if c["kind"] == 1:
            e = compact_decode(s, o)
        elif c["kind"] == 2:
            e = compact_events(s, o)
        else:
            e = o[1:len(o) - len(s)] if o[0] == 0 and bytes(o[len(o) - len(s):]) == s else None
        if e is None:
            odd.append(i)  # the implementation returned a body that is not a slice of the stream
            continue
        groups.setdefault((c["sid"], c["kind"], tuple(e)), []).append(i)
    glist = [(k[0], k[1], [cases[i]["params"] for i in ids], list(k[2]), ids) for k, ids in groups.items()]
    kfail, nshards = kernel_codec([list(s) for s in streams], glist)
    mism = sorted(set(mism) | set(kfail) | set(odd))
    if mism and not model_out:
        few = sorted(mism, key=lambda i: len(lines[i]))[:3]
        try:
            model_out = dict(zip(few, kernel_outputs([lines[i] for i in few])))
        except Exception as e:  # description only
            model_out = {few[0]: "unavailable: %s" % e}
    return dict(cases=cases, streams=streams, lines=lines, impl=impl, fails=fails, mism=mism, model_out=model_out,
                kernel_cases=len(kpick) - len(odd), kernel_shards=nshards, split_streams=len(split_streams) + 1,
                encode_messages=len(raw))


# ----------------------------------------------------------------------------------------------
# binary level: the server under segmented writes

FRAME_RE = re.compile(rb"Content-Length: (0|[1-9][0-9]*)\r\n\r\n")


def strict_frames(raw):
    """the server's stdout must be exactly a sequence of  Content-Length: <byte length>\\r\\n\\r\\n<JSON>"""
    pos, n = 0, 0
    raw = bytes(raw)
    while pos < len(raw):
        m = FRAME_RE.match(raw, pos)
        if not m:
            return "frame %d: bad head at offset %d: %r" % (n, pos, raw[pos:pos + 60])
        ln = int(m.group(1))
        body = raw[m.end():m.end() + ln]
        if len(body) != ln:
            return "frame %d: Content-Length %d but only %d bytes follow" % (n, ln, len(body))
        try:
            json.loads(body.decode("utf-8"))
        except ValueError as e:
            return "frame %d: Content-Length %d does not delimit a JSON text (%s): %r" % (n, ln, e, body[:80])
        pos = m.end() + ln
        n += 1
    return None


def observe(exe, data, cuts, timeout=8.0, delay=0.003):
    s = lspclient.Server(exe)
    try:
        if cuts:
            s.send_chunks(data, cuts, delay)
        else:
            s.send_raw(data)
        msgs, eof = s.drain(timeout)
        code = s.wait(timeout if eof else 0.1)
        problems = list(s.frame_errors)
        why = strict_frames(s.raw)
        if why:
            problems.append(why)
        return dict(msgs=msgs, eof=eof, code=code, frame_problems=problems)
    finally:
        s.kill()


def same(a, b):
    return a["msgs"] == b["msgs"] and a["eof"] == b["eof"] and a["code"] == b["code"]


def binary_level(ctx, exe):
    rng = ctx.rng
    fails, runs, unconfirmed, frames_checked, nonascii_frames = [], 0, 0, 0, 0
    sessions = []
    jobs = []
    for f, c in corpus():
        if "binary" in c:
            data = c["binary"]["input"].encode("utf-8")
            sessions.append(("corpus:" + f, data))
            jobs.append((len(sessions) - 1, c["binary"]["cuts"]))
            for k in rng.sample(range(1, len(data)), 6):
                jobs.append((len(sessions) - 1, [k]))
    ncorpus = len(sessions)
    frame_cuts = {}
    for t in TEXTS:
        frames = [lspclient.frame(m) for m in lsp_session(t)]
        data = b"".join(frames)
        sessions.append((t, data))
        cuts, pos = [], 0
        for f in frames[:-1]:
            pos += len(f)
            cuts.append(pos)
        frame_cuts[len(sessions) - 1] = cuts
    for t in TEXTS[:3 if ctx.thorough() else 1]:
        frames = [lspclient.frame(m) for m in lsp_session_exit_only(t)]
        data = b"".join(frames)
        sessions.append(("exit without shutdown: " + t, data))
        cuts, pos = [], 0
        for f in frames[:-1]:
            pos += len(f)
            cuts.append(pos)
        frame_cuts[len(sessions) - 1] = cuts
    for t in TEXTS[:2 if ctx.thorough() else 1]:
        frames = [lspclient.frame(m) for m in lsp_session_two_documents(t)]
        data = b"".join(frames)
        sessions.append(("two documents: " + t, data))
        cuts, pos = [], 0
        for f in frames[:-1]:
            pos += len(f)
            cuts.append(pos)
        frame_cuts[len(sessions) - 1] = cuts
    for si, (t, data) in enumerate(sessions):
        if si < ncorpus:
            continue
        step = 1 if ctx.thorough() else 7
        off = rng.randrange(step)
        for k in range(1 + off, len(data), step):
            jobs.append((si, [k]))
        nonascii = [i for i, c in enumerate(data) if c >= 0x80]
        for k in (nonascii if ctx.thorough() else rng.sample(nonascii, min(len(nonascii), 10))):
            jobs.append((si, [k]))           # inside a multi-byte character
        for _ in range(40 if ctx.thorough() else 8):
            jobs.append((si, sorted(set(rng.randrange(1, len(data)) for _ in range(rng.choice([2, 3, 5, 8, 12]))))))
    bases = []
    for si, (t, data) in enumerate(sessions):
        b = observe(exe, data, [])
        b2 = observe(exe, data, [])
        runs += 2
        bases.append(b)
        if not same(b, b2) or not b["eof"] or b["frame_problems"]:
            # the unsegmented run itself is not reproducible / not well-formed
            again = [observe(exe, data, [], timeout=15.0) for _ in range(3)]
            runs += 3
            if all(a["frame_problems"] for a in again):
                fails.append(dict(what="the server emits a frame whose Content-Length is not the byte length of its JSON body",
                                  session_text=t, input=data.decode("utf-8"), cuts=[], problems=again[0]["frame_problems"]))
            elif not all(same(a, again[0]) and a["eof"] for a in again):
                stuck = all(not a["eof"] for a in again) and si in frame_cuts
                ref = [observe(exe, data, frame_cuts[si], timeout=15.0, delay=0.1) for _ in range(2)] if stuck else []
                runs += len(ref)
                if stuck and all(r["eof"] for r in ref):
                    # written in one piece the session never completes, written message by message it does
                    fails.append(dict(what="the server does not complete the session when it arrives in a single write, but does when "
                                           "the same bytes arrive one message per write",
                                      session_text=t, input=data.decode("utf-8"), cuts=frame_cuts[si],
                                      unsegmented=dict(messages=again[0]["msgs"], exit_code=again[0]["code"], eof=again[0]["eof"]),
                                      segmented=dict(messages=ref[0]["msgs"], exit_code=ref[0]["code"], eof=ref[0]["eof"]), problems=[]))
                else:
                    ctx.cov.setdefault("notes", []).append("session %d: unsegmented runs are not reproducible; skipped" % si)
                bases[-1] = None
            else:
                bases[-1] = again[0]
        if bases[-1] is not None:
            frames_checked += len(bases[-1]["msgs"])
            nonascii_frames += sum(1 for m in bases[-1]["msgs"] if any(ord(ch) > 127 for ch in json.dumps(m, ensure_ascii=False)))

    # the reference chunking: one message per write, with a pause in between (what a lock-step client does);
    # a single write of the whole session must be indistinguishable from it
    for si, cuts in frame_cuts.items():
        if bases[si] is None:
            continue
        ref = observe(exe, sessions[si][1], cuts, timeout=15.0, delay=0.05)
        runs += 1
        if same(ref, bases[si]):
            continue
        again = [(observe(exe, sessions[si][1], cuts, timeout=15.0, delay=0.1), observe(exe, sessions[si][1], [], timeout=15.0))
                 for _ in range(3)]
        runs += 6
        if all(not same(a, b) for a, b in again):
            a, b = again[0]
            fails.append(dict(what="responses differ between one write per message and a single write of the whole session",
                              session_text=sessions[si][0], input=sessions[si][1].decode("utf-8"), cuts=cuts,
                              unsegmented=dict(messages=b["msgs"], exit_code=b["code"], eof=b["eof"]),
                              segmented=dict(messages=a["msgs"], exit_code=a["code"], eof=a["eof"]), problems=[]))
        else:
            unconfirmed += 1

    def one(job):
        si, cuts = job
        if bases[si] is None:
            return None
        return observe(exe, sessions[si][1], cuts)

    with ThreadPoolExecutor(8) as ex:
        obs = list(ex.map(one, jobs))
    for (si, cuts), o in zip(jobs, obs):
        if o is None:
            continue
        runs += 1
        frames_checked += len(o["msgs"])
        if same(o, bases[si]) and not o["frame_problems"]:
            continue
        # no alarms from timing: the deviation must reproduce in three fresh server processes
        again = [observe(exe, sessions[si][1], cuts, timeout=15.0, delay=0.01) for _ in range(3)]
        runs += 3
        if all((not same(a, bases[si])) or a["frame_problems"] for a in again):
            a = again[0]
            fails.append(dict(what="responses differ when the client's bytes are written in several pieces"
                              if not a["frame_problems"] else "malformed output frame",
                              session_text=sessions[si][0], input=sessions[si][1].decode("utf-8"), cuts=cuts,
                              unsegmented=dict(messages=bases[si]["msgs"], exit_code=bases[si]["code"], eof=bases[si]["eof"]),
                              segmented=dict(messages=a["msgs"], exit_code=a["code"], eof=a["eof"]),
                              problems=a["frame_problems"]))
        else:
            unconfirmed += 1
    return dict(fails=fails, runs=runs, unconfirmed=unconfirmed, frames_checked=frames_checked,
                nonascii_frames=nonascii_frames, jobs=len(jobs), sessions=[len(d) for _, d in sessions],
                responses_per_session=[len(b["msgs"]) if b else None for b in bases])


# ---- frames far beyond every buffer size on the way (8 KiB FramedRead buffer, 64 KiB pipe, tokio's 2 MiB stdout chunk) ----
def big_session(n_out, n_in):
    """initialize, initialized, a request with an unknown method whose name has n_out bytes (the MethodNotFound answer repeats
    it), didOpen of a document of n_in bytes (non-ASCII), $/verif/text (the answer repeats the document), shutdown, exit"""
    name = "m" + "\u00e9x" * (n_out // 3)
    unit = "// \u4e16\u754c \U0001F600\n"
    text = unit * (n_in // len(unit.encode("utf-8"))) + "proc main() { }\n"
    return [req(1, "initialize", {"processId": None, "rootUri": None, "capabilities": {}}), note("initialized", {}),
            req(2, name, {}),
            note("textDocument/didOpen", {"textDocument": {"uri": URI, "languageId": "spl", "version": 1, "text": text}}),
            req(3, "$/verif/text", {"uri": URI}), req(4, "shutdown"), note("exit")], name, text


def big_check(exe, n_out, n_in, cuts, delay=0.0):
    msgs, name, text = big_session(n_out, n_in)
    data = b"".join(lspclient.frame(m) for m in msgs)
    o = observe(exe, data, cuts, timeout=60.0, delay=delay)
    problems = list(o["frame_problems"])
    got = {m.get("id"): m for m in o["msgs"] if isinstance(m, dict) and "id" in m}
    if [m.get("id") for m in o["msgs"] if isinstance(m, dict) and "id" in m] != [1, 2, 3, 4]:
        problems.append("responses carry the ids %r, expected [1, 2, 3, 4]" % [m.get("id") for m in o["msgs"] if isinstance(m, dict)])
    else:
        if name not in json.dumps(got[2].get("error", {}), ensure_ascii=False):
            problems.append("the MethodNotFound answer does not carry the method name of %d bytes" % len(name.encode("utf-8")))
        if got[3].get("result") != text:
            problems.append("$/verif/text does not return the document of %d bytes" % len(text.encode("utf-8")))
    if o["code"] != 0:
        problems.append("exit status %r" % o["code"])
    return problems, len(data)


def big_level(ctx, exe):
    rng = ctx.rng
    fails, runs, sizes = [], 0, []
    for n_out, n_in in ([(3 << 20, 1 << 16), (1 << 16, 3 << 20), (5 << 20, 5 << 20)] if ctx.thorough() else [(3 << 20, 1 << 16), (70000, 2500000)]):
        for mode in ("single write", "random cuts", "cuts a few bytes into the next header"):
            lens = [len(lspclient.frame(m)) for m in big_session(n_out, n_in)[0]]
            total = sum(lens)
            delay = 0.0
            if mode == "single write":
                cuts = []
            elif mode == "random cuts":
                cuts = sorted(set(rng.randrange(1, total) for _ in range(6)))
            else:
                # every write ends 1..20 bytes behind a frame boundary, and the client pauses: what has arrived of the next header
                # must survive whatever the server does with its buffer after a big frame
                bounds = [sum(lens[:k]) for k in range(1, len(lens))]
                cuts = sorted(set(b + rng.randint(1, 20) for b in bounds))
                delay = 0.15
            problems, size = big_check(exe, n_out, n_in, cuts, delay)
            runs += 1
            sizes.append(size)
            if problems:
                again = [big_check(exe, n_out, n_in, cuts, delay)[0] for _ in range(2)]
                runs += 2
                if all(again):
                    fails.append(dict(what="a session with frames of several MiB: " + problems[0], big=dict(n_out=n_out, n_in=n_in), cuts=cuts,
                                      problems=problems[:4]))
    return dict(fails=fails, runs=runs, bytes_per_session=sizes)



# ---- bursts whose size is a "round" number: an interactive client writes complete frames and WAITS for the answer ----
ALIGNED_SIZES = [256, 512, 1024, 2048, 4096, 8192, 16384, 32768, 65536, 131072]


def aligned_burst(total, k=0):
    """frames initialized + didOpen + hover + $/verif/text whose bytes add up to exactly `total` (padding inside a comment of the
    document, non-ASCII included); None when `total` is too small"""
    def build(pad):
        text = "// \u00e9\u4e16\U0001F600 " + "x" * pad + "\nproc main() { }\n"
        msgs = [note("initialized", {}),
                note("textDocument/didOpen", {"textDocument": {"uri": URI, "languageId": "spl", "version": 1, "text": text}}),
                req(2, "textDocument/hover", {"textDocument": {"uri": URI}, "position": {"line": 1, "character": 6}}),
                req(3, "$/verif/text", {"uri": URI})]
        return b"".join(lspclient.frame(m) for m in msgs), text
    base, _ = build(0)
    if len(base) > total:
        return None
    pad = total - len(base)
    for _ in range(6):
        data, text = build(pad)
        if len(data) == total:
            return data, text
        pad -= len(data) - total
        if pad < 0:
            return None
    return None


def aligned_check(exe, total, timeout=12.0):
    """initialize (answered), then ONE write of exactly `total` bytes of complete frames, nothing more until both requests are
    answered; then shutdown / exit.  Returns a list of problems."""
    ab = aligned_burst(total)
    if ab is None:
        return None
    data, text = ab
    s = lspclient.Server(exe)
    problems = []
    try:
        r = s.request("initialize", {"processId": None, "rootUri": None, "capabilities": {}}, timeout=90.0)
        if not isinstance(r, dict) or "result" not in r:
            return ["initialize is not answered: %r" % (r,)]
        time.sleep(0.05)        # the server has consumed everything so far and waits in read
        s.send_raw(data)
        for rid in (2, 3):
            try:
                a = s.wait_response(rid, timeout=timeout)
            except queue.Empty:
                a = "timeout"
            if not isinstance(a, dict):
                problems.append("request %d of a burst of exactly %d bytes (complete frames, one write) is not answered within %.0f s "
                                "although nothing else is outstanding: %r" % (rid, total, timeout, a))
                break
            if rid == 3 and a.get("result") != text:
                problems.append("$/verif/text does not return the document of the burst")
        if not problems:
            try:
                _, code = s.shutdown_exit(timeout=10.0)
            except queue.Empty:
                code = "no answer to shutdown"
            if code != 0:
                problems.append("exit status %r after shutdown, exit" % (code,))
        problems += list(s.frame_errors)
    finally:
        s.kill()
    return problems


def aligned_level(ctx, exe):
    from concurrent.futures import ThreadPoolExecutor
    sizes = [n for n in ALIGNED_SIZES if aligned_burst(n) is not None]
    sizes += [n + d for n in (4096, 8192, 65536) for d in (-1, 1)] + [3 * 8192, 5 * 4096]
    if ctx.thorough():
        sizes += [k * 4096 for k in range(6, 40)] + [ctx.rng.randrange(600, 200000) for _ in range(30)]
    with ThreadPoolExecutor(4) as ex:
        res = list(ex.map(lambda n: aligned_check(exe, n), sizes))
    fails = []
    for n, p in zip(sizes, res):
        if p:
            again = [aligned_check(exe, n, timeout=30.0) for _ in range(2)]
            if all(again):
                fails.append(dict(what="an interactive session: " + p[0], aligned=n, problems=p[:3]))
    return dict(fails=fails, sizes=sizes)

# ----------------------------------------------------------------------------------------------

def run(ctx):
    proved = proof_stage(ctx)
    bindir, log = common.build_harness()
    if bindir is None:
        ctx.violation(dict(kind="build-failure", what="harness/implementation does not build", log=log[-3000:]), no_input=True)
        return
    exe, log = common.build_server()
    if exe is None:
        ctx.violation(dict(kind="build-failure", what="lsp4spl does not build", log=log[-3000:]), no_input=True)
        return
    ok, vlog = ensure_vo()
    cl = None
    corr_error = None
    if ok:
        try:
            cl = codec_level(ctx, bindir)
        except RuntimeError as e:
            corr_error = str(e)
    else:
        corr_error = "coq build failed: " + vlog[-2000:]
    bl = binary_level(ctx, exe)

    big = big_level(ctx, exe)
    ctx.cov["big_frames"] = dict(runs=big["runs"], bytes_per_session=big["bytes_per_session"], failures=len(big["fails"]))
    al = aligned_level(ctx, exe)
    ctx.cov["aligned_bursts"] = dict(sizes=al["sizes"], failures=len(al["fails"]),
                                     rule="after initialize ONE write of exactly n bytes of complete frames (initialized, didOpen, hover, "
                                          "$/verif/text), then the client waits: both requests must be answered without further input")
    oracle_fails = (cl["fails"] if cl else []) + bl["fails"] + big["fails"] + al["fails"]
    for f in sorted(oracle_fails, key=lambda f: len(json.dumps(f)))[:3]:
        f = dict(f)
        f.update(kind="oracle", property="C19", encoding=ENCODING)
        ctx.violation(f)
    if not oracle_fails:
        if cl is None:
            ctx.violation(dict(kind="correspondence", property="C19", what="the correspondence check could not be run",
                               detail=corr_error), no_input=True)
        elif cl["mism"]:
            i = min(cl["mism"], key=lambda i: len(cl["lines"][i]))
            c = cl["cases"][i]
            ctx.violation(dict(kind="correspondence", property="C19",
                               what="model Codec (run_codec) and the real codec (lsp4spl::io::LSCodec / FramedRead) differ",
                               origin=c["origin"], command=cl["lines"][i] if len(cl["lines"][i]) < 4000 else cl["lines"][i][:4000] + " ...",
                               impl=cl["impl"][i][:4000], model=cl["model_out"].get(i), mismatches=len(cl["mism"]),
                               encoding=ENCODING), no_input=True)
        elif not proved:
            ctx.violation(dict(kind="proof", property="C19", detail=getattr(ctx, "proof_failure", None)), no_input=True)

    hist = {}
    nontrivial = set()
    if cl:
        for c, o in zip(cl["cases"], cl["impl"]):
            k = c["origin"].split("/")[0]
            hist[k] = hist.get(k, 0) + 1
            if c["kind"] == 2 and int(o.split()[0]) >= 2 and len(c["params"]) >= 1:
                nontrivial.add((c["sid"], tuple(c["params"])))
    hist["server-runs"] = bl["runs"]
    samples = []
    if cl:
        for i in ctx.rng.sample(range(len(cl["cases"])), 5):
            c = cl["cases"][i]
            s = cl["streams"][c["sid"]]
            samples.append(dict(origin=c["origin"], stream=s[:160].decode("utf-8", "replace"), stream_bytes=len(s),
                                params=c["params"], impl=cl["impl"][i][:120]))
    ctx.cov.update({
        "evaluations": (len(cl["cases"]) if cl else 0) + bl["runs"],
        "distinct_nontrivial": len(nontrivial) + bl["jobs"],
        "rule": "codec level: decode on every prefix of byte streams (all accepted and rejected head shapes: extra Content-Type, "
                "LF-only line ends, '+', leading zeros, padding, duplicate/three headers, lower-case name, overflowing lengths, "
                "one-byte mutations, garbage; 1- to 5-digit lengths; non-ASCII bodies); FramedRead on every two-way split, random "
                "multi-way splits and one-byte reads of message streams ending cleanly / truncated / with a bad head / garbage / "
                "a panicking length; encode on serialised messages.  binary level: 3 LSP sessions with non-ASCII document text "
                "(diagnostics, hover and text responses contain multi-byte characters) written in one piece, under %s two-way "
                "split, inside multi-byte characters and under random multi-way splits; responses compared as JSON lists, every "
                "output frame re-parsed strictly by its Content-Length.  non-trivial = distinct (stream, segmentation) with >= 2 "
                "decoded items, plus every segmented server run" % ("every" if ctx.thorough() else "every 7th"),
        "exhaustive": False,
        "input_histogram": hist,
        "traces_validated_against_impl": len(cl["cases"]) if cl else 0,
        "kernel_judge_cases": cl["kernel_cases"] if cl else 0,
        "kernel_judge_shards": cl["kernel_shards"] if cl else 0,
        "correspondence_mismatches": len(cl["mism"]) if cl else None,
        "judge": "extracted+kernel sample" if EXTRACTED_OFFSET is not None else "kernel (coqc vm_compute, inputs enumerated inside Coq)",
        "split_streams": cl["split_streams"] if cl else 0,
        "encode_messages": cl["encode_messages"] if cl else 0,
        "server_runs": bl["runs"],
        "server_segmentations": bl["jobs"],
        "server_session_bytes": bl["sessions"],
        "server_responses_per_session": bl["responses_per_session"],
        "server_output_frames_checked": bl["frames_checked"],
        "server_output_frames_with_non_ascii_per_session_run": bl["nonascii_frames"],
        "unconfirmed_deviations": bl["unconfirmed"],
        "samples": samples,
        "explanation": "Props/C19.v: for ALL byte streams and ALL segmentations the FramedRead loop over the model decoder yields the "
                       "items of the unsegmented stream (C19_chunking), decode verdicts are final (C19_mono), frames are written with "
                       "the byte length and read back exactly (C19_encode, C19_length_roundtrip, C19_bytes, C19_stream); the model is "
                       "tied to io.rs/httparse/tokio-util by the differential runs; the server binary is sampled under real segmented writes",
    })
    ctx.assumptions = [
        "JSON (serde_json / Message deserialisation) is abstract: a function of the body bytes alone",
        "httparse 1.10.0 parse_headers, usize::from_str and tokio-util 0.7.13 FramedRead as transcribed in Model/Codec.v "
        "(validated by the correspondence runs); usize is 64 bits",
        "a read of the OS pipe delivers some segmentation of the written bytes (each read non-empty until end of input); "
        "how handlers react to the decoded message sequence is covered by other properties, here it is sampled on the binary",
    ]
    if ctx.thorough() and proved and wired():
        if not common.coqchk(ctx):
            ctx.violation(dict(kind="proof", property="C19", detail="coqchk failed or reports axioms", out=ctx.cov.get("coqchk")), no_input=True)


def replay(ctx, path):
    r = json.load(open(path))
    if r.get("kind") != "oracle":
        print(json.dumps(r, indent=1, ensure_ascii=False)[:4000])
        return 1
    if "big" in r:
        exe, _ = common.build_server()
        problems, _ = big_check(exe, r["big"]["n_out"], r["big"]["n_in"], r.get("cuts") or [], 0.15 if r.get("cuts") else 0.0)
        print("problems:", problems)
        return 1 if problems else 0
    if "aligned" in r:
        exe, _ = common.build_server()
        problems = aligned_check(exe, r["aligned"], timeout=30.0)
        print("problems:", problems)
        return 1 if problems else 0
    if "input" in r:  # binary level
        exe, _ = common.build_server()
        data = r["input"].encode("utf-8")
        base = observe(exe, data, [], timeout=15.0)
        got = [observe(exe, data, r.get("cuts") or [], timeout=15.0, delay=0.01) for _ in range(3)]
        bad = all((not same(g, base)) or g["frame_problems"] for g in got) or bool(base["frame_problems"])
        print("unsegmented:", json.dumps(base["msgs"], ensure_ascii=False)[:1500], base["code"], base["frame_problems"])
        print("cuts %r:" % r.get("cuts"), json.dumps(got[0]["msgs"], ensure_ascii=False)[:1500], got[0]["code"], got[0]["frame_problems"])
        print("still failing" if bad else "passes now")
        return 1 if bad else 0
    bindir, _ = common.build_harness()
    exe = os.path.join(bindir, "codec_direct")
    if "stream" in r and "cuts" in r:
        s = bytes(r["stream"])
        a, b = common.run_lines(exe, [cmd2([s]), cmd2(pieces(s, r["cuts"]))])
        print("unsplit:  ", a[:600])
        print("segmented:", b[:600])
        return 1 if a != b else 0
    if "stream" in r and "prefix" in r:
        s = bytes(r["stream"])
        a, b = common.run_lines(exe, [cmd1(s[:r["prefix"]]), cmd1(s[:r["longer_prefix"]])])
        print("prefix %d: %s\nprefix %d: %s" % (r["prefix"], a[:300], r["longer_prefix"], b[:300]))
        return 1 if a != "0" and a != b else 0
    if "body" in r:
        o = common.run_lines(exe, [cmd3(r["body"].encode("utf-8"))])[0]
        e = bytes(int(x) for x in o.split()[1:])
        print("frame:", e[:600])
        m = FRAME_RE.match(e)
        return 0 if m and int(m.group(1)) == len(e) - m.end() else 1
    print(json.dumps(r, indent=1, ensure_ascii=False)[:4000])
    return 1
