"""C04 - abstract SPL programs with a comment slot in front of every token (python twin of
coq/theories/Spec/Grammar.v), their numeric encoding for judge command 10 (coq/theories/Judge/RunGrammar.v),
renderings in arbitrary layouts, and the tree the grammar mandates (an independent re-computation of
`expected`, used as the implementation-only oracle).

An abstract program is a pair (prog, slots):
  prog   nested tuples exactly as in splgen.py (decl/param/var/texpr/stmt/var/expr), with the additional
         requirement that expressions have the shape the grammar derives (`levels_ok`): the right operand of
         * / is a factor, of + - a mul-level expression, a comparison only at the top or under ( ) / [ ],
         and that no if-with-else has a then-branch ending in an if-without-else (`else_ok`).
  slots  one list of comment texts per token of splgen.flatten(prog), plus one for the gap before EOF
         (a comment text is what the lexer puts into the Comment token: everything between `//` and the
         line feed - so under a CRLF layout it ends in "\r").
Everything random comes from the rng passed in.
"""
import splgen

CMP = ["=", "#", "<", "<=", ">", ">="]
ADD = ["+", "-"]
MUL = ["*", "/"]
TAG = {"LParen": 0, "RParen": 1, "LBracket": 2, "RBracket": 3, "LCurly": 4, "RCurly": 5, "=": 6, "#": 7, "<": 8, "<=": 9,
       ">": 10, ">=": 11, ":=": 12, ":": 13, ",": 14, ";": 15, "+": 16, "-": 17, "*": 18, "/": 19, "if": 20, "else": 21,
       "while": 22, "array": 23, "of": 24, "proc": 25, "ref": 26, "type": 27, "var": 28, "(": 0, ")": 1, "[": 2, "]": 3,
       "{": 4, "}": 5}
OPTAG = {"+": 0, "-": 1, "*": 2, "/": 3, "=": 4, "#": 5, "<": 6, "<=": 7, ">": 8, ">=": 9}


# --------------------------------------------------------------------------------------------
# shape predicates

def level(e):
    """0 factor, 1 mul, 2 add, 3 comparison"""
    if e[0] != "bin":
        return 0
    return 1 if e[1] in MUL else 2 if e[1] in ADD else 3


def levels_ok(e, top=3):
    k = e[0]
    if k == "lit":
        return True
    if k == "var":
        return var_ok(e[1])
    if k == "neg":
        return levels_ok(e[1], 0)
    if k == "par":
        return levels_ok(e[1], 3)
    lv = level(e)
    if lv > top:
        return False
    if lv == 3:
        return levels_ok(e[2], 2) and levels_ok(e[3], 2)
    return levels_ok(e[2], lv) and levels_ok(e[3], lv - 1)


def var_ok(v):
    return True if v[0] == "name" else var_ok(v[1]) and levels_ok(v[2])


def open_if(s):
    if s[0] == "if":
        return s[3] is None or open_if(s[3])
    if s[0] == "while":
        return open_if(s[2])
    return False


def else_ok(s):
    k = s[0]
    if k == "if":
        if s[3] is not None and (open_if(s[2]) or not else_ok(s[3])):
            return False
        return else_ok(s[2])
    if k == "while":
        return else_ok(s[2])
    if k == "block":
        return all(else_ok(x) for x in s[1])
    return True


# --------------------------------------------------------------------------------------------
# literals

def lit_kind(sp):
    """spelling -> (tag, value)   tag: 0 decimal, 1 hex, 2 char"""
    if sp.startswith("0x"):
        return 1, int(sp[2:], 16)
    if sp.startswith("'"):
        return (2, 10) if sp == "'\\n'" else (2, ord(sp[1]))
    return 0, int(sp)


def lit_value(sp):
    t, v = lit_kind(sp)
    return v % 256 if t == 2 else v


def enc_text(s):
    return [len(s)] + [ord(c) for c in s]


def enc_kind_of_spelling(sp):
    """canonical encoding of the token kind of a token spelling (twin of Dump.enc_kind o lexer)"""
    if sp in TAG:
        return [TAG[sp]]
    c = sp[0]
    if c.isdigit() or c == "'":
        t, v = lit_kind(sp)
        return [30, v] if t == 2 else [31, 0, v] if t == 0 else [32, 0, v]
    return [29] + enc_text(sp)


# --------------------------------------------------------------------------------------------
# walking a program in token order

class Slots:
    def __init__(self, slots):
        self.s, self.i = slots, 0

    def next(self):
        c = self.s[self.i]
        self.i += 1
        return c


def enc_cs(c):
    out = [len(c)]
    for t in c:
        out += enc_text(t)
    return out


class Encoder:
    """numeric encoding of (prog, slots) for judge command 10 - see Judge/RunGrammar.v"""

    def __init__(self, slots):
        self.sl = Slots(slots)
        self.out = []

    def cs(self):
        self.out += enc_cs(self.sl.next())

    def lit(self, sp):
        self.out += list(lit_kind(sp))

    def var(self, v):
        if v[0] == "name":
            self.out.append(0)
            self.cs()
            self.out += enc_text(v[1])
        else:
            self.out.append(1)
            self.var(v[1])
            self.cs()
            self.cmp(v[2])
            self.cs()

    def fac(self, e):
        k = e[0]
        if k == "lit":
            self.out.append(0)
            self.cs()
            self.lit(e[1])
        elif k == "var":
            self.out.append(1)
            self.var(e[1])
        elif k == "neg":
            self.out.append(2)
            self.cs()
            self.fac(e[1])
        elif k == "par":
            self.out.append(3)
            self.cs()
            self.cmp(e[1])
            self.cs()
        else:
            raise ValueError("not a factor: %r" % (e,))

    def chain(self, e, ops, same, lower):
        if e[0] == "bin" and e[1] in ops:
            self.out.append(1)
            same(e[2])
            self.cs()
            self.out.append(ops.index(e[1]))
            lower(e[3])
        else:
            self.out.append(0)
            lower(e)

    def mul(self, e):
        self.chain(e, MUL, self.mul, self.fac)

    def add(self, e):
        self.chain(e, ADD, self.add, self.mul)

    def cmp(self, e):
        if e[0] == "bin" and e[1] in CMP:
            self.out.append(1)
            self.add(e[2])
            self.cs()
            self.out.append(CMP.index(e[1]))
            self.add(e[3])
        else:
            self.out.append(0)
            self.add(e)

    def texpr(self, t):
        if t[0] == "named":
            self.out.append(0)
            self.cs()
            self.out += enc_text(t[1])
        else:
            self.out.append(1)
            self.cs()
            self.cs()
            self.cs()
            self.lit(t[1])
            self.cs()
            self.cs()
            self.texpr(t[2])

    def sep(self, items, one):
        if not items:
            self.out.append(0)
            return
        self.out.append(1)
        one(items[0])
        self.out.append(len(items) - 1)
        for x in items[1:]:
            self.cs()
            one(x)

    def stmt(self, s):
        k = s[0]
        if k == "empty":
            self.out.append(0)
            self.cs()
        elif k == "assign":
            self.out.append(1)
            self.var(s[1])
            self.cs()
            self.cmp(s[2])
            self.cs()
        elif k == "call":
            self.out.append(2)
            self.cs()
            self.out += enc_text(s[1])
            self.cs()
            self.sep(s[2], self.cmp)
            self.cs()
            self.cs()
        elif k == "if":
            self.out.append(3 if s[3] is None else 4)
            self.cs()
            self.cs()
            self.cmp(s[1])
            self.cs()
            self.stmt(s[2])
            if s[3] is not None:
                self.cs()
                self.stmt(s[3])
        elif k == "while":
            self.out.append(5)
            self.cs()
            self.cs()
            self.cmp(s[1])
            self.cs()
            self.stmt(s[2])
        else:
            self.out.append(6)
            self.cs()
            self.out.append(len(s[1]))
            for x in s[1]:
                self.stmt(x)
            self.cs()

    def param(self, p):
        r, n, t = p
        self.out.append(1 if r else 0)
        if r:
            self.cs()
        self.cs()
        self.out += enc_text(n)
        self.cs()
        self.texpr(t)

    def decl(self, d):
        if d[0] == "type":
            self.out.append(0)
            self.cs()
            self.cs()
            self.out += enc_text(d[1])
            self.cs()
            self.texpr(d[2])
            self.cs()
        else:
            self.out.append(1)
            self.cs()
            self.cs()
            self.out += enc_text(d[1])
            self.cs()
            self.sep(d[2], self.param)
            self.cs()
            self.cs()
            self.out.append(len(d[3]))
            for n, t in d[3]:
                self.cs()
                self.cs()
                self.out += enc_text(n)
                self.cs()
                self.texpr(t)
                self.cs()
            self.out.append(len(d[4]))
            for s in d[4]:
                self.stmt(s)
            self.cs()

    def prog(self, prog):
        self.out.append(len(prog))
        for d in prog:
            self.decl(d)
        self.cs()
        assert self.sl.i == len(self.sl.s), "slot count mismatch"
        return self.out


def encode(prog, slots):
    return Encoder(slots).prog(prog)


def kinds(prog, slots):
    """canonical encoding of `flatten p ++ [Eof]` as `enc_list enc_kind`"""
    toks = splgen.flatten(prog)
    assert len(slots) == len(toks) + 1
    out, n = [], 0
    for c, t in zip(slots, toks + [None]):
        for x in c:
            out += [33] + enc_text(x)
            n += 1
        out += [35] if t is None else enc_kind_of_spelling(t)
        n += 1
    return [n] + out


# --------------------------------------------------------------------------------------------
# the mandated tree, recomputed from the derivation (canonical encoding of DumpAst.enc_program)

class Expect:
    """Walks the derivation with a token counter. `self.p` = absolute index (in the token vector with
    comments) of the next token; `self.sl` hands out the comment slots in token order.
    A node's range is [first leading comment of its first token, one past its last token), relative to `ref`."""

    def __init__(self, slots):
        self.sl = Slots(slots)
        self.p = 0

    def tok(self):
        """consume one token with its slot; returns the comments"""
        c = self.sl.next()
        self.p += len(c) + 1
        return c

    @staticmethod
    def info(a, b, ref):
        return [a - ref, b - ref, 0]

    def ident(self, name, ref, skip_doc=False):
        a = self.p
        c = self.tok()
        if skip_doc:
            a += len(c)
        return enc_text(name) + self.info(a, self.p, ref)

    def lit(self, sp, ref):
        a = self.p
        self.tok()
        return [1, lit_value(sp)] + self.info(a, self.p, ref)

    def var(self, v, ref):
        a = self.p
        if v[0] == "name":
            return [0] + self.ident(v[1], ref)
        base = self.var(v[1], ref)
        self.tok()  # [
        off = self.p
        idx = self.expr(v[2], off)
        self.tok()  # ]
        return [1] + base + [1, off - ref] + idx + self.info(a, self.p, ref)

    def expr(self, e, ref):
        a = self.p
        k = e[0]
        if k == "lit":
            return [2] + self.lit(e[1], ref)
        if k == "var":
            return [4] + self.var(e[1], ref)
        if k == "neg":
            self.tok()
            x = self.expr(e[1], ref)
            return [3, 1] + x + self.info(a, self.p, ref)
        if k == "par":
            self.tok()
            x = self.expr(e[1], ref)
            self.tok()
            return [1] + x + self.info(a, self.p, ref)
        l = self.expr(e[2], ref)
        self.tok()
        r = self.expr(e[3], ref)
        return [0, OPTAG[e[1]]] + l + r + self.info(a, self.p, ref)

    def texpr(self, t, ref):
        a = self.p
        if t[0] == "named":
            return [0] + self.ident(t[1], ref)
        self.tok()  # array
        self.tok()  # [
        size = self.lit(t[1], ref)
        self.tok()  # ]
        self.tok()  # of
        off = self.p
        base = self.texpr(t[2], off)
        return [1, 1] + size + [1, off - ref] + base + self.info(a, self.p, ref)

    def ref_expr(self, e, ref):
        off = self.p
        return [1, off - ref] + self.expr(e, off)

    def ref_stmt(self, s, ref):
        off = self.p
        return [off - ref] + self.stmt(s, off)

    def stmt(self, s, ref):
        a = self.p
        k = s[0]
        if k == "empty":
            self.tok()
            return [0] + self.info(a, self.p, ref)
        if k == "assign":
            v = self.var(s[1], ref)
            self.tok()
            e = self.ref_expr(s[2], ref)
            self.tok()
            return [1] + v + e + self.info(a, self.p, ref)
        if k == "call":
            name = self.ident(s[1], ref)
            self.tok()  # (
            args = []
            for i, x in enumerate(s[2]):
                if i:
                    self.tok()  # ,
                off = self.p
                args += [off - ref] + self.expr(x, off)
            self.tok()
            self.tok()
            return [2] + name + [len(s[2])] + args + self.info(a, self.p, ref)
        if k == "if":
            self.tok()
            self.tok()
            c = self.ref_expr(s[1], ref)
            self.tok()
            t = [1] + self.ref_stmt(s[2], ref)
            if s[3] is None:
                e = [0]
            else:
                self.tok()
                e = [1] + self.ref_stmt(s[3], ref)
            return [3] + c + t + e + self.info(a, self.p, ref)
        if k == "while":
            self.tok()
            self.tok()
            c = self.ref_expr(s[1], ref)
            self.tok()
            b = [1] + self.ref_stmt(s[2], ref)
            return [4] + c + b + self.info(a, self.p, ref)
        self.tok()
        body = []
        for x in s[1]:
            body += self.ref_stmt(x, ref)
        self.tok()
        return [5, len(s[1])] + body + self.info(a, self.p, ref)

    @staticmethod
    def docs(c):
        out = [len(c)]
        for t in c:
            out += enc_text(t)
        return out

    def param(self, p):
        r, n, t = p
        ref = self.p
        if r:
            doc = self.tok()
            name = self.ident(n, ref)
        else:
            doc = self.sl.s[self.sl.i]
            name = self.ident(n, ref, skip_doc=True)
        self.tok()  # :
        off = self.p
        ty = self.texpr(t, off)
        return [0] + self.docs(doc) + [1 if r else 0, 1] + name + [1, off - ref] + ty + self.info(ref, self.p, ref)

    def vardecl(self, v):
        n, t = v
        ref = self.p
        doc = self.tok()  # var
        name = self.ident(n, ref)
        self.tok()
        off = self.p
        ty = self.texpr(t, off)
        self.tok()
        return [0] + self.docs(doc) + [1] + name + [1, off - ref] + ty + self.info(ref, self.p, ref)

    def decl(self, d):
        ref = self.p
        doc = self.tok()  # type / proc
        name = self.ident(d[1], ref)
        if d[0] == "type":
            self.tok()
            off = self.p
            ty = self.texpr(d[2], off)
            self.tok()
            return [0] + self.docs(doc) + [1] + name + [1, off - ref] + ty + self.info(ref, self.p, ref)
        self.tok()  # (
        ps = []
        for i, p in enumerate(d[2]):
            if i:
                self.tok()
            off = self.p
            ps += [off - ref] + self.param(p)
        self.tok()
        self.tok()
        vs = []
        for v in d[3]:
            off = self.p
            vs += [off - ref] + self.vardecl(v)
        ss = []
        for s in d[4]:
            ss += self.ref_stmt(s, ref)
        self.tok()
        return ([1] + self.docs(doc) + [1] + name + [len(d[2])] + ps + [len(d[3])] + vs + [len(d[4])] + ss
                + self.info(ref, self.p, ref))

    def prog(self, prog):
        out = [len(prog)]
        for d in prog:
            off = self.p
            out += [off] + self.decl(d)
        return out + [0, self.p, 0]


def expect(prog, slots):
    return Expect(slots).prog(prog)


# --------------------------------------------------------------------------------------------
# rendering

def render(prog, slots, rng, style="sparse", newline="\n"):
    """text of (prog, slots). style: 'dense' (no white space unless required), 'sparse' (random white space),
    'lines' (one token per line).  Under newline="\\r\\n" the comment texts seen by the lexer end in "\\r":
    use `crlf_slots(slots)` for the abstract program that describes the text."""
    toks = splgen.flatten(prog)
    out = []
    prev = ""
    for c, t in zip(slots, toks + [""]):
        gap = []
        for x in c:
            assert "\n" not in x
            gap.append(_ws(rng, style, newline))
            gap.append("//" + x + newline)
        gap.append(_ws(rng, style, newline))
        g = "".join(gap)
        nxt = g + t
        if prev and nxt and not (g[:1].isspace()) and splgen.needs_sep(prev, nxt):
            g = " " + g
        out.append(g)
        out.append(t)
        if t:
            prev = t
    return "".join(out)


def _ws(rng, style, newline):
    if style == "dense":
        return ""
    if style == "lines":
        return newline
    r = rng.random()
    if r < 0.5:
        return " "
    if r < 0.7:
        return newline + " " * rng.randrange(0, 9)
    if r < 0.8:
        return ""
    if r < 0.9:
        return rng.choice(["  ", "\t", " \t ", newline + newline, "\r\n", "\r", " ", " "])
    return newline


def crlf_slots(slots):
    return [[x + "\r" for x in c] for c in slots]


COMMENT_TEXTS = splgen.COMMENT_TEXTS + ["/", "/ /", " if (x) else", "\\", " }", " */", "'"]


def rand_slots(rng, n, p=0.1):
    out = []
    for _ in range(n):
        c = []
        if rng.random() < p:
            c.append(rng.choice(COMMENT_TEXTS))
            while rng.random() < 0.3:
                c.append(rng.choice(COMMENT_TEXTS))
        out.append(c)
    return out


def empty_slots(n):
    return [[] for _ in range(n)]


def one_comment_slots(n, g, text=" c"):
    s = empty_slots(n)
    s[g] = [text]
    return s


# --------------------------------------------------------------------------------------------
# generation: syntactically valid programs (not necessarily well-typed)

class Gen:
    def __init__(self, rng, max_depth=6, max_stmts=60):
        self.rng = rng
        self.max_depth = max_depth
        self.budget = max_stmts
        self.hist = {}

    def count(self, k):
        self.hist[k] = self.hist.get(k, 0) + 1

    def ident(self):
        r = self.rng
        n = r.choice(splgen.IDENT_POOL + ["main", "int", "printi", "readi"])
        if r.random() < 0.15:
            n += str(r.randrange(0, 100))
        return n

    def lit(self):
        r = self.rng
        x = r.random()
        if x < 0.55:
            return str(r.randrange(0, 300))
        if x < 0.65:
            return "0x%X" % r.randrange(0, 1 << r.choice([4, 8, 16, 31]))
        if x < 0.72:
            return "0x%x" % r.randrange(0, 4096)
        if x < 0.84:
            return "'%s'" % r.choice("abcXYZ019 +-*/(){};:=<>#_\"\\[]é€ÿĀ")
        if x < 0.88:
            return "'\\n'"
        if x < 0.94:
            return "00%d" % r.randrange(0, 50)
        return str(r.choice([0, 1, 2147483647, 4294967295]))

    def var(self, d):
        v = ("name", self.ident())
        while d < self.max_depth and self.rng.random() < 0.22:
            self.count("array-access")
            v = ("index", v, self.expr(d + 1))
        return v

    def factor(self, d):
        r = self.rng.random()
        if d < self.max_depth:
            if r < 0.12:
                self.count("unary-minus")
                return ("neg", self.factor(d + 1))
            if r < 0.27:
                self.count("parenthesised")
                return ("par", self.expr(d + 1))
        if r < 0.65:
            return ("var", self.var(d))
        return ("lit", self.lit())

    def mul(self, d, p=0.22):
        e = self.factor(d)
        while self.rng.random() < p:
            self.count("mul-op")
            e = ("bin", self.rng.choice(MUL), e, self.factor(d))
        return e

    def add(self, d, p=0.28):
        e = self.mul(d)
        while self.rng.random() < p:
            self.count("add-op")
            e = ("bin", self.rng.choice(ADD), e, self.mul(d))
        return e

    def expr(self, d, pc=0.3):
        e = self.add(d)
        if self.rng.random() < pc:
            self.count("comparison")
            e = ("bin", self.rng.choice(CMP), e, self.add(d))
        return e

    def special_expr(self):
        """shapes asked for explicitly"""
        r = self.rng
        k = r.randrange(5)
        if k == 0:   # deep left-associative chain, mixed operators
            self.count("deep-chain")
            e = self.factor(self.max_depth)
            for _ in range(r.randrange(6, 25)):
                op = r.choice(MUL + ADD + ADD)
                if op in MUL and level(e) > 1:
                    op = r.choice(ADD)
                rhs = self.factor(self.max_depth) if op in MUL else self.mul(self.max_depth, 0.4)
                e = ("bin", op, e, rhs)
            return e
        if k == 1:   # nested unary minus
            self.count("nested-minus")
            e = self.factor(self.max_depth)
            for _ in range(r.randrange(2, 7)):
                e = ("neg", e)
            return ("bin", "-", ("lit", "1"), e) if r.random() < 0.5 else e
        if k == 2:   # parenthesised comparisons inside arithmetic
            self.count("par-comparison-in-arith")
            c = ("par", ("bin", r.choice(CMP), self.add(self.max_depth), self.add(self.max_depth)))
            e = ("bin", r.choice(MUL), self.mul(self.max_depth), c)
            return ("bin", r.choice(ADD), e, ("bin", r.choice(MUL), c, self.factor(self.max_depth)))
        if k == 3:   # nested array accesses
            self.count("nested-access")
            v = ("name", self.ident())
            for _ in range(r.randrange(2, 5)):
                v = ("index", v, ("var", ("index", ("name", self.ident()), self.add(self.max_depth))))
            return ("var", v)
        self.count("nested-parens")
        e = self.expr(self.max_depth)
        for _ in range(r.randrange(2, 6)):
            e = ("par", e)
        return e

    def any_expr(self, d=0):
        return self.special_expr() if self.rng.random() < 0.08 else self.expr(d)

    def texpr(self, d=0):
        if d >= 4 or self.rng.random() < 0.6:
            return ("named", self.ident())
        self.count("array-type" if d == 0 else "nested-array-type")
        return ("array", self.lit() if self.rng.random() < 0.3 else str(self.rng.randrange(1, 30)), self.texpr(d + 1))

    def stmt(self, d):
        self.budget -= 1
        r = self.rng.random()
        if d >= self.max_depth or self.budget <= 0:
            r *= 0.5
        if r < 0.06:
            self.count("empty-stmt")
            return ("empty",)
        if r < 0.3:
            self.count("assign")
            return ("assign", self.var(1), self.any_expr())
        if r < 0.5:
            n = self.rng.choice([0, 0, 1, 1, 2, 3, 5])
            self.count("call-args-%s" % ("0" if n == 0 else "1" if n == 1 else "2+"))
            return ("call", self.ident(), [self.any_expr(1) for _ in range(n)])
        if r < 0.72:
            thn = self.stmt(d + 1)
            if self.rng.random() < 0.5:
                self.count("if")
                return ("if", self.any_expr(1), thn, None)
            els = self.stmt(d + 1)
            if open_if(thn):
                if self.rng.random() < 0.5:
                    self.count("dangling-else-blocked")
                    thn = ("block", [thn])
                else:
                    # the else goes where the grammar puts it: to the innermost open if
                    self.count("dangling-else-inner")
                    return ("if", self.any_expr(1), _close(thn, els), None)
            self.count("if-else")
            return ("if", self.any_expr(1), thn, els)
        if r < 0.84:
            self.count("while")
            return ("while", self.any_expr(1), self.stmt(d + 1))
        n = self.rng.choice([0, 0, 1, 2, 3, 4])
        self.count("empty-block" if n == 0 else "block")
        return ("block", [self.stmt(d + 1) for _ in range(n)])

    def else_if_chain(self, d):
        self.count("else-if-chain")
        s = self.stmt(d + 1) if self.rng.random() < 0.6 else None
        for _ in range(self.rng.randrange(2, 7)):
            thn = self.stmt(self.max_depth)
            if open_if(thn):
                thn = ("block", [thn])
            s = ("if", self.expr(1, 0.9), thn, s)
        return s

    def proc(self, name=None):
        r = self.rng
        params = [(r.random() < 0.4, self.ident(), self.texpr(1)) for _ in range(r.choice([0, 0, 1, 1, 2, 3, 4]))]
        self.count("params-%d" % len(params))
        vars_ = [(self.ident(), self.texpr()) for _ in range(r.choice([0, 0, 1, 2, 3]))]
        stmts = []
        for _ in range(r.choice([0, 0, 1, 2, 3, 5, 8])):
            if self.budget <= 0:
                break
            stmts.append(self.else_if_chain(1) if r.random() < 0.07 else self.stmt(1))
        if not stmts and not vars_:
            self.count("empty-proc-body")
        return ("proc", name or self.ident(), params, vars_, stmts)

    def program(self):
        r = self.rng
        prog = []
        for _ in range(r.choice([0, 1, 1, 2, 3, 4, 6]) if r.random() < 0.97 else 0):
            if r.random() < 0.3:
                self.count("type-decl")
                prog.append(("type", self.ident(), self.texpr()))
            else:
                self.count("proc-decl")
                prog.append(self.proc())
        if not prog:
            self.count("empty-program")
        return prog


def _close(s, els):
    """attach `els` to the innermost open if of s (s must be open)"""
    if s[0] == "if":
        if s[3] is None:
            if open_if(s[2]):
                return ("if", s[1], _close(s[2], els), None)
            return ("if", s[1], s[2], els)
        return ("if", s[1], s[2], _close(s[3], els))
    assert s[0] == "while"
    return ("while", s[1], _close(s[2], els))


def prog_ok(prog):
    for d in prog:
        if d[0] == "proc":
            for s in d[4]:
                if not else_ok(s) or not _stmt_levels_ok(s):
                    return False
    return True


def _stmt_levels_ok(s):
    k = s[0]
    if k == "assign":
        return var_ok(s[1]) and levels_ok(s[2])
    if k == "call":
        return all(levels_ok(a) for a in s[2])
    if k == "if":
        return levels_ok(s[1]) and _stmt_levels_ok(s[2]) and (s[3] is None or _stmt_levels_ok(s[3]))
    if k == "while":
        return levels_ok(s[1]) and _stmt_levels_ok(s[2])
    if k == "block":
        return all(_stmt_levels_ok(x) for x in s[1])
    return True


def gen_program(rng, max_depth=6, max_stmts=60, hist=None):
    g = Gen(rng, max_depth, max_stmts)
    p = g.program()
    if hist is not None:
        for k, v in g.hist.items():
            hist[k] = hist.get(k, 0) + v
    assert prog_ok(p)
    return p


def count_stmts(prog):
    def cs(s):
        k = s[0]
        if k == "if":
            return 1 + cs(s[2]) + (cs(s[3]) if s[3] is not None else 0)
        if k == "while":
            return 1 + cs(s[2])
        if k == "block":
            return 1 + sum(cs(x) for x in s[1])
        return 1
    return sum(cs(s) for d in prog if d[0] == "proc" for s in d[4])
