"""Generators of SPL inputs (stdlib only, every choice from the rng passed in).

Abstract programs are nested tuples:
  decl  ::= ('type', name, texpr) | ('proc', name, params, vars, stmts)
  param ::= (is_ref, name, texpr)        var ::= (name, texpr)
  texpr ::= ('named', id) | ('array', size_spelling, texpr)
  stmt  ::= ('empty',) | ('assign', var, expr) | ('call', name, [expr]) | ('if', cond, stmt, else_or_None)
          | ('while', cond, stmt) | ('block', [stmt])
  var   ::= ('name', id) | ('index', var, expr)
  expr  ::= ('lit', spelling) | ('var', var) | ('neg', expr) | ('par', expr) | ('bin', op, lhs, rhs)

`flatten(prog)` gives the token spellings in source order, `render(tokens, layout_rng)` a text with random
whitespace and comment lines in the gaps.  `well_typed_program` builds programs that are well-typed by
construction (environment-directed), `token_soup` and `damage` give the malformed stream.
"""

KEYWORDS = ["if", "else", "while", "array", "of", "proc", "ref", "type", "var"]
SYMBOLS = ["(", ")", "[", "]", "{", "}", "=", "#", "<", "<=", ">", ">=", ":=", ":", ",", ";", "+", "-", "*", "/"]
BUILTINS = {  # name -> list of is_ref (all parameters are int)
    "printi": [False], "printc": [False], "readi": [True], "readc": [True], "exit": [], "time": [True],
    "clearAll": [False], "setPixel": [False, False, False], "drawLine": [False] * 5, "drawCircle": [False] * 4,
}
IDENT_POOL = ["a", "b", "c", "i", "j", "k", "n", "m", "x", "y", "z", "sum", "tmp", "cnt", "idx", "val", "vec", "mat",
              "foo", "bar", "baz", "q1", "r2", "_t", "if_", "type1", "refs", "variant", "ofs", "proc_", "x_y"]


# --------------------------------------------------------------------------------------------
# flattening and rendering

def fl_texpr(t):
    if t[0] == "named":
        return [t[1]]
    return ["array", "[", t[1], "]", "of"] + fl_texpr(t[2])


def fl_var(v):
    if v[0] == "name":
        return [v[1]]
    return fl_var(v[1]) + ["["] + fl_expr(v[2]) + ["]"]


def fl_expr(e):
    k = e[0]
    if k == "lit":
        return [e[1]]
    if k == "var":
        return fl_var(e[1])
    if k == "neg":
        return ["-"] + fl_expr(e[1])
    if k == "par":
        return ["("] + fl_expr(e[1]) + [")"]
    return fl_expr(e[2]) + [e[1]] + fl_expr(e[3])


def fl_stmt(s):
    k = s[0]
    if k == "empty":
        return [";"]
    if k == "assign":
        return fl_var(s[1]) + [":="] + fl_expr(s[2]) + [";"]
    if k == "call":
        out = [s[1], "("]
        for i, a in enumerate(s[2]):
            if i:
                out.append(",")
            out += fl_expr(a)
        return out + [")", ";"]
    if k == "if":
        out = ["if", "("] + fl_expr(s[1]) + [")"] + fl_stmt(s[2])
        if s[3] is not None:
            out += ["else"] + fl_stmt(s[3])
        return out
    if k == "while":
        return ["while", "("] + fl_expr(s[1]) + [")"] + fl_stmt(s[2])
    out = ["{"]
    for x in s[1]:
        out += fl_stmt(x)
    return out + ["}"]


def fl_decl(d):
    if d[0] == "type":
        return ["type", d[1], "="] + fl_texpr(d[2]) + [";"]
    out = ["proc", d[1], "("]
    for i, (r, n, t) in enumerate(d[2]):
        if i:
            out.append(",")
        if r:
            out.append("ref")
        out += [n, ":"] + fl_texpr(t)
    out += [")", "{"]
    for n, t in d[3]:
        out += ["var", n, ":"] + fl_texpr(t) + [";"]
    for s in d[4]:
        out += fl_stmt(s)
    return out + ["}"]


def flatten(prog):
    out = []
    for d in prog:
        out += fl_decl(d)
    return out


def flatten_decls(prog):
    """token lists per declaration"""
    return [fl_decl(d) for d in prog]


def _wordy(c):
    return c.isalnum() or c == "_" or c == "'"


def needs_sep(a, b):
    """would the spellings a b lex differently when glued together?"""
    if not a or not b:
        return False
    x, y = a[-1], b[0]
    if _wordy(x) and _wordy(y):
        return True
    if x in "<>:" and y == "=":
        return True
    if x == "/" and y == "/":
        return True
    if a.startswith("//"):
        return True
    return False


COMMENT_TEXTS = ["", " x", " note", " TODO: fix", "// nested", " proc main() {}", " ä ö ü €", "\t tab ", " 😀 emoji", " a := b;"]


def render(tokens, rng, comments=0.08, dense=False, newline="\n"):
    """joins token spellings with random layout; returns text. `comments` = probability of a comment line
    in a gap."""
    out = []
    prev = ""
    for t in tokens + [""]:
        gap = ""
        if rng.random() < comments:
            lead = rng.choice(["", " ", newline])
            if not lead and prev.endswith("/"):
                lead = " "      # `/` directly followed by `//` would start the comment one character early
            gap += lead + "//" + rng.choice(COMMENT_TEXTS) + newline
            if rng.random() < 0.2:
                gap += "//" + rng.choice(COMMENT_TEXTS) + newline
        r = rng.random()
        if dense:
            ws = ""
        elif r < 0.55:
            ws = " "
        elif r < 0.75:
            ws = newline + " " * rng.randrange(0, 9)
        elif r < 0.85:
            ws = ""
        elif r < 0.93:
            ws = rng.choice(["  ", "\t", " \t ", newline + newline, "\r\n" if newline == "\n" else newline])
        else:
            ws = newline
        gap += ws
        if t and needs_sep(prev, gap + t) and not gap:
            gap = " "
        if prev.startswith("//") and not gap.startswith(newline) and newline not in gap[:1]:
            pass
        out.append(gap)
        out.append(t)
        prev = t if t else prev
    return "".join(out)


def render_pretty(prog, newline="\n"):
    """a conventional layout (one statement per line), no comments"""
    return render(flatten(prog), _Fixed(), comments=0.0, newline=newline)


class _Fixed:
    def random(self):
        return 0.3

    def choice(self, l):
        return l[0]

    def randrange(self, a, b=None):
        return a


# --------------------------------------------------------------------------------------------
# well-typed programs

class Env:
    def __init__(self):
        self.types = {"int": "int"}        # name -> resolved type: 'int' | ('arr', size, base, creator)
        self.procs = {k: [(r, "int") for r in v] for k, v in BUILTINS.items()}   # name -> [(is_ref, type)]
        self.globals = set(self.types) | set(self.procs)


def _fresh(rng, used, pool=IDENT_POOL):
    for _ in range(50):
        n = rng.choice(pool)
        if rng.random() < 0.3:
            n += str(rng.randrange(0, 100))
        if n not in used and n not in KEYWORDS:
            return n
    n = "v%d" % len(used)
    while n in used:
        n += "_"
    return n


def _lit(rng):
    r = rng.random()
    if r < 0.6:
        return str(rng.randrange(0, 200))
    if r < 0.7:
        return "0x%X" % rng.randrange(0, 70000)
    if r < 0.75:
        return "0x%x" % rng.randrange(0, 256)
    if r < 0.82:
        return "'%s'" % rng.choice("abcXYZ019 +-*/(){};:=<>#_")
    if r < 0.85:
        # characters that take 2, 3 and 4 bytes in UTF-8 and 1 or 2 units in UTF-16 (astral), quotes, backslash, tab:
        # everything behind such a literal on the same line has a byte offset, a character count and a UTF-16 column
        # that all differ
        return "'%s'" % rng.choice(["\u00e4", "\u20ac", "\U0001F600", "\U0001D11E", "'", "\\", '"', "\t"])
    if r < 0.9:
        return "'\\n'"
    if r < 0.95:
        return "00%d" % rng.randrange(0, 50)
    return str(rng.choice([0, 1, 2147483647, 4294967295]))


def _texpr(rng, env, depth=0, creator=None):
    """returns (texpr, resolved type)"""
    names = list(env.types)
    if depth >= 2 or rng.random() < 0.6:
        n = rng.choice(names)
        return ("named", n), env.types[n]
    size = str(rng.randrange(1, 12)) if rng.random() < 0.8 else "0x%X" % rng.randrange(1, 20)
    base, bt = _texpr(rng, env, depth + 1, creator)
    return ("array", size, base), ("arr", size, bt, creator)


class _Scope:
    def __init__(self, env, locals_):
        self.env = env
        self.locals = locals_   # name -> (type, is_ref or None)

    def int_vars(self, rng, depth):
        """all variable expressions of type int reachable (with indexing)"""
        out = []
        for n, (t, _) in self.locals.items():
            v = ("name", n)
            while t != "int" and depth >= 0:
                v = ("index", v, None)
                t = t[2]
            if t == "int":
                out.append(v)
        return out


def _fill_index(rng, sc, v, depth):
    if v[0] == "name":
        return v
    return ("index", _fill_index(rng, sc, v[1], depth), _int_expr(rng, sc, depth + 1))


def _int_var(rng, sc, depth):
    c = sc.int_vars(rng, depth)
    if depth >= 3:
        c = [v for v in c if v[0] == "name"]
    if not c:
        return None
    return _fill_index(rng, sc, rng.choice(c), depth)


def _atom(rng, sc, depth):
    v = _int_var(rng, sc, depth) if rng.random() < 0.55 else None
    if v is not None:
        return ("var", v)
    return ("lit", _lit(rng))


def _factor(rng, sc, depth):
    r = rng.random()
    if depth < 3 and r < 0.12:
        return ("neg", _factor(rng, sc, depth + 1))
    if depth < 3 and r < 0.27:
        return ("par", _int_expr(rng, sc, depth + 1))
    return _atom(rng, sc, depth)


def _mul(rng, sc, depth):
    e = _factor(rng, sc, depth)
    while rng.random() < 0.22:
        e = ("bin", rng.choice("*/"), e, _factor(rng, sc, depth))
    return e


def _int_expr(rng, sc, depth=0):
    e = _mul(rng, sc, depth)
    while rng.random() < 0.3:
        e = ("bin", rng.choice("+-"), e, _mul(rng, sc, depth))
    return e


def _cond(rng, sc):
    return ("bin", rng.choice(["=", "#", "<", "<=", ">", ">="]), _int_expr(rng, sc, 1), _int_expr(rng, sc, 1))


def _call(rng, sc):
    env = sc.env
    for _ in range(8):
        name = rng.choice(list(env.procs))
        if name in sc.locals:
            continue  # shadowed by a local variable
        args = []
        ok = True
        for is_ref, t in env.procs[name]:
            if t == "int":
                if is_ref:
                    v = _int_var(rng, sc, 0)
                    if v is None:
                        ok = False
                        break
                    args.append(("var", v))
                else:
                    args.append(_int_expr(rng, sc, 1))
            else:
                cands = [n for n, (lt, _) in sc.locals.items() if lt == t]
                if not cands:
                    ok = False
                    break
                args.append(("var", ("name", rng.choice(cands))))
        if ok:
            return ("call", name, args)
    return None


def _stmt(rng, sc, depth=0):
    r = rng.random()
    if r < 0.05:
        return ("empty",)
    if r < 0.45 or depth >= 3:
        v = _int_var(rng, sc, 0)
        if v is not None and rng.random() < 0.75:
            return ("assign", v, _int_expr(rng, sc))
        c = _call(rng, sc)
        return c if c is not None else ("empty",)
    if r < 0.6:
        c = _call(rng, sc)
        return c if c is not None else ("empty",)
    if r < 0.78:
        thn = _stmt(rng, sc, depth + 1)
        els = _stmt(rng, sc, depth + 1) if rng.random() < 0.5 else None
        if els is not None and _open_if(thn):
            thn = ("block", [thn])
        return ("if", _cond(rng, sc), thn, els)
    if r < 0.88:
        return ("while", _cond(rng, sc), _stmt(rng, sc, depth + 1))
    return ("block", [_stmt(rng, sc, depth + 1) for _ in range(rng.randrange(0, 4))])


def _open_if(s):
    """would an `else` after s attach to an if inside s? (dangling else)"""
    if s[0] == "if":
        return s[3] is None or _open_if(s[3])
    if s[0] == "while":
        return _open_if(s[2])
    return False


def well_typed_program(rng, ndecls=None, with_main=True, shadow=True):
    """returns (prog, env)"""
    env = Env()
    prog = []
    n = ndecls if ndecls is not None else rng.randrange(1, 7)
    main_at = rng.randrange(0, n) if with_main else -1
    for i in range(n):
        if i != main_at and rng.random() < 0.35:
            name = _fresh(rng, env.globals)
            te, rt = _texpr(rng, env, creator=name)
            prog.append(("type", name, te))
            env.types[name] = rt
            env.globals.add(name)
            continue
        name = "main" if i == main_at else _fresh(rng, env.globals)
        params, locals_ = [], {}
        if name != "main":
            for _ in range(rng.choice([0, 1, 1, 2, 3, 4])):
                pn = _fresh(rng, set(locals_) | set(env.types))
                te, rt = _texpr(rng, env, creator=pn)
                is_ref = rt != "int" or rng.random() < 0.3
                if te[0] == "array":
                    # anonymous array types cannot be matched by any argument; use a named type instead
                    cands = [k for k in env.types if env.types[k] != "int"]
                    if not cands:
                        te, rt = ("named", "int"), "int"
                        is_ref = rng.random() < 0.3
                    else:
                        k = rng.choice(cands)
                        te, rt = ("named", k), env.types[k]
                params.append((is_ref, pn, te))
                locals_[pn] = (rt, is_ref)
        vars_ = []
        for _ in range(rng.choice([0, 1, 2, 2, 3, 5])):
            vn = _fresh(rng, set(locals_) | set(env.types))
            te, rt = _texpr(rng, env, creator=vn)
            vars_.append((vn, te))
            locals_[vn] = (rt, None)
        # the procedure is visible inside its own body (recursion)
        env.procs[name] = [(r, locals_[pn][0]) for r, pn, _ in params]
        env.globals.add(name)
        sc = _Scope(env, locals_)
        stmts = [_stmt(rng, sc) for _ in range(rng.choice([0, 1, 2, 3, 4, 6, 9]))]
        prog.append(("proc", name, params, vars_, stmts))
    if shadow and rng.random() < 0.15:
        # legal shadowing (tools/navlib.py): a local named like its procedure / a type / `int` / another or a predefined procedure,
        # a parameter named like the type of a later parameter - still a valid program, the global environment is unchanged.
        # Callers that ADD declarations afterwards (fault injectors, cross-reference programs) pass shadow=False or filter with
        # semtest.shadows_type: a variable declared behind a local named like its type would not be well-typed
        import navlib
        prog = navlib.legal_shadowing(prog, rng)
    return prog, env


# --------------------------------------------------------------------------------------------
# malformed streams

SOUP = KEYWORDS + SYMBOLS + ["x", "y", "main", "int", "f", "1", "0x1F", "0x", "'a'", "'", "// c\n", "0", "9999999999",
                             "é", "€", "😀", "_", " ", "@", "\\", "'\\n'", "''", "'ab'"]
SOUP_W = KEYWORDS + SYMBOLS * 2 + ["x", "y", "z", "main", "int", "f", "g", "1", "2", "0x1F", "'a'", "// c\n"]


def token_soup(rng, n=None, weighted=True):
    n = n if n is not None else rng.randrange(0, 40)
    pool = SOUP_W if weighted and rng.random() < 0.8 else SOUP
    toks = [rng.choice(pool) for _ in range(n)]
    out = []
    prev = ""
    for t in toks:
        sep = rng.choice(["", " ", " ", "\n", "\t", "\r\n"])
        if not sep and needs_sep(prev, t) and rng.random() < 0.8:
            sep = " "
        out.append(sep + t)
        prev = t
    return "".join(out)


def damage(tokens, rng, k=1):
    """k token-level damages (delete / replace / insert / duplicate / swap) on a token list"""
    toks = list(tokens)
    for _ in range(k):
        if not toks:
            toks.append(rng.choice(SOUP_W))
            continue
        i = rng.randrange(len(toks))
        r = rng.random()
        if r < 0.3:
            del toks[i]
        elif r < 0.6:
            toks[i] = rng.choice(SOUP_W)
        elif r < 0.85:
            toks.insert(i, rng.choice(SOUP_W))
        elif r < 0.93:
            toks.insert(i, toks[i])
        else:
            j = rng.randrange(len(toks))
            toks[i], toks[j] = toks[j], toks[i]
    return toks


def random_unicode(rng, n=None):
    n = n if n is not None else rng.randrange(0, 30)
    alpha = "ab1 \n\t\r'/\\<=:;(){}[]éß€😀 \u000b\u000c _0x#" + "".join(chr(rng.randrange(1, 0x2000)) for _ in range(5))
    return "".join(rng.choice(alpha) for _ in range(n))


ODD_CHARS = ["\ufeff", "\u00a0", "\u200b", "\u2028", "\u000c", "\u0085", "\u3000", "\u00ad"]


def any_document(rng):
    """one document of the mixed stream: valid / damaged / soup / unicode / the same with a byte order mark in front or a
    white-space look-alike somewhere between two characters; returns (kind, text)"""
    if rng.random() < 0.07:
        k, t = any_document(rng)
        if rng.random() < 0.6:
            return "bom+" + k, "\ufeff" + t
        i = rng.randrange(len(t) + 1)
        return "oddchar+" + k, t[:i] + rng.choice(ODD_CHARS) + t[i:]
    if rng.random() < 0.12:
        # syntactically valid, ILL-TYPED: one semantic / declaration fault of tools/splfaults.py (a procedure used as a type, an
        # undefined type or variable, a call of a non-procedure, redeclarations ...): the handlers' rarely taken lookup branches
        import splfaults
        prog, _ = well_typed_program(rng, ndecls=rng.randrange(1, 5))
        try:
            x = splfaults.inject(prog, rng)
        except (IndexError, KeyError, TypeError, ValueError):
            x = None
        if x:
            return "ill-typed", render(flatten(x[0]), rng, newline=rng.choice(["\n", "\n", "\r\n"]))
    r = rng.random()
    if r < 0.35:
        prog, _ = well_typed_program(rng)
        return "valid", render(flatten(prog), rng, newline=rng.choice(["\n", "\n", "\r\n"]))
    if r < 0.7:
        prog, _ = well_typed_program(rng, ndecls=rng.randrange(1, 4))
        toks = damage(flatten(prog), rng, k=rng.choice([1, 1, 1, 2, 3, 6]))
        return "damaged", render(toks, rng)
    if r < 0.92:
        return "soup", token_soup(rng)
    return "unicode", random_unicode(rng)
