"""C03 along edit histories: a program's diagnostics after the edits that introduce or repair ONE violation of one SPL rule.

A (valid program P, single-fault variant F) pair from tools/splfaults.py is rendered with the same conventional layout;
the minimal text change between the two renderings is the edit.  Histories: repair (open F, edit to P: the valid program
must end without diagnostics), introduce (open P, edit to F), and both with unrelated edits in between / in the same
notification, so that the node carrying the diagnostic is REUSED by the incremental parser while the declaration that
decides about it changes elsewhere in the text.  Judged with the machinery of C01 (tools/props/c01.py): after every
notification the real document is compared with a fresh analysis (oracle) and with Model/UpdateDoc.v (correspondence).
"""
import editgen
import semtest
import splfaults
import splgen


def diff(a, b):
    """minimal single change (cs_bytes, ce_bytes, insertion) turning text a into text b"""
    n = min(len(a), len(b))
    i = 0
    while i < n and a[i] == b[i]:
        i += 1
    j = 0
    while j < n - i and a[len(a) - 1 - j] == b[len(b) - 1 - j]:
        j += 1
    offs = editgen.byte_offsets(a)
    return offs[i], offs[len(a) - j], b[i:len(b) - j]


def neutral(rng, text):
    """an edit that changes no token: white space / a comment line at the start, the end, or behind a `;`"""
    offs = editgen.byte_offsets(text)
    spots = [0, len(text)] + [k + 1 for k, c in enumerate(text) if c in ";{}"]
    k = rng.choice(spots)
    ins = rng.choice([" ", "\n", "\n\n", "// note\n" if (k == 0 or text[k - 1] == "\n") else "\n// note\n", "\t"])
    return offs[k], offs[k], ins


def pair(rng):
    for _ in range(20):
        prog = semtest.well_typed(rng, ndecls=rng.randrange(1, 5))
        r = splfaults.inject_full(prog, rng)
        if r is None:
            continue
        f, exps = r
        tp, tf = splgen.render_pretty(prog), splgen.render_pretty(f)
        if tp != tf:
            return tp, tf, exps
    return None


def histories(rng, n):
    """[(shape, kind of the fault, initial text, notifications)]"""
    out = []
    while len(out) < n:
        pr = pair(rng)
        if pr is None:
            continue
        tp, tf, exps = pr
        kind = exps[0][0]
        shape = rng.choice(["repair", "introduce", "neutral+repair", "introduce+neutral+repair", "repair-in-one-note",
                            "neutral+introduce", "repair+neutral", "introduce-then-neutral-in-one-note",
                            "repair-then-neutral-in-one-note", "introduce-between-neutrals-in-one-note"])
        if shape == "repair":
            out.append((shape, kind, tf, [[diff(tf, tp)]]))
        elif shape == "introduce":
            out.append((shape, kind, tp, [[diff(tp, tf)]]))
        elif shape == "neutral+repair":
            c1 = neutral(rng, tf)
            t1 = editgen.apply_change(tf, *c1)
            c2 = neutral(rng, tp)
            t2 = editgen.apply_change(tp, *c2)
            # the same neutral edit must be applicable to both; simplest: apply the neutral edit, then diff to the valid text
            out.append((shape, kind, tf, [[c1], [diff(t1, tp)]]))
        elif shape == "introduce+neutral+repair":
            c1 = diff(tp, tf)
            c2 = neutral(rng, tf)
            t2 = editgen.apply_change(tf, *c2)
            out.append((shape, kind, tp, [[c1], [c2], [diff(t2, tp)]]))
        elif shape == "repair-in-one-note":
            c1 = neutral(rng, tf)
            t1 = editgen.apply_change(tf, *c1)
            out.append((shape, kind, tf, [[c1, diff(t1, tp)]]))
        elif shape == "introduce-then-neutral-in-one-note":
            # several content changes in ONE notification, the last of them changes no token
            out.append((shape, kind, tp, [[diff(tp, tf), neutral(rng, tf)]]))
        elif shape == "repair-then-neutral-in-one-note":
            out.append((shape, kind, tf, [[diff(tf, tp), neutral(rng, tp)]]))
        elif shape == "introduce-between-neutrals-in-one-note":
            # keep it simple and exact: the fault first, then two token-neutral changes, all in one notification
            c2 = neutral(rng, tf)
            t2 = editgen.apply_change(tf, *c2)
            c3 = neutral(rng, t2)
            out.append((shape, kind, tp, [[diff(tp, tf), c2, c3]]))
        elif shape == "neutral+introduce":
            c1 = neutral(rng, tp)
            t1 = editgen.apply_change(tp, *c1)
            out.append((shape, kind, tp, [[c1], [diff(t1, tf)]]))
        else:
            c1 = diff(tf, tp)
            c2 = neutral(rng, tp)
            out.append((shape, kind, tf, [[c1], [c2]]))
    return out
