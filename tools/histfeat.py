"""Feature answers along edit histories (shared by C09-C17).

A feature request must be answered from the document as it is NOW: after any edit history the answers have to be those
the server gives for the same text opened freshly (C01 says the two documents are identical; every feature property
speaks about "the document").  This stage drives ONE server process: document A is opened with an initial text and
edited by didChange notifications (edits inside `//` comments - doc comments included -, white-space edits, the edits
that introduce and repair one semantic fault, appended declarations), document B is opened with the resulting text; the
same requests are sent for both and the JSON answers compared (URIs normalised).

A difference is a VIOLATION of the feature's property with the history as replay - unless the document itself has
diverged from a fresh analysis exactly as the model of the pinned incremental parser predicts (judged with the machinery
of C01: harness `dump_hist` vs the extracted Coq model `UpdateDoc.update_doc`), which is the root-cause finding
C01-incparse and is reported as KNOWN-FINDING <pid>-incparse-stale when known_findings.jsonl lists it.
"""
import json
import os
import queue
import re
import zlib

import c03hist
import common
import editgen
import lspclient
import semtest
import splgen

METHODS = {"C09": ["formatting"], "C10": ["formatting"], "C11": ["formatting"],
           "C12": ["declaration", "definition", "typeDefinition", "implementation"], "C13": ["references", "rename", "prepareRename"],
           "C01": ["publishDiagnostics", "semanticTokens/full", "foldingRange", "hover", "completion", "references", "formatting"],
           "C14": ["hover", "signatureHelp"], "C15": ["semanticTokens/full"], "C16": ["completion"], "C17": ["foldingRange"]}

POSITIONAL = {"hover", "declaration", "definition", "typeDefinition", "implementation", "references", "rename", "prepareRename",
              "completion", "signatureHelp"}


def pos_of_byte(text, b):
    """LSP position (line, UTF-16 column) of a byte offset; lines end with LF, CRLF or a lone CR"""
    line = col = 0
    k = 0
    i = 0
    n = len(text)
    while i < n and k < b:
        c = text[i]
        if c == "\n":
            line, col = line + 1, 0
        elif c == "\r":
            if not (i + 1 < n and text[i + 1] == "\n"):
                line, col = line + 1, 0
        else:
            col += 2 if ord(c) >= 0x10000 else 1
        k += len(c.encode("utf-8"))
        i += 1
    return line, col


def comment_edit(rng, text):
    """an edit strictly inside a `//` comment (no line break inserted); None when the text has no comment"""
    spots = [m for m in re.finditer(r"//[^\r\n]*", text)]
    if not spots:
        return None
    m = rng.choice(spots)
    offs = editgen.byte_offsets(text)
    a = rng.randrange(m.start() + 2, m.end() + 1)
    b = min(m.end(), a + rng.choice([0, 0, 1, 3]))
    return offs[a], offs[b], rng.choice([" edited", "x", "", " ä\U0001F600", " new doc "]) or "y"


def blank_replace(rng, text):
    """replaces part of a run of white space (possibly the line break that ends a `//` comment and what follows it) by other
    white space: joins lines, swallows the code behind a comment, changes indentation"""
    offs = editgen.byte_offsets(text)
    if rng.random() < 0.5:
        # "join lines" behind a comment: from the comment's trailing blanks / line break to somewhere in the white space of the
        # next line(s), replaced by blanks without a line break - the code that follows becomes part of the comment
        ends = [m for m in re.finditer(r"//[^\r\n]*?([ \t]*)(\r?\n)([ \t\r\n]+)", text)]
        if ends:
            m = rng.choice(ends)
            a = rng.randrange(m.start(1), m.start(2) + 1)
            b = rng.randrange(m.end(2) + 1, m.end(3) + 1)
            if 0 < b < len(text) and text[b - 1] == "\r" and text[b] == "\n":
                b += 1
            return offs[a], offs[b], rng.choice([" ", "  ", "\t", " \t "])
    runs = [m for m in re.finditer(r"[ \t\r\n]+", text)]
    if not runs:
        return None
    m = rng.choice(runs)
    a = rng.randrange(m.start(), m.end())
    b = rng.randrange(a + 1, m.end() + 1)
    # LSP positions cannot address the middle of a CR LF pair
    if 0 < a < len(text) and text[a - 1] == "\r" and text[a] == "\n":
        a -= 1
    if 0 < b < len(text) and text[b - 1] == "\r" and text[b] == "\n":
        b += 1
    return offs[a], offs[b], rng.choice([" ", "  ", "\t", " \t ", "\n", "\n\n", " \n"])


def random_edit(rng, text):
    """any small edit (tools/editgen.py: token-aligned and arbitrary ranges, snippets such as `/`, `'`, `0x`, `;`, a statement):
    characters typed directly next to a token are where the incremental LEXER's look-ahead matters"""
    cs, ce, ins = editgen.random_change(rng, text)
    b = text.encode("utf-8")
    # keep CR LF pairs intact (LSP positions cannot address their middle)
    if 0 < cs < len(b) and b[cs - 1:cs] == b"\r" and b[cs:cs + 1] == b"\n":
        cs -= 1
    if 0 < ce < len(b) and b[ce - 1:ce] == b"\r" and b[ce:ce + 1] == b"\n":
        ce += 1
    return cs, max(cs, ce), ins


EXTENSIONS = [(r"/(?![/])", "/"), (r"<(?![=])", "="), (r">(?![=])", "="), (r":(?![=])", "="), (r"(?<![0-9A-Za-z_])0(?![0-9A-Za-z_])", "x1F"),
              (r"[A-Za-z_][A-Za-z_0-9]*", "_x"), (r"[0-9]+", "7"), (r"'", "'")]


def extend_token_edit(rng, text):
    """types the character(s) that turn a token into a longer / different one directly behind it (`/` -> `//`, `<` -> `<=`,
    `:` -> `:=`, `0` -> `0x1F`, an identifier or number continued, a tick): the incremental lexer must notice that the OLD token
    in front of the insertion is affected"""
    order = list(EXTENSIONS)
    rng.shuffle(order)
    for pat, ins in order:
        hits = [m for m in re.finditer(pat, text)]
        if hits:
            m = rng.choice(hits)
            offs = editgen.byte_offsets(text)
            return offs[m.end()], offs[m.end()], ins
    return None


def append_decl(rng, text):
    offs = editgen.byte_offsets(text)
    return offs[len(text)], offs[len(text)], rng.choice(["\n// appended\nproc extra_p() { }\n", "\ntype extra_t = int;\n", "\n// tail\n"])


def same_length_edit(rng, text):
    """replaces text by other text of the SAME byte length that changes the line structure or the UTF-16 width of what is in
    front of everything behind it: one blank <-> one line break, `ä` <-> two ASCII letters inside a comment, CR LF <-> two blanks"""
    offs = editgen.byte_offsets(text)
    cands = []
    for m in re.finditer(r"[ \t]", text):
        cands.append((m.start(), m.end(), "\n"))
    for m in re.finditer(r"(?<!\r)\n(?![^\n]*//)", text):
        if not re.search(r"//[^\r\n]*$", text[:m.start()]):
            cands.append((m.start(), m.end(), " "))
    for m in re.finditer(r"\r\n", text):
        if not re.search(r"//[^\r\n]*$", text[:m.start()]):
            cands.append((m.start(), m.end(), "  "))
    for m in re.finditer(r"//[^\r\n]*", text):
        for k in range(m.start() + 2, m.end()):
            if ord(text[k]) > 127 and len(text[k].encode("utf-8")) == 2:
                cands.append((k, k + 1, "ab"))
            elif k + 1 < m.end() and text[k].isalpha() and text[k + 1].isalpha() and ord(text[k]) < 128 and ord(text[k + 1]) < 128:
                cands.append((k, k + 2, "ä"))
    if not cands:
        return None
    a, b, ins = rng.choice(cands)
    return offs[a], offs[b], ins


def delete_token_edit(rng, text):
    """deletes exactly one token (keywords and brackets preferred): a pure deletion on token level - what stood behind the
    token now continues what stood in front of it (`proc` behind a procedure whose `}` is missing, `else`, `{`, `;`)"""
    offs = editgen.byte_offsets(text)
    code = [(m.start(), m.end()) for m in re.finditer(r"//[^\r\n]*", text)]
    hits = [m for m in re.finditer(r"\b(proc|type|else|if|while|var|ref|of|array)\b|[{}();\[\]]|:=", text)
            if not any(a <= m.start() < b for a, b in code)]
    if rng.random() < 0.3:
        hits = [m for m in re.finditer(r"[A-Za-z_][A-Za-z_0-9]*|[0-9]+", text) if not any(a <= m.start() < b for a, b in code)]
    if not hits:
        return None
    m = rng.choice(hits)
    return offs[m.start()], offs[m.end()], ""


def unclosed_then_delete(rng, text):
    """(initial text, edit): one closing token (`}`, `)`, `]`, `;`) is missing from the start, and the edit deletes exactly the
    token that follows the gap - the construct in front, which that token had ended, now continues"""
    code = [(m.start(), m.end()) for m in re.finditer(r"//[^\r\n]*", text)]
    closers = [m for m in re.finditer(r"[})\];]", text) if not any(a <= m.start() < b for a, b in code)]
    if not closers:
        return None
    m = rng.choice([x for x in closers if x.group() == "}"] or closers) if rng.random() < 0.6 else rng.choice(closers)
    t0 = text[:m.start()] + text[m.end():]
    code0 = [(x.start(), x.end()) for x in re.finditer(r"//[^\r\n]*", t0)]
    nxt = None
    for x in re.finditer(r"[A-Za-z_][A-Za-z_0-9]*|[0-9]+|:=|<=|>=|[^\sA-Za-z_0-9]", t0):
        if x.start() >= m.start() and not any(a <= x.start() < b for a, b in code0):
            nxt = x
            break
    if nxt is None:
        return None
    offs = editgen.byte_offsets(t0)
    return t0, (offs[nxt.start()], offs[nxt.end()], "")


def gen_histories(rng, n, faulty=False):
    """[(shape, initial text, [[(cs, ce, ins)]])]; faulty: the documents carry diagnostics from the start (C01: what is published
    after edits in front of them)"""
    out = []
    base = c03hist.histories(rng, n // 3)
    out += [("fault:" + shape, t, ns) for shape, _, t, ns in base]
    while len(out) < n:
        if faulty and rng.random() < 0.7:
            from props import c01
            _, text = c01.gen_doc(rng)
            text = text[:1500]
        else:
            prog = semtest.well_typed(rng, ndecls=rng.randrange(1, 5))
            text = splgen.render(splgen.flatten(prog), rng, comments=rng.choice([0.15, 0.3, 0.5]), newline=rng.choice(["\n", "\n", "\r\n"]))
            if rng.random() < 0.3:
                # start from a damaged document: one bracket / semicolon missing
                e = delete_token_edit(rng, text)
                if e is not None:
                    text = editgen.apply_change(text, *e)
        cur, notes, shape = text, [], []
        if rng.random() < 0.12:
            ud = unclosed_then_delete(rng, text)
            if ud is not None:
                text, e = ud
                out.append(("unclosed-delete-next", text, [[e]]))
                continue
        for _ in range(rng.choice([1, 1, 2, 3])):
            chs = []
            for _ in range(rng.choice([1, 1, 2])):
                kind = rng.choice(["comment", "comment", "neutral", "append", "blank", "blank", "random", "random", "extend", "extend"]
                                  + (["samelen"] * 6 if faulty else ["samelen"]) + ["deltoken"] * 3)
                e = (comment_edit(rng, cur) if kind == "comment" else c03hist.neutral(rng, cur) if kind == "neutral"
                     else blank_replace(rng, cur) if kind == "blank" else random_edit(rng, cur) if kind == "random"
                     else same_length_edit(rng, cur) if kind == "samelen" else delete_token_edit(rng, cur) if kind == "deltoken"
                     else extend_token_edit(rng, cur) if kind == "extend" else append_decl(rng, cur))
                if e is None:
                    continue
                shape.append(kind)
                chs.append(e)
                cur = editgen.apply_change(cur, *e)
            if chs:
                notes.append(chs)
        if notes:
            out.append(("+".join(shape), text, notes))
    return out


def final_text(text, notes):
    cur = text
    for chs in notes:
        for e in chs:
            cur = editgen.apply_change(cur, *e)
    return cur


def positions(rng, text, k):
    offs = editgen.byte_offsets(text)
    idx = [m.start() + rng.randrange(0, max(1, m.end() - m.start())) for m in re.finditer(r"[A-Za-z_][A-Za-z_0-9]*", text)]
    idx += [m.end() for m in re.finditer(r"[(,:=]", text)]
    idx += [m.start() for m in re.finditer(r"[ \t]\}", text)]
    rng.shuffle(idx)
    return [pos_of_byte(text, offs[i]) for i in idx[:k]]


def params_for(uri, method, pos, options):
    td = {"textDocument": {"uri": uri}}
    if method == "formatting":
        return dict(td, options=options or {"tabSize": 4, "insertSpaces": True})
    if method not in POSITIONAL:
        return td
    p = dict(td, position={"line": pos[0], "character": pos[1]})
    if method == "references":
        p["context"] = {"includeDeclaration": True}
    if method == "rename":
        p["newName"] = "renamed_x"
    return p


def canon(x, uri, method=None):
    if method == "completion" and isinstance(x, list):
        # the items come out of HashMaps: their order is not part of the answer
        x = sorted(x, key=lambda it: json.dumps(it, sort_keys=True, ensure_ascii=False))
    return json.dumps(x, sort_keys=True, ensure_ascii=False).replace(uri, "URI")


def lsp_changes(cur, chs):
    out = []
    for cs, ce, ins in chs:
        (l1, c1), (l2, c2) = pos_of_byte(cur, cs), pos_of_byte(cur, ce)
        out.append({"range": {"start": {"line": l1, "character": c1}, "end": {"line": l2, "character": c2}}, "text": ins})
        cur = editgen.apply_change(cur, cs, ce, ins)
    return out, cur


def run_batch(exe, batch, methods, seed, tag, options=None):
    """batch: [(index, text, notes)] -> [(index, [(method, pos, answer A, answer B)] | None)]"""
    import random
    s = lspclient.Server(exe)
    out = []
    want_diag = "publishDiagnostics" in methods
    methods = [m for m in methods if m != "publishDiagnostics"]

    def last_publish(uri, count, seen):
        """the last of `count` publishDiagnostics for uri (fewer when the server stays silent for 3 s)"""
        got = [m for m in seen if m.get("method") == "textDocument/publishDiagnostics" and m["params"]["uri"] == uri]
        try:
            while len(got) < count:
                m = s.read_msg(timeout=3.0 if got else 15.0)
                if m is None:
                    break
                if m.get("method") == "textDocument/publishDiagnostics" and m["params"]["uri"] == uri:
                    got.append(m)
        except queue.Empty:
            pass
        return got[-1]["params"]["diagnostics"] if got else None

    try:
        s.initialize(diagnostics=want_diag)
        for k, (i, text, notes) in enumerate(batch):
            ua, ub = "file:///%s_%d_a.spl" % (tag, k), "file:///%s_%d_b.spl" % (tag, k)
            s.open(ua, text)
            cur, ver = text, 2
            for chs in notes:
                ch, cur = lsp_changes(cur, chs)
                s.change(ua, ch, version=ver)
                ver += 1
            seen = []
            client_text = cur
            # document B is opened with the text the SERVER holds for A (C08 is about their equality; this stage is about the
            # features), so an edit the two sides read differently cannot masquerade as a feature defect
            try:
                r = s.request("$/verif/text", {"uri": ua}, timeout=20.0, others=seen)
                if isinstance(r, dict) and isinstance(r.get("result"), str):
                    cur = r["result"]
            except Exception:  # noqa
                pass
            diag_a = last_publish(ua, 1 + len(notes), seen) if want_diag else None
            s.open(ub, cur)
            diag_b = last_publish(ub, 1, []) if want_diag else None
            rng = random.Random(zlib.crc32(cur.encode("utf-8")))     # positions depend on the final text only: replays reproduce them
            reqs = []
            for m in methods:
                for pos in (positions(rng, cur, 12) if m in POSITIONAL else [None]):
                    reqs.append((m, pos))
            ids = []
            for m, pos in reqs:
                ids.append((s.request_async("textDocument/" + m, params_for(ua, m, pos, options)),
                            s.request_async("textDocument/" + m, params_for(ub, m, pos, options))))
            rows, dead = [], False
            if want_diag:
                # C01 speaks about "the resulting text": the text the client holds after its edits
                rows.append(("$/verif/text", None, canon(cur, ua), canon(client_text, ub)))
                rows.append(("publishDiagnostics", None, canon(diag_a, ua), canon(diag_b, ub)))
            for (m, pos), (ia, ib) in zip(reqs, ids):
                try:
                    ra = s.wait_response(ia, timeout=20.0)
                    rb = s.wait_response(ib, timeout=20.0)
                except (queue.Empty, Exception):  # noqa
                    dead = True
                    break
                if not isinstance(ra, dict) or not isinstance(rb, dict):
                    dead = True     # the stream ended: the process is gone
                    break
                rows.append((m, pos, canon(ra.get("result", ra.get("error")), ua, m), canon(rb.get("result", rb.get("error")), ub, m)))
            s.close(ua)
            s.close(ub)
            out.append((i, None if dead else rows))
            if dead:
                break
    finally:
        s.kill()
    return out


def classify(bindir, judge, text, notes):
    from props import c01
    line = c01.hist_line(text, notes)
    a = common.run_lines(os.path.join(bindir, "dump_hist"), [line])[0]
    b = common.run_lines(judge, [line])[0] if judge else a
    return c01.judge_history(c01.parse_impl(a), c01.parse_model(b)), line


def stage(ctx, pid, exe, methods, n, options=None):
    """runs the stage, reports violations / known findings through ctx, returns the evidence dict"""
    from concurrent.futures import ThreadPoolExecutor
    bindir, _ = common.build_harness()
    judge, _ = common.build_judge()
    hists = gen_histories(ctx.rng, n, faulty=(pid == "C01"))
    items = [(i, t, ns) for i, (_, t, ns) in enumerate(hists)]
    parts = [items[w::4] for w in range(4)]
    res = {}
    with ThreadPoolExecutor(4) as ex:
        for w, r in enumerate(ex.map(lambda wp: run_batch(exe, wp[1], methods, ctx.seed, "%s_h%d" % (pid.lower(), wp[0]), options), list(enumerate(parts)))):
            for i, rows in r:
                res[i] = rows
    known_id = "C01-incparse" if pid == "C01" else "%s-incparse-stale" % pid
    listed = any(e.get("id") == known_id for e in common.load_known_findings(pid))
    differing, dead, known, viol, compared = [], [], [], [], 0
    for i, rows in sorted(res.items()):
        if rows is None:
            dead.append(i)
            continue
        compared += len(rows)
        bad = [r for r in rows if r[2] != r[3]]
        if bad:
            differing.append((i, bad))
    for i, bad in sorted(differing, key=lambda x: len(hists[x[0]][1])):
        shape, text, notes = hists[i]
        (st, why), line = classify(bindir, judge, text, notes) if bindir else (("ok", None), "")
        if st == "known" and listed:
            known.append((i, bad))
            continue
        viol.append((i, bad, st, why, line))
    for i in dead:
        shape, text, notes = hists[i]
        (st, why), line = classify(bindir, judge, text, notes) if bindir else (("ok", None), "")
        if st == "known" and common.load_known_findings("C02"):
            continue        # the broker died in AnalyzedSource::update as the model predicts: C02-incparse-panic
        again = run_batch(exe, [(i, text, notes)], methods, ctx.seed, "%s_re" % pid.lower(), options)
        if again and again[0][1] is None:
            viol.append((i, [("<no response>", None, None, None)], st, why, line))
    for i, bad, st, why, line in viol[:2]:
        shape, text, notes = hists[i]
        m, pos, a, b = bad[0]
        ctx.violation(dict(kind="history-feature", property=pid, history_shape=shape, text=text, notifications=notes, final_text=final_text(text, notes),
                           method=m, position=list(pos) if pos else None, after_edits=a, fresh=b, differing_requests=len(bad),
                           document_status=st, document_detail=why, command=line, methods=list(methods), options=options,
                           what="textDocument/%s answers differently for the edited document and for the same text opened freshly "
                                "(the document itself: %s)" % (m, "equals the fresh analysis and the model" if st == "ok" else st)))
    if known:
        i, bad = known[0]
        ctx.known("%s after an incremental update whose tree diverges from the scratch parse exactly as the model of the pinned algorithm "
                  "predicts (root cause C01-incparse) textDocument/%s answers differ from those for the freshly opened text: %d of %d "
                  "histories, e.g. %r + %r" % (known_id, bad[0][0], len(known), len(hists), hists[i][1][:100], hists[i][2]))
    import collections
    return dict(histories=len(hists), request_pairs_compared=compared, histories_with_a_differing_answer=len(differing),
                differing_as_predicted_by_the_model=len(known), violations=len(viol), sessions_gone_silent=len(dead),
                shapes=dict(collections.Counter(h[0].split("+")[0].split(":")[0] for h in hists)), methods=list(methods))


def replay(ctx, r):
    exe, _ = common.build_server()
    notes = [[tuple(e) for e in chs] for chs in r["notifications"]]
    rows = run_batch(exe, [(0, r["text"], notes)], r.get("methods") or [r["method"]], ctx.seed, "replay", r.get("options"))
    if not rows or rows[0][1] is None:
        print("the server stopped answering")
        return 1
    bad = [x for x in rows[0][1] if x[2] != x[3]]
    for m, pos, a, b in bad[:5]:
        print("textDocument/%s at %s\n  after edits: %s\n  fresh      : %s" % (m, pos, a[:300], b[:300]))
    print("%d of %d request pairs differ" % (len(bad), len(rows[0][1])))
    return 1 if bad else 0
