#!/usr/bin/env python3
"""Writes MANIFEST.json from the table below (kept in one place so it stays valid)."""
import json
import os

HERE = os.path.dirname(os.path.dirname(os.path.abspath(__file__)))

NOTE = ("Trusted: Coq 8.16.1 kernel + vm_compute; no axioms (Print Assumptions checked on every run); the hand-written "
        "Gallina model is tied to /repo by a differential correspondence check (model evaluated by coqc vm_compute and by "
        "its ExtrOcamlBasic extraction vs the implementation built from the working tree); Rust harness, python generators.")

CHECKS = {
    "C12": dict(
        category="proof",
        text="Machine-checked (Props/C12.v, 12 theorems) over the model of goto.rs. The functional statement is a theorem for EVERY "
             "valid program in every layout (C12_valid, C12_valid_text: abstract program of the grammar, well-typed, any text that "
             "lexes to its tokens, every identifier occurrence of the tree, every cursor position inside its token): declaration "
             "and definition return exactly the range of the name in the declaration the occurrence is bound to under SPL scoping "
             "(Spec/Nav.v computes occurrences and bindings from the TREE alone, independently of the symbol table the handlers "
             "use: locals and parameters of the enclosing procedure before globals, declaration names and type expressions "
             "globally), implementation does so for procedures, type definition returns the type declaration named by a type "
             "identifier or, for a variable / parameter, the declaration that created its array type (alias chains followed), and "
             "predefined entities, int, anonymous array types yield no location. For ALL documents (valid or not): no handler "
             "panics under nav_wf_b, no identifier / no context => no location, answers are token ranges, definition = "
             "declaration, global positions ignore locals, elsewhere a local wins. `Valid program` is read both ways: as `layout of a well-typed abstract program` (C12_valid) and as `document without any diagnostic and without lexical error` (C12_full : C12_full_statement) - the two coincide by the front-end completeness theorem (Proofs/CompleteFront.v front_end_complete: a clean parse tree is the mandated tree of a derivation of its token vector, and no attached semantic error means well-typed); documents as "
             "built from a text (incremental updates: C01). Tie to the code and failing-input search: model = server on every "
             "identifier occurrence x column, non-identifier tokens, gaps, outside positions, malformed documents; the judge "
             "decides every instance of the full statement; independent oracle from the derivation (tools/splscope.py).",
        design_ref="DESIGN.md sections 5 (C12) and 10.2",
        technique="Coq proof (full functional statement for valid programs via the parser round trip and the typing theorems; robustness and answer shape for all documents) over a Gallina model of the handlers + correspondence through the binary + scoping oracle"),
    "C13": dict(
        category="proof",
        text="Machine-checked (Props/C13.v, 20 theorems) over the model of references.rs; both halves of the property are theorems. "
             "(1) For EVERY valid program in every layout - and every document without diagnostics (C13_full, by front-end "
             "completeness) - at every identifier occurrence and every cursor position inside it, find-references returns exactly "
             "the other occurrences bound to the same declaration, rename one edit per occurrence of that binding (declaration "
             "included) and nothing else, none for predefined entities, and prepare-rename the identifier's range exactly when "
             "rename is offered (C13_valid; occurrences and bindings computed from the tree alone, Spec/Nav.v). (2) The round trip "
             "(C13_roundtrip_valid for every layout, C13_roundtrip for documents without diagnostics): applying the rename to a "
             "fresh name yields a text that is again the layout of a well-typed program (alpha-renaming preserves the static "
             "semantics), without diagnostics, whose occurrences are bound together exactly as before position by position, and "
             "renaming the same occurrence back restores the original text - for every binding except the procedure `main`: "
             "renaming `main` necessarily adds SPL's own diagnostic `procedure main is missing`, so the statement without that "
             "exception is refuted (C13_roundtrip_statement_refuted, witness `proc main() {}`); this is the language's rule about "
             "that one name, not a defect of rename (the oracle expects exactly that diagnostic there). For ALL documents: no "
             "handler panics, no identifier => null, predefined names never renamed, prepareRename <=> rename, references are "
             "rename edits, edits are token ranges with the cursor's name. Tie to the code and failing-input search: model = server "
             "on all occurrences x columns; binding and round-trip oracle (apply with an independent edit model, same diagnostics, "
             "same partition, rename back restores the text); answers along edit histories.",
        design_ref="DESIGN.md sections 5 (C13) and 10.2",
        technique="Coq proof (references / rename / prepareRename = the occurrences of one binding; rename round trip via alpha-renaming of the static semantics and lexer locality; for every valid program = document without diagnostics) over a Gallina model of the handlers + correspondence through the binary + binding/round-trip oracle"),
    "C14": dict(
        category="proof",
        text="Machine-checked (Props/C14.v, 22 theorems) over the models of hover.rs and signature_help.rs; both halves of the "
             "property are theorems for EVERY valid program in every layout (abstract program of the grammar, well-typed, any text "
             "that lexes to its tokens). Hover (C14_hover_valid, C14_hover_valid_text): at every identifier occurrence and every "
             "cursor column inside it, the signature text of the entry the occurrence is bound to under SPL scoping (kind, name, "
             "ref marker, resolved type) followed by its doc comments, over exactly the identifier's range. Signature help "
             "(C14_sighelp_valid, _valid_arg, _valid_full, _valid_text): at every call statement of the tree (any nesting depth) "
             "and every cursor index between its parentheses, the callee's declared signature with one entry per parameter, active "
             "parameter = number of commas of that call in front of the cursor, i.e. the index of the argument the cursor is in; "
             "C14_sighelp_valid_none: no answer when no call statement's range contains the cursor. (The model answers on the whole "
             "range of the call statement, also on the callee name and on `)` `;` - more than the property asks, recorded in "
             "DESIGN.) For ALL documents: shape of every hover and signature-help answer, no identifier => no hover, totality. "
             "`Valid program` is read both ways: as `layout of a well-typed abstract program` (C14_hover_valid, C14_sighelp_valid) and as `document without any diagnostic and without lexical error` (C14_hover_full, C14_sighelp_full) - the two coincide by the front-end completeness theorem (Proofs/CompleteFront.v front_end_complete: a clean parse tree is the mandated tree of a derivation of its token vector, and no attached semantic error means well-typed). Tie to the code and failing-input search: model = server at every "
             "occurrence/column and every cursor position inside call argument lists; oracle from the derivation.",
        design_ref="DESIGN.md sections 5 (C14) and 10.2",
        technique="Coq proof (hover and signature help: full functional statements for valid programs via the parser round trip and the typing theorems; answer shapes and totality for all documents) over Gallina models of the handlers + correspondence through the binary + scoping oracle"),
    "C15": dict(
        category="proof",
        text="Machine-checked (Props/C15.v, 18 theorems) over the model of semantic_tokens.rs; both halves of the property are "
             "theorems. (1) For EVERY text, the document AnalyzedSource::new builds satisfies the executable well-formedness "
             "predicate doc_wf_b (C15_new_doc_wf_total: token half for every lexer output, ordering half and `declaration names "
             "end with an identifier token` for every parser output, any syntax errors), hence unconditionally: no slice panic and "
             "no u32 underflow, the decoded stream is the image of an order-preserving subsequence of the document's lexical "
             "tokens with their positions and UTF-16 lengths, strictly increasing and disjoint, keywords / numbers / comments "
             "carry exactly their lexical class and are ALL reported, including comments behind the last declaration "
             "(C15_new_doc_stream_total, C15_lexical_reported_everywhere_total; the same for all documents under doc_wf_b: "
             "C15_no_panic, C15_coincide, C15_increasing, C15_disjoint, C15_lexical_class, C15_lexical_complete). (2) For EVERY "
             "valid program in every layout (C15_valid: abstract program of the grammar, well-typed, any text that lexes to its "
             "tokens): every identifier occurrence is reported with the kind of the entry it is bound to under SPL scoping (type / "
             "function / parameter / variable) and the declaration modifier exactly on its declaring occurrence, and nothing else "
             "is reported at that position. Scope of the proof: documents as built from a text; a document reached through "
             "incremental updates equals that one only where C01 holds (known finding C01-incparse). `Valid program` is read both ways: as `layout of a well-typed abstract program` (C15_valid) and as `document without any diagnostic and without lexical error` (C15_full_clean) - the two coincide by the front-end completeness theorem (Proofs/CompleteFront.v front_end_complete: a clean parse tree is the mandated tree of a derivation of its token vector, and no attached semantic error means well-typed). "
             "Tie to the code and search for failing inputs: model = server on generated programs, layouts and malformed "
             "documents; well-formedness and classification oracles from the derivation. "
             "Nine client-capability variants, each stream decoded against the legend of its own session.",
        design_ref="DESIGN.md sections 5 (C15) and 10.2",
        technique="Coq proof (well-formedness of the delta-encoded stream for every analysed text; binding kinds and declaration modifier for every valid program via the parser round trip and the typing theorems) over a Gallina model + correspondence through the binary + classification oracle"),
    "C16": dict(
        category="other",
        text="Machine-checked (Props/C16.v, 15 theorems) over a literal transcription of completion.rs. For ALL documents and "
             "positions: the variables / procedures / types in an answer are either none or exactly the entries of the enclosing "
             "procedure's own local table / the global table (C16_shape), no name local to another procedure is ever proposed "
             "(C16_no_leak), outside every declaration exactly the declaration starters with the main snippet iff main is not a "
             "procedure (C16_toplevel*), no panic (compl_wf_b, proved for every analysed text: C02_new_doc_compl_wf). For EVERY "
             "valid program in every layout, at every cursor position in the white space of a token gap (at least one character "
             "behind the previous token, no comment in between): at a statement position of a procedure body - between top-level "
             "statements, in front of the closing brace, and inside blocks / branches / loop bodies at any depth - the variables "
             "are exactly the parameters and locals of that procedure and the procedures exactly all declared and predefined ones "
             "(C16_statement_position_valid, C16_nested_statement_position_valid); at a type position (behind `:` or `of` in a "
             "procedure, behind `=` or `of` in a type declaration) the types are exactly the declared types plus int "
             "(C16_type_position_valid, C16_type_decl_position); between / before / behind the global declarations exactly the "
             "declaration starters (C16_toplevel_position_valid); each also for every document without diagnostics (C16_*_clean, by "
             "front-end completeness). Two defects found while proving (no declared types behind `=` of "
             "a type declaration, null behind `of` in a procedure) are repaired in /repo f933470. The statement over ALL positions "
             "of the four classes is refuted (C16_full_statement_refuted): five position classes on which the classifier answers "
             "null or incompletely are known findings (cursor directly behind a token, comment line before the cursor, start of a "
             "branch/loop body, parenthesis left of `:=`, start of the text) - hence `other`. The classifier is characterised "
             "EXACTLY: for every valid program and every cursor position of a procedure declaration (in a gap or directly behind a "
             "token) the answer is the rendering of an explicit function of the abstract syntax, proc_spec "
             "(C16_body_positions_classified, by one mutual induction; C16_classifier_equations), and each of the five finding "
             "classes is a theorem stating what is answered there (C16_directly_behind_*, C16_comment_before_cursor*, "
             "C16_text_start, C16_branch_statement_start, C16_paren_left_of_assign, C16_assignment_call_positions) - so the list of "
             "findings is proved complete for the positions inside procedures. Decided per input: model = "
             "server; multiset oracle from the derivation for the position classes incl. the new type positions; answers along edit "
             "histories.",
        design_ref="DESIGN.md sections 5 (C16) and 10.2",
        technique="Coq proof (scope theorems for all documents; exact proposals at statement / type / top-level gap positions of every valid program via the parser round trip and the typing theorems) over a Gallina transcription of the completion handler + correspondence through the binary + position-class oracle"),
    "C17": dict(
        category="proof",
        text="Machine-checked (Props/C17.v, 7 theorems) over the model of fold.rs. For EVERY text (valid program or not) the handler "
             "answers and its ranges are well-formed - start <= end, inside the document, in order, non-overlapping "
             "(C17_wellformed_total; the precondition fold_pre is proved for every lexer and parser output: C17_fold_pre_total) - "
             "with exactly one range per procedure declaration of the tree, in tree order, from the line of the first non-comment "
             "token of the declaration to the line of the end of its last token (C17_count, C17_extents). For EVERY abstract program "
             "of the grammar and every text that lexes to its token kinds (every layout) the ranges are exactly one per procedure "
             "in source order, from the line of the proc keyword (after doc comments) to the line of the closing brace (C17_valid, "
             "via the C04 round trip), and so for every text whose parse tree carries no syntax error (C17_clean, by parser "
             "completeness). Tie to the code: model = server on generated programs x layouts (doc comments, several "
             "procedures per line, CRLF, lone CR, mixed terminators) and on the malformed stream; fold_pre still evaluated per case.",
        design_ref="DESIGN.md sections 5 (C17) and 10.2",
        technique="Coq proof (well-formedness for every analysed text; exact extents for every valid program by composition with the C04 round trip) over a Gallina model of the folding handler + correspondence through the binary"),
    "C09": dict(
        category="proof",
        text="Machine-checked (Props/C09.v, 29 theorems) over the model of formatting.rs (Model/Format.v); every clause of the "
             "property is a theorem for EVERY valid program with comments in ANY gap, every layout and option setting. (1) The "
             "formatted text lexes to the same NON-COMMENT token kinds and literal values, without lexical error (C09_tokens_any, "
             "C09_document_any, C09_total_any: the printer equals the abstract printer pp_prog, its output is the rendering of "
             "`kept p` - unprinted comment slots emptied, hoisted comments moved - which has the same code tokens in order; for "
             "programs without comments or with leading comments the output is literally the program's token spellings separated "
             "by non-merging whitespace: C09_structure(_lead), separator table, literal round trips). (2) It produces the same "
             "diagnostics: well-typed or not, the formatted text is analysed to the same messages in the same order "
             "on the same code tokens (C09_same_diagnostics_any = C09_same_messages_any + C09_same_ranges_any: the analysis commutes "
             "with erasing ranges, offsets and doc comments, and every diagnostic's range is a function of its node's position, "
             "which counted in non-comment tokens does not depend on the comment slots; for comment-free programs even the same "
             "tree, table and token-index ranges: C09_same_diagnostics). (3) The single edit covers exactly "
             "the whole document (C09_whole_edit, C09_whole_document_covers). Tie "
             "to the code and failing-input search: model = real formatter on generated programs x layouts x options; the "
             "implementation oracle re-lexes the formatted text with the real lexer, re-opens it (same diagnostics up to layout) "
             "and checks the edit range; answers along edit histories.",
        design_ref="DESIGN.md section 5, C09",
        technique="Coq proof (the printers emit the program's code tokens for every valid program with comments anywhere; the analysis commutes with the erasure of ranges and comments; separator table; lexical conformance) over a Gallina model of the formatter + correspondence and re-lex/re-analyse oracle through the binary"),
    "C10": dict(
        category="other",
        text="The property does NOT hold for the code as it is: the faithful model refutes it (Props/C10.v C10_refuted, witness "
             "`proc main() {<LF>// c<LF>}`), and the losses are structural (comments skipped by tag parsers in front of closing "
             "tokens, inside headers and expressions, before EOF are never re-attached) - recorded as 22 known findings "
             "C10-gap-<kind>, one per losing gap kind, not repaired; hence `other`. What IS true is proved exactly, for EVERY "
             "valid program with comments in ANY gap, every layout and option setting (Props/C10.v, 10 theorems): the comments of "
             "the formatted document are precisely the comments of `kept p` - the program with the unprinted comment slots emptied "
             "and the hoisted comments moved to the front of their declaration / statement - in order, each once "
             "(C10_comments_exactly_kept); they form an order-preserving SUBSEQUENCE of the source's comments, so formatting never "
             "invents, duplicates or reorders a comment, it only loses (C10_no_comment_invented_or_duplicated); and nothing is lost "
             "IF AND ONLY IF every comment stands in a printed slot (C10_all_kept_iff; comments in leading positions always do: "
             "C10_lead_only_all_printed, C10_lead_comments_kept). The check puts one comment into EVERY token gap of generated "
             "programs in turn (exhaustive per program) plus multi-comment layouts: a comment lost in a gap kind that is not "
             "listed, or any duplicated / reordered comment, is a violation; listed kinds print KNOWN-FINDING while their "
             "witnesses still fail.",
        design_ref="DESIGN.md section 5, C10",
        technique="Coq refutation witness + exact characterisation of the surviving comments for every valid program (subsequence, iff-condition) + exhaustive per-program gap campaign discriminating known gap kinds"),
    "C11": dict(
        category="proof",
        text="Machine-checked (Props/C11.v, 20 theorems) over the models of the formatter and the parser; every clause of the "
             "property is a theorem. For ALL documents: the handler answers null exactly when the formatted text equals the "
             "document (C11_null_iff); the output is canonical - two token vectors with the same kinds (any whitespace) format to the "
             "same text (C11_canonical, kinds-only relational proof over parser and printers); indentation honours the options: "
             "every line of a member of a block / branch / loop body / procedure body starts with one more unit (tabSize spaces or "
             "one tab) than its parent, by induction over nesting (C11_indent_*, C11_block_lines, C11_nested_lines, C11_proc_*). "
             "For EVERY valid program with comments in ANY gap, every layout and option setting: formatting the formatted text "
             "again answers null (C11_idempotent_any, C11_idempotent_document_any: the printer's output is the rendering of `kept "
             "p`, a program with comments in leading positions only, whose own formatting is the same text - composes the "
             "structural theorem of C09, lexical conformance and the parser round trip). Tie to the code and failing-input search: "
             "model = real formatter; format, apply with an independent edit model, format again => null, for all 10 option "
             "settings, two-layout canonicity, exact depth x unit per line, history independence (same text, different options in a "
             "row, one server), answers along edit histories.",
        design_ref="DESIGN.md section 5, C11",
        technique="Coq proof (null iff unchanged, kinds-only canonicity, indentation by induction over nesting, idempotence for every valid program via the structural theorem + parser round trip) + correspondence and format-twice oracle through the binary"),
    "C02": dict(
        category="other",
        text="Machine-checked for ALL Unicode texts (Props/C02.v): AnalyzedSource::new never panics and always terminates "
             "(C02_new_doc_total: every expect/unwrap/assert/index site of lexer::lex, parser::parse, table::build, "
             "table::analyze is unreachable and the parser's recursion is bounded by a stated fuel), AnalyzedSource::errors() "
             "never panics and every published range lies inside the document (C02_errors_total, C02_errors_inside, "
             "C02_analysis_total). The models make every panic site an explicit outcome, and the check requires the model to "
             "predict Done/Panic exactly as the implementation does on the malformed stream and on edit histories. EVERY request "
             "handler is total on the document of EVERY text at EVERY position (C02_handlers_total: go-to x4, references, rename, "
             "prepareRename, hover, signature help, completion, folding, semantic tokens return a value, never a panic site; the "
             "five well-formedness predicates the per-feature robustness theorems assume are proved for every parser output: "
             "C02_new_doc_nav_wf / _cursor_pre / _compl_wf / _fold_pre / _doc_wf). Not proved, fuzzed against the built binary: "
             "the process level (one well-formed response per request, process alive; documents nested up to depth 400; stack "
             "and memory), formatting's handler totality, and documents reached by edits: AnalyzedSource::update can panic after edits (known finding C02-incparse-panic, class: "
             "predicted by the model of the pinned incremental parser). Known finding C02-stack-exhaustion: nesting beyond what the 64 MiB "
             "thread stack allows (about 950 nested if / while statements in the debug build) ends the process; probed in every run.",
        design_ref="DESIGN.md sections 5 (C02) and 10.2",
        technique="Coq proof of totality/panic-freedom of the whole analysis pipeline model (lexer, parser, table, semantic analysis, diagnostics conversion) and of all request handlers on every analysed text + model/implementation correspondence on outcomes + request fuzzing of the binary"),
    "C03": dict(
        category="proof",
        text="Machine-checked (Props/C03.v, 72 theorems): for ARBITRARY trees and tables the analysis algorithm agrees with a "
             "declarative typing of SPL (Spec/Typing.v): no false positive (C03_analyze_sound, C03_build_sound), no false "
             "negative (C03_analyze_complete, C03_analyze_exact), per rule exactly that rule's message at the node the rule names "
             "(19 semantic + 10 declaration C03_rule_* theorems), a single semantic fault at any depth yields exactly one "
             "diagnostic (C03_single_fault_*), published positions are the node ranges shifted by the enclosing Reference "
             "offsets (C03_localisation), and for EVERY text every published range lies inside the document "
             "(C03_every_published_range_inside). From texts on: any text that lexes to the tokens of a well-typed abstract "
             "program gets no diagnostic (C03_no_false_positive, via the C04 round trip; the lexer's output is a hypothesis). "
             "The single-fault statement is proved for the 18 semantic rules (C03_statement_semantic) AND for the 10 declaration "
             "rules (C03_statement_declaration, C03_full_statement_declaration: undefined type / not a type / redeclaration as type, "
             "procedure, parameter, variable / must be a reference parameter / main missing, not a procedure, with parameters - "
             "one constructor per rule in Proofs/DeclFaults.v, the rest of the program valid w.r.t. the table the faulty "
             "declaration leaves; from texts on: C03_single_declaration_fault_text, C03_main_is_missing_text, "
             "C03_main_is_not_a_procedure_text). Beyond the rule classes the property lists, the missing-token SYNTAX faults are "
             "proved too (Proofs/SynFaults*.v, a zipper through the abstract syntax): a valid program from which the `;` of a "
             "statement or declaration, the `)` of a call / condition / parenthesised expression (at any depth), the `]` of an "
             "index or the `}` of a procedure body was deleted gets exactly one diagnostic - `missing trailing ;` / `missing "
             "closing X` - with an empty range at the end of the token in front of the gap, the mandated tree otherwise, and no "
             "semantic follow-up (C03_missing_token, _analysis, _text; per family C03_missing_semicolon / _paren / _bracket / "
             "_brace). Not proved: deleted array-size `]`, parameter-list `)`, openers and `:` `=` `of` (evaluated: conform); "
             "programs that USE an entity of unknown type. The check validates the pipeline on rendered programs: well-typed => none; 27+ "
             "single-fault injectors => exactly the prescribed diagnostic(s) on the culprit's byte range; LSP publishDiagnostics "
             "equal; model = implementation on everything incl. the malformed stream; and the same along edit histories "
             "(introduce / repair one violation with unrelated edits around it, so that the node carrying the diagnostic is reused "
             "by the incremental parser): after every notification errors() must equal a fresh analysis, a difference predicted by "
             "Model/UpdateDoc.v is the known finding C03-incparse-diagnostics (root cause C01-incparse), any other a violation.",
        design_ref="DESIGN.md sections 5 (C03) and 10.2",
        technique="Coq proof relating the analysis algorithm to a declarative SPL typing for all trees + correspondence and fault-injection oracle on the implementation"),
    "C04": dict(
        category="proof",
        text="Theorem C04_roundtrip (Props/C04.v), for ALL abstract programs of the SPL grammar (precedence levels, left "
             "associativity, one non-associative comparison, unary minus, array accesses, else bound to the nearest if by the "
             "predicate prog_ok) with comment lists in every token gap, and ALL token vectors whose kinds are the program's "
             "flattening: the parser model returns exactly the mandated tree `expected p` (every range, every Reference offset) "
             "with no syntax diagnostic (C04_no_syntax_diag, C04_ranges_exact), and the parser depends on token kinds only, "
             "for every token vector (C04_parser_sees_kinds_only), hence layout independence. The model is tied to "
             "spl_frontend::parser::parse by differential runs on generated programs x layouts (extracted judge on all cases, "
             "coqc VM on a sample) and the real lexer's kinds are compared with the flattening on every case; lexical conformance "
             "itself is C06's.",
        design_ref="DESIGN.md section 5, C04",
        technique="Coq proof (structural induction over the abstract syntax with explicit fuel bounds) over a Gallina model of the parser + model/implementation correspondence"),
    "C05": dict(
        category="other",
        text="Machine-checked for ALL token lists ending with their only Eof (Props/C05.v, 37 theorems): error recovery "
             "resynchronises at every proc/type keyword (C05_sync), the declarations tile the token vector (C05_spans), the parse "
             "of a declaration depends only on the tokens up to the next proc/type/Eof (C05_locality), what follows a declaration "
             "boundary is parsed independently of everything in front of it (C05_suffix_independent: identical subtrees, offsets "
             "shifted), and hence containment: if the damaged region starts behind its declaration's keyword and ends at a "
             "declaration boundary of both parses, every declaration in front is unchanged, every declaration behind is the same "
             "subtree shifted by the length difference, and their syntax diagnostics are the same ones shifted (C05_containment, "
             "C05_containment_between_keywords, C05_errors_contained). The SYMBOL TABLE part is proved too (Proofs/TableContain*.v): "
             "the table is a function of the declaration list, first declaration of a name wins (C05_table_is_function, "
             "C05_table_keys); under the hypotheses of C05_containment both builds succeed and every name not declared by the damaged "
             "declaration itself keeps its entry - name, documentation, parameter names/modes, local variable names, range moved by "
             "the length difference - and keeps its data types as well unless it (transitively) mentions a type whose meaning the "
             "damage changed (C05_table_entries_kept, C05_table_contained, C05_table_contained_documents; the taint set is computed, "
             "C05_table_contained_example shows it is needed, C05_table_name_clash shows first-wins is the only other exception). "
             "DIAGNOSTIC POSITIONS are proved as well (Proofs/ErrInside*.v): every diagnostic collected from a declaration lies inside "
             "that declaration's token span, strictly in front of the next declaration except the two `soft` errors that skip nothing "
             "(expected parameter declaration / expression at the very end of a declaration, C05_soft_error_example), the program node "
             "itself carries none, and under the hypotheses of C05_containment the diagnostics of the damaged region lie between the "
             "damaged declaration's start and the end of the region (C05_errors_inside_declaration, C05_tree_errors_inside, "
             "C05_errors_contained_located). "
             "In the property's own terms: for ALL token lists, deleting, inserting or replacing ONE token anywhere inside a declaration "
             "(next declaration keyword or Eof behind it, no comment directly in front of that keyword in either version) leaves the "
             "declarations in front identical, the ones behind identical up to the shift, their diagnostics likewise, puts every "
             "diagnostic of the damaged region inside it and keeps the symbol-table entries (C05_token_deleted, C05_token_inserted, "
             "C05_token_replaced and the _last variants; validity of the original program is not even needed). "
             "The first formulation of the full statement was too strong "
             "and is refuted (C05_full_statement_refuted: a damage can end a declaration early or turn it into several); "
             "C05_contained_in_one_declaration is the repaired statement. Whether a concrete single-token damage ends at a boundary "
             "and the diagnostic positions are decided by the exhaustive-per-program damage campaign on the "
             "implementation (harness dump_decl: subtrees, table entries, every diagnostic inside the damaged declaration - an empty "
             "range k..k means behind token k), with the model compared on the damaged documents. Known finding: C05-trailing-comment "
             "(comments in front of a deleted last token migrate to the next "
             "declaration's doc).",
        design_ref="DESIGN.md sections 5 (C05) and 10.2",
        technique="Coq proof of resynchronisation, tiling, locality, shift-invariance (containment of trees, diagnostics and symbol-table entries) over a Gallina model of parser and table build + exhaustive single-token damage campaign on the implementation"),
    "C01": dict(
        category="other",
        text="Machine-checked (Props/C01.v, 21 theorems), for ALL documents and ALL histories of notifications: the text and "
             "the token stream of the incrementally updated document are those of a fresh analysis and the lexer never fails "
             "(from C07); the tree returned by parser::update carries syntax errors only, whatever old tree it started from "
             "(C01_no_stale_messages: remove_messages reaches every node), so table and build/semantic diagnostics are recomputed "
             "from a clean tree; hence if the updated parse-level tree equals the scratch tree, the WHOLE updated document (tree "
             "with all diagnostics, table) is the freshly analysed one (C01_partial_document); a notification without changes "
             "leaves the document untouched; the incremental parser without an old tree IS the scratch parser "
             "(C01_inc_none_is_scratch). The remaining hypothesis - parser::update agrees with parser::parse - is REFUTED for the "
             "code as it is (C01_tree_refuted, C01_full_statement_refuted): known finding C01-incparse, not repaired (redesign). "
             "POSITIVE part of the tree layer: for every syntactically valid text without a comment directly in front of a comma, "
             "every history of WHITE-SPACE edits (blanks replaced by blanks away from every token's look-ahead - a textual, checkable "
             "class, C01_gap_edit_is_blank) yields exactly the freshly analysed document, through the full AnalyzedSource::update "
             "on documents with any number of semantic diagnostics (C01_holds_for_white_space_edits_document, "
             "C01_holds_for_blank_edits, C01_holds_for_empty_token_change: a simulation of the scratch parser by the incremental "
             "one, one lemma per combinator); each side condition is necessary - three further divergence mechanisms of the real "
             "algorithm are pinned as evaluated witnesses (C01_blank_needs_*: expression errors lost on reuse, `expect` retrying "
             "from an advanced position, comment before a list comma). "
             "The check decides every generated history by (1) correspondence: the transcription of AnalyzedSource::update incl. "
             "the pinned incremental parser must reproduce the real updated document after every notification, and (2) an oracle "
             "update(doc) == new(text) field by field: a divergence predicted by the model is the known finding, any other "
             "divergence (or any deviation from the model) is a violation. "
             "Server level: publishDiagnostics and six feature answers after edit histories (incl. edits of equal byte length in front of diagnostics) against the same text opened freshly.",
        design_ref="DESIGN.md section 5, C01",
        technique="Coq proof of the text/token layers and refutation of the tree layer + model/implementation correspondence discriminating the known finding"),
    "C20": dict(
        category="proof",
        text="Theorems for ALL message histories and ALL schedules (Props/C20.v, 17 theorems) over the transition system of "
             "the three tasks (reader, document broker, responder), the two bounded FIFO channels and the one-shot reply "
             "transcribed from server.rs / document.rs / io.rs / features.rs: every execution refines the sequential "
             "specification per output stream (responses in request order, read-your-writes, last diagnostics describe the "
             "final content, no diagnostics without the capability), URIs are isolated, closed documents are forgotten until "
             "reopened, no deadlock, termination. The model is tied to the built binary by bursts of 200-2000 pipelined "
             "messages over 1-4 URIs (incl. URIs differing only in scheme), repeated under varying write patterns and worker "
             "counts, compared with the model (extracted judge + coqc VM sample) and with implementation-side oracles. tokio's "
             "scheduler, OS pipes and fairness are not modelled: the theorem quantifies over all interleavings at "
             "channel-operation granularity, the real runtime is only sampled.",
        design_ref="DESIGN.md section 5, C20",
        technique="Coq proof (invariant + refinement over all schedules of a transition-system model of the task/channel structure) + correspondence against the binary under load"),
    "C19": dict(
        category="proof",
        text="Theorems for ALL byte streams and ALL segmentations (Props/C19.v) over the model of LSCodec::decode/encode and of "
             "tokio_util's FramedRead loop: decode verdicts are final under arriving bytes (C19_mono), the item sequence and "
             "the error point are a function of the concatenated stream alone (C19_chunking, C19_chunking_any), lengths are byte "
             "counts and encode/decode round-trip for every body below 2^64 bytes (C19_bytes, C19_encode, C19_length_roundtrip, "
             "C19_stream). The model is tied to the real codec (io.rs + httparse + FramedRead, called directly) on every prefix, "
             "every two-way split and random multi-way splits of generated streams (extracted judge on all cases, coqc VM judge "
             "on a sample), and the built binary is run under segmented writes. httparse's header grammar is modelled, not verified. "
             "Interactive sessions: one write of exactly n bytes of complete frames (powers of two, multiples of 4 KiB), then the client waits for the answers.",
        design_ref="DESIGN.md section 5, C19",
        technique="Coq proof (prefix-monotonicity of decode, induction over chunks) over a Gallina model of the codec + correspondence against the real codec and binary"),
    "C08": dict(
        category="proof",
        text="Theorems for all texts, positions and change sequences (Props/C08.v) over the model of document.rs: position->index "
             "conversion equals the LSP rule (UTF-16 columns, CR/LF/CRLF line ends, overshooting column = end of line, overshooting "
             "line = end of text), always yields a character boundary, is monotone (ordered ranges never panic), applying changes "
             "(ranged, batched, full-text) equals the client-side LSP text model along whole histories, and index->position->index "
             "round-trips. For every text and every token of its lexing the reported start (and end) sent back as a position addresses "
             "the same token (C08_token_start_roundtrip, C08_token_lookup, C08_token_cursor; the one token whose end lies between CR and "
             "LF - an unterminated `'`CR - is characterised exactly, C08_token_end_crlf). The model is tied to the server by comparing, after every didChange of generated histories, the server's "
             "text ($/verif/text) with the Coq model (extracted + coqc VM judge) and with an independent python client model. "
             "Reported ranges: every semantic token, cut out of the client's text under the LSP rules, is one lexer token of it; diagnostics start and end on token boundaries (lexemes glued to non-ASCII characters).",
        design_ref="DESIGN.md section 5, C08",
        technique="Coq proof over a Gallina model of document.rs against an LSP text specification + correspondence through the running server"),
    "C18": dict(
        category="proof",
        text="Theorems for all message sequences (Props/C18.v): the phase machine transcribed from server.rs produces exactly the "
             "responses (ids, order, result/error codes) and the exit status that the lifecycle specification (Spec/Session.v, "
             "stated over the message history) prescribes, and always ends in an exited state. The model is tied to the built "
             "binary by running every session up to the bound (and byte prefixes followed by end-of-input) in fresh server "
             "processes and comparing response stream and exit status with the model (extracted judge + coqc VM judge). "
             "Process liveness, exit-status plumbing and time-to-exit are observed, not proved.",
        design_ref="DESIGN.md section 5, C18",
        technique="Coq proof (refinement of a history-based spec by the phase machine) + exhaustive small-scope correspondence against the binary"),
    "C07": dict(
        category="proof",
        text="Theorem C07_update_is_lex, for ALL texts and ALL single changes: the model of lexer::update (every panic site explicit) "
             "returns exactly the fresh token stream of the new text with a truthful change window; C07_locality justifies the "
             "look-ahead table kind by kind. The model is tied to spl_frontend::lexer::update by exhaustive small-scope and random "
             "differential runs (extracted judge + coqc VM judge); an implementation oracle (update == lex, window truthfulness, "
             "chained histories) runs over 11.6M (quick) / 280M (thorough) changes to search for failing inputs.",
        design_ref="DESIGN.md section 5, C07",
        technique="Coq proof (locality, prefix stability, resynchronisation) over a Gallina model of lexer::update + correspondence"),
    "C06": dict(
        category="proof",
        text="Theorems over all Unicode texts (Props/C06.v): the lexer model is total, its output tiles the text "
             "(ordered, non-overlapping, on character boundaries, whitespace-only gaps, exactly one final Eof, lossless), and "
             "conformance with the declarative lexical grammar (Spec/LexSpec.v): every delimited lexeme is recognised with its kind "
             "and value (C06_conformance_one: longest match, keywords only as whole words, decimal / hexadecimal / character "
             "values, comments to the end of the line or of the text) and every separated lexeme sequence woven with whitespace "
             "lexes to exactly those lexemes at their positions (C06_conformance, C06_conformance_place). The model is tied to "
             "spl_frontend::lexer::lex by exhaustive small-scope + random differential runs judged by the Coq VM and the "
             "extracted model; an implementation-side oracle searches for failing inputs.",
        design_ref="DESIGN.md section 5, C06",
        technique="Coq proof over a Gallina model of the lexer + model/implementation correspondence"),
}

NOT_YET = {}


def main():
    props = [json.loads(l) for l in open(os.path.join(HERE, "properties.jsonl"))]
    checks = []
    na = []
    for p in props:
        pid = p["id"]
        if pid in CHECKS:
            c = CHECKS[pid]
            checks.append({
                "property_id": pid,
                "quick_cmd": "./check %s --tier quick" % pid,
                "thorough_cmd": "./check %s --tier thorough" % pid,
                "evidence_file": "evidence/%s.json" % pid,
                "replay_cmd_template": "./check %s --replay {path}" % pid,
                "engine": "coq-model-correspondence",
                "level_claimed": {"category": c["category"], "text": c["text"], "design_ref": c["design_ref"]},
                "level_note": c.get("note", NOTE),
                "technique": c["technique"],
            })
        else:
            na.append({"property_id": pid, "reason": NOT_YET.get(pid, "check not built yet (work in progress; machine-checked proof applies, see DESIGN.md section 5)")})
    m = {
        "version": 1,
        "setup_cmd": "./setup.sh",
        "hooks": {
            "guard": "cargo feature `verif` of the lsp4spl crate",
            "enable": "cargo build -p lsp4spl --features verif (done by ./setup.sh and by every check that talks to the binary)",
            "baseline_off_cmd": "cd /repo && cargo test --workspace --no-fail-fast --offline",
            "source_commits": ["e83c28f"],
            "add_only": True,
        },
        "engines": [{
            "name": "coq-model-correspondence",
            "path": "check",
            "serves_properties": [c["property_id"] for c in checks],
            "kind_free_text": "Coq 8.16 development (coq/theories: Model, Spec, Proofs, Props) + differential correspondence "
                              "against the implementation (Rust harness, extracted OCaml judge, coqc kernel judge) + "
                              "implementation-side property oracles for failing-input search",
        }],
        "checks": checks,
        "not_applicable": na,
        "notes": "See DESIGN.md. Known findings: known_findings.jsonl.",
    }
    with open(os.path.join(HERE, "MANIFEST.json"), "w") as f:
        json.dump(m, f, indent=1)
        f.write("\n")


if __name__ == "__main__":
    main()
