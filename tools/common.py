"""Shared machinery of ./check: builds, audits, judges, evidence, violations."""
import fcntl
import hashlib
import json
import os
import random
import re
import subprocess
import sys
import time
from concurrent.futures import ThreadPoolExecutor

VERIF = os.path.dirname(os.path.dirname(os.path.abspath(__file__)))
REPO = os.environ.get("VERIF_REPO", "/repo")
COQ = os.path.join(VERIF, "coq")
CACHE = os.path.join(VERIF, ".cache")
WORK = os.path.join(VERIF, "work")
# VERIF_REPO=<dir> runs every check against another checkout (used to try seeded changes in a scratch worktree
# without touching /repo): the harness is copied with its /repo paths rewritten, builds go to separate target
# directories, and evidence/replays are written under work/alt/ instead of evidence/ and replays/.
ALT = None if os.path.realpath(REPO) == "/repo" else hashlib.sha256(os.path.realpath(REPO).encode()).hexdigest()[:10]
ALTDIR = os.path.join(CACHE, "alt", ALT) if ALT else None
TARGET = os.path.join(ALTDIR, "target") if ALT else os.path.join(CACHE, "target")
OUTDIR = os.path.join(WORK, "alt", ALT) if ALT else VERIF
JOBS = 16

ENV = dict(os.environ)
ENV.update({"CARGO_NET_OFFLINE": "true", "CARGO_TARGET_DIR": TARGET})

TRUSTED_BASE = [
    "Coq 8.16.1 kernel and its vm_compute machine (no native_compute)",
    "axioms: none (Print Assumptions of every property theorem must be 'Closed under the global context')",
    "hand-written Gallina model of the anchored Rust code, tied to /repo by the correspondence check "
    "(differential run of the model - evaluated by coqc vm_compute and by its OCaml extraction - against the "
    "implementation built from /repo's working tree)",
    "Coq extraction with ExtrOcamlBasic only (its Extract Inductive for bool/option/list/prod/unit/sumbool; "
    "no Extract Constant/Inductive of our own), OCaml 4.13.1 ocamlopt, coq/extracted/driver.ml",
    "Rust harness /verif/harness (canonical encoding of implementation outputs) and the python generators",
]


class Lock:
    def __init__(self, name):
        os.makedirs(CACHE, exist_ok=True)
        self.path = os.path.join(CACHE, name + ".lock")

    def __enter__(self):
        self.f = open(self.path, "w")
        fcntl.flock(self.f, fcntl.LOCK_EX)

    def __exit__(self, *a):
        fcntl.flock(self.f, fcntl.LOCK_UN)
        self.f.close()


def sh(cmd, cwd=None, timeout=3600, env=None, inp=None):
    p = subprocess.run(cmd, cwd=cwd, env=env or ENV, input=inp, stdout=subprocess.PIPE,
                       stderr=subprocess.STDOUT, timeout=timeout, shell=isinstance(cmd, str))
    return p.returncode, p.stdout.decode("utf-8", "replace")


# ----------------------------------------------------------------------------------------------
# Coq side

def coq_make(targets, timeout=1500):
    """Full .vo build of the given targets (paths relative to coq/). Returns (ok, log)."""
    with Lock("coq"):
        if (not os.path.exists(os.path.join(COQ, "Makefile"))
                or os.path.getmtime(os.path.join(COQ, "Makefile")) < os.path.getmtime(os.path.join(COQ, "_CoqProject"))):
            rc, out = sh(["coq_makefile", "-f", "_CoqProject", "-o", "Makefile"], cwd=COQ)
            if rc != 0:
                return False, out
        # every single file is compiled under its own time limit, so that a proof script that runs away cannot
        # hold the build lock for long
        rc, out = sh(["timeout", str(timeout), "make", "-j%d" % JOBS, "COQC=timeout 1200 coqc"] + targets, cwd=COQ,
                     timeout=timeout + 30)
        return rc == 0, out


FORBIDDEN = re.compile(
    r"\b(Admitted|admit|Axiom|Axioms|Parameter|Parameters|Conjecture|Conjectures|Admit Obligations)\b"
    r"|Unset\s+Guard|bypass_check|type-in-type|impredicative-set|Unset\s+Universe\s+Checking|Unset\s+Positivity")


def strip_comments(src):
    out, depth, i = [], 0, 0
    while i < len(src):
        if src.startswith("(*", i):
            depth += 1
            i += 2
        elif src.startswith("*)", i) and depth > 0:
            depth -= 1
            i += 2
        else:
            if depth == 0:
                out.append(src[i])
            i += 1
    return "".join(out)


def coq_audit():
    """Greps the whole development (comments stripped) for forbidden declarations/flags.
    `Variable`/`Hypothesis` are only allowed inside sections."""
    problems = []
    for root, _, files in os.walk(os.path.join(COQ, "theories")):
        for f in files:
            if not f.endswith(".v"):
                continue
            path = os.path.join(root, f)
            src = strip_comments(open(path).read())
            for m in FORBIDDEN.finditer(src):
                problems.append("%s: %s" % (os.path.relpath(path, COQ), m.group(0)))
            depth = 0
            for line in src.split("\n"):
                s = line.strip()
                if re.match(r"Section\s+\w+", s):
                    depth += 1
                elif re.match(r"End\s+\w+", s) and depth > 0:
                    depth -= 1
                elif depth == 0 and re.match(r"(Variable|Variables|Hypothesis|Hypotheses|Context)\b", s):
                    problems.append("%s: %s outside a section" % (os.path.relpath(path, COQ), s.split()[0]))
    for f in ("_CoqProject",):
        src = open(os.path.join(COQ, f)).read()
        for m in FORBIDDEN.finditer(src):
            problems.append("%s: %s" % (f, m.group(0)))
    return problems


def props_report(pid):
    """Captures the Print Assumptions output of Props/<pid>.v (the file only contains `exact` proofs and examples).
    Returns dict(theorems=[...], closed=[...], open={name: text}, sha256).  Compiling a property file can take minutes
    (C03.v: three), so the result is cached under .cache/props_report keyed by the source text and by size + mtime of the
    compiled Props/<pid>.vo - make rebuilds that file whenever anything it depends on changes, and then the key changes."""
    path = os.path.join(COQ, "theories", "Props", pid + ".v")
    src = open(path).read()
    sha = hashlib.sha256(src.encode()).hexdigest()
    vo = os.path.join(COQ, "theories", "Props", pid + ".vo")
    key = None
    if os.path.exists(vo):
        st = os.stat(vo)
        key = hashlib.sha256(("%s %d %d" % (sha, st.st_size, st.st_mtime_ns)).encode()).hexdigest()[:24]
        cpath = os.path.join(CACHE, "props_report", "%s-%s.json" % (pid, key))
        if os.path.exists(cpath):
            try:
                rep = json.load(open(cpath))
                if rep.get("sha256") == sha and rep.get("ok"):
                    return rep
            except Exception:  # noqa
                pass
    names = re.findall(r"^\s*Theorem\s+(\w+)", strip_comments(src), flags=re.M)
    printed = re.findall(r"^\s*Print Assumptions\s+(\w+)\s*\.", strip_comments(src), flags=re.M)
    os.makedirs(WORK, exist_ok=True)
    tmpd = os.path.join(WORK, "props_%s_%d" % (pid, os.getpid()))
    os.makedirs(tmpd, exist_ok=True)
    out_vo = os.path.join(tmpd, pid + ".vo")
    rc, out = sh(["timeout", "1200", "coqc", "-q", "-noglob", "-Q", "theories", "Spl", "-o", out_vo, path], cwd=COQ)
    subprocess.run(["rm", "-rf", tmpd])
    if rc != 0:
        return dict(ok=False, log=out, theorems=names, closed=[], open={}, sha256=sha)
    closed_count = len(re.findall(r"Closed under the global context", out))
    opened = {}
    # anything else printed by Print Assumptions starts with "Axioms:" / "Section Variables:"
    for m in re.finditer(r"(Axioms:|Section Variables:)(.*?)(?=\n\S|\Z)", out, flags=re.S):
        opened["assumption_%d" % len(opened)] = (m.group(1) + m.group(2)).strip()
    ok = (set(names) <= set(printed)) and closed_count == len(printed) and not opened and len(names) > 0
    rep = dict(ok=ok, log=out[-4000:], theorems=names, closed=printed if not opened else [], open=opened, sha256=sha)
    if ok and key:
        os.makedirs(os.path.join(CACHE, "props_report"), exist_ok=True)
        with open(os.path.join(CACHE, "props_report", "%s-%s.json" % (pid, key)), "w") as fh:
            json.dump(rep, fh)
    return rep


def build_judge():
    """Extracted OCaml judge. Returns (path, log) or (None, log)."""
    ok, log = coq_make(["theories/Judge/Extract.vo"])
    if not ok:
        return None, log
    with Lock("ocaml"):
        src = os.path.join(COQ, "extracted")
        bld = os.path.join(CACHE, "judge_build")
        os.makedirs(bld, exist_ok=True)
        exe = os.path.join(bld, "judge")
        srcs = [os.path.join(src, f) for f in ("judge.mli", "judge.ml", "driver.ml")]
        if not os.path.exists(exe) or any(os.path.getmtime(s) > os.path.getmtime(exe) for s in srcs):
            for s in srcs:
                subprocess.run(["cp", s, bld], check=True)
            rc, out = sh(["ocamlfind", "ocamlopt", "-O2", "-w", "-a", "judge.mli", "judge.ml", "driver.ml", "-o", "judge"], cwd=bld)
            if rc != 0:
                return None, out
    return exe, ""


def kernel_judge(name, cases, timeout=600, shard=150):
    """cases: list of (cmd:list[int], expected:list[int]). Evaluates `run cmd` with vm_compute inside
    coqc and compares with expected inside Coq. Returns list of failing indices (or raises)."""
    ok, log = coq_make(["theories/Judge/Run.vo"])
    if not ok:
        raise RuntimeError("coq build failed: " + log[-2000:])
    d = os.path.join(WORK, "cases")
    os.makedirs(d, exist_ok=True)
    shards = [cases[i:i + shard] for i in range(0, len(cases), shard)]

    def one(idx):
        fn = os.path.join(d, "cases_%s_%d_%d.v" % (name, os.getpid(), idx))
        with open(fn, "w") as f:
            f.write("From Spl Require Import Judge.Run.\nOpen Scope N_scope.\n")
            f.write("Definition cases : list (list N * list N) := [\n")
            f.write(";\n".join("([%s],[%s])" % (";".join(map(str, c)), ";".join(map(str, e))) for c, e in shards[idx]))
            f.write("].\n")
            f.write("Definition failing := filter (fun '(i, (c, e)) => negb (nlist_eqb (judge_run c) e)) "
                    "(combine (seq 0 (length cases)) cases).\n")
            f.write("Eval vm_compute in (length cases, map fst failing).\n")
        rc, out = sh(["timeout", str(timeout), "coqc", "-q", "-noglob", "-Q", "theories", "Spl", "-o",
                      fn[:-2] + ".vo", fn], cwd=COQ, timeout=timeout + 30)
        for ext in (".v", ".vo", ".vok", ".vos"):
            try:
                os.remove(fn[:-2] + ext)
            except OSError:
                pass
        if rc != 0:
            raise RuntimeError("kernel judge failed: " + out[-2000:])
        m = re.search(r"=\s*\((\d+)%?\w*,\s*\[(.*?)\]\)", out.replace("\n", " "), flags=re.S)
        if not m or int(m.group(1)) != len(shards[idx]):
            raise RuntimeError("kernel judge: cannot parse output: " + out[-500:])
        return [idx * shard + int(x) for x in re.findall(r"\d+", m.group(2).replace("%nat", ""))]

    failing = []
    with ThreadPoolExecutor(JOBS) as ex:
        for r in ex.map(one, range(len(shards))):
            failing.extend(r)
    return sorted(failing)


# ----------------------------------------------------------------------------------------------
# Rust side

def harness_dir():
    src = os.path.join(VERIF, "harness")
    if not ALT:
        return src
    dst = os.path.join(ALTDIR, "harness")
    subprocess.run(["rm", "-rf", dst], check=True)
    os.makedirs(ALTDIR, exist_ok=True)
    subprocess.run(["cp", "-r", src, dst], check=True)
    root = os.path.realpath(REPO)
    for d, _, files in os.walk(dst):
        for f in files:
            if f.endswith((".rs", ".toml")):
                path = os.path.join(d, f)
                txt = open(path).read()
                if '"/repo/' in txt:
                    open(path, "w").write(txt.replace('"/repo/', '"%s/' % root))
    return dst


def build_harness(timeout=1500):
    with Lock("cargo" + (ALT or "")):
        rc, out = sh(["timeout", str(timeout), "cargo", "build", "--offline", "--bins"],
                     cwd=harness_dir(), timeout=timeout + 30)
    if rc != 0:
        return None, out
    return os.path.join(TARGET, "debug"), out


class NonTermination(RuntimeError):
    """a harness / judge process did not finish within its (generous) time limit"""


def run_lines(exe, lines, jobs=JOBS, timeout=900, args=()):
    """Feeds `lines` (list[str]) to `exe` over stdin, sharded round-robin over `jobs` processes (so that
    runs of expensive neighbouring lines are spread out); returns the output lines in input order."""
    if not lines:
        return []
    n = max(1, min(jobs, len(lines) // 200 + 1))
    chunks = [lines[i::n] for i in range(n)]

    def one(chunk):
        try:
            p = subprocess.run([exe] + list(args), input=("\n".join(chunk) + "\n").encode(), stdout=subprocess.PIPE,
                               stderr=subprocess.PIPE, timeout=timeout)
        except subprocess.TimeoutExpired as e:
            done = (e.stdout or b"").count(b"\n")
            raise NonTermination("%s did not finish %d input lines within %d s (the whole check normally takes a few minutes); it "
                                 "stopped producing output at input line %d of its shard: %s" % (
                                     os.path.basename(exe), len(chunk), timeout, done, chunk[done][:2000] if done < len(chunk) else ""))
        out = p.stdout.decode().split("\n")
        if out and out[-1] == "":
            out.pop()
        if len(out) != len(chunk):
            raise RuntimeError("%s: %d lines in, %d lines out (rc=%d): %s" % (exe, len(chunk), len(out), p.returncode, p.stderr.decode()[-500:]))
        return out

    res = [None] * len(lines)
    with ThreadPoolExecutor(n) as ex:
        for i, r in enumerate(ex.map(one, chunks)):
            res[i::n] = r
    return res


# ----------------------------------------------------------------------------------------------
# results

def load_known_findings(pid):
    path = os.path.join(VERIF, "known_findings.jsonl")
    out = []
    if os.path.exists(path):
        for line in open(path):
            line = line.strip()
            if not line or line.startswith("#"):
                continue
            e = json.loads(line)
            if e.get("property") == pid and e.get("status") == "known":
                out.append(e)
    return out


class Ctx:
    def __init__(self, pid, tier, seed):
        self.pid, self.tier, self.seed = pid, tier, seed
        self.rng = random.Random(seed * 1000003 + int(hashlib.sha256(pid.encode()).hexdigest()[:8], 16))
        self.t0 = time.time()
        self.violations = []
        self.known_lines = []
        self.cov = {}
        self.assumptions = []
        self.level = "proof"

    def thorough(self):
        return self.tier == "thorough"

    def violation(self, replay, no_input=False):
        d = os.path.join(OUTDIR, "replays", self.pid)
        os.makedirs(d, exist_ok=True)
        body = json.dumps(replay, indent=1, sort_keys=True, ensure_ascii=False)
        name = hashlib.sha256(body.encode()).hexdigest()[:12] + ".json"
        path = os.path.join(d, name)
        with open(path, "w") as f:
            f.write(body)
        rel = os.path.relpath(path, VERIF)
        line = "VIOLATION property=%s replay=%s" % (self.pid, rel)
        if no_input:
            line += " no-failing-input-found"
        self.violations.append(line)
        print(line, flush=True)

    def known(self, what):
        line = "KNOWN-FINDING: property=%s %s" % (self.pid, what)
        if line not in self.known_lines:
            self.known_lines.append(line)
            print(line, flush=True)

    def finish(self):
        ev = {
            "property_id": self.pid,
            "tier": self.tier,
            "seed": self.seed,
            "level": self.level,
            "coverage": self.cov,
            "assumptions": self.assumptions,
            "wall_s": round(time.time() - self.t0, 2),
            "violations": len(self.violations),
        }
        ev["coverage"]["known_findings_printed"] = self.known_lines
        os.makedirs(os.path.join(OUTDIR, "evidence"), exist_ok=True)
        with open(os.path.join(OUTDIR, "evidence", self.pid + ".json"), "w") as f:
            json.dump(ev, f, indent=1, sort_keys=True, ensure_ascii=False)
            f.write("\n")
        return 1 if self.violations else 0


def proof_stage(ctx, extra_targets=()):
    """Step 1 of the protocol: build Props/<pid>.vo, audit, Print Assumptions.
    Fills the proof keys of the evidence. Returns True when every obligation is discharged."""
    pid = ctx.pid
    target = "theories/Props/%s.vo" % pid
    ok, log = coq_make([target] + list(extra_targets))
    audit = coq_audit()
    rep = props_report(pid) if ok else dict(ok=False, theorems=[], closed=[], open={}, log=log, sha256="")
    ctx.cov.update({
        "obligations": max(1, len(rep["theorems"])),
        "discharged": len(rep["closed"]) if rep["ok"] else 0,
        "theorems": rep["theorems"],
        "props_sha256": rep["sha256"],
        "checker_cmd": "cd /verif/coq && coq_makefile -f _CoqProject -o Makefile && make %s && coqc Props/%s.v "
                       "(Print Assumptions) ; thorough tier adds coqchk -o" % (target, pid),
        "trusted_base": TRUSTED_BASE,
        "audit_problems": audit,
    })
    if ok and rep["ok"] and not audit:
        return True
    ctx.proof_failure = dict(kind="proof-obligation", target=target, build_ok=ok, audit=audit,
                             open_assumptions=rep.get("open"), log_tail=(rep.get("log") or log)[-3000:])
    return False


def coqchk(ctx):
    """thorough tier: independent re-check of the compiled property file."""
    rc, out = sh(["timeout", "1500", "coqchk", "-silent", "-o", "-Q", "theories", "Spl", "Spl.Props." + ctx.pid],
                 cwd=COQ, timeout=1600)
    ctx.cov["coqchk"] = out[-1500:]
    axioms = re.search(r"\* Axioms:\s*(.*?)(?:\n\s*\n|\* |\Z)", out, flags=re.S)
    ok = rc == 0 and axioms is not None and "<none>" in axioms.group(1)
    ctx.cov["coqchk_ok"] = ok
    return ok


def build_server(timeout=1800):
    """lsp4spl built from /repo's working tree with the `verif` hook. Returns (exe, log)."""
    tdir = os.path.join(ALTDIR, "target-lsp") if ALT else os.path.join(CACHE, "target-lsp")
    env = dict(ENV)
    env["CARGO_TARGET_DIR"] = tdir
    with Lock("cargo-lsp" + (ALT or "")):
        rc, out = sh(["timeout", str(timeout), "cargo", "build", "--offline", "-p", "lsp4spl", "--features", "verif"],
                     cwd=REPO, env=env, timeout=timeout + 30)
    if rc != 0:
        return None, out
    return os.path.join(tdir, "debug", "lsp4spl"), out
