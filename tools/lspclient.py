"""Minimal stdio JSON-RPC/LSP client with controlled write segmentation (stdlib only)."""
import json
import os
import queue
import subprocess
import threading
import time


def frame(obj):
    body = json.dumps(obj, ensure_ascii=False, separators=(",", ":")).encode("utf-8")
    return b"Content-Length: %d\r\n\r\n" % len(body) + body


class Server:
    def __init__(self, exe, args=(), stderr=subprocess.DEVNULL):
        env = dict(os.environ)
        # color_eyre symbolises a backtrace on every error exit of a debug build (1-2 s); not needed here
        env.update({"RUST_BACKTRACE": "0", "RUST_LIB_BACKTRACE": "0"})
        self.p = subprocess.Popen([exe] + list(args), stdin=subprocess.PIPE, stdout=subprocess.PIPE, stderr=stderr, bufsize=0, env=env)
        self.q = queue.Queue()
        self.raw = bytearray()
        self.frame_errors = []
        self.next_id = 1
        self.pending = []  # messages read while waiting for a specific id
        self.t = threading.Thread(target=self._reader, daemon=True)
        self.t.start()

    def _reader(self):
        buf = b""
        f = self.p.stdout
        while True:
            try:
                chunk = f.read(65536)
            except Exception:
                chunk = b""
            if not chunk:
                break
            self.raw += chunk
            buf += chunk
            while True:
                i = buf.find(b"\r\n\r\n")
                if i < 0:
                    break
                head = buf[:i].decode("ascii", "replace")
                n = None
                for line in head.split("\r\n"):
                    if line.lower().startswith("content-length:"):
                        try:
                            n = int(line.split(":", 1)[1].strip())
                        except ValueError:
                            pass
                if n is None:
                    self.frame_errors.append("no Content-Length in %r" % head)
                    buf = buf[i + 4:]
                    continue
                if len(buf) < i + 4 + n:
                    break
                body = buf[i + 4:i + 4 + n]
                buf = buf[i + 4 + n:]
                try:
                    self.q.put(json.loads(body.decode("utf-8")))
                except Exception as e:  # Content-Length does not match the JSON body
                    self.frame_errors.append("bad frame body (%s): %r" % (e, body[:200]))
        if buf:
            self.frame_errors.append("trailing bytes on stdout: %r" % buf[:200])
        self.q.put(None)  # EOF marker

    # --- sending
    def send_raw(self, data):
        try:
            self.p.stdin.write(data)
            self.p.stdin.flush()
            return True
        except (BrokenPipeError, OSError):
            return False

    def send(self, obj):
        return self.send_raw(frame(obj))

    def send_chunks(self, data, cuts, delay=0.003):
        """writes `data` split at the byte offsets in `cuts`, flushing and pausing between writes"""
        pos = 0
        for c in sorted(set(cuts)) + [len(data)]:
            if c > pos:
                if not self.send_raw(data[pos:c]):
                    return False
                pos = c
                time.sleep(delay)
        return True

    def notify(self, method, params=None):
        m = {"jsonrpc": "2.0", "method": method}
        if params is not None:
            m["params"] = params
        return self.send(m)

    def request_async(self, method, params=None, rid=None):
        if rid is None:
            rid = self.next_id
            self.next_id += 1
        m = {"jsonrpc": "2.0", "id": rid, "method": method}
        if params is not None:
            m["params"] = params
        self.send(m)
        return rid

    # --- receiving
    def read_msg(self, timeout=5.0):
        """next message from the server, None on EOF, raises queue.Empty on timeout"""
        if self.pending:
            return self.pending.pop(0)
        return self.q.get(timeout=timeout)

    def wait_response(self, rid, timeout=5.0, others=None):
        """waits for the response with id `rid`; other messages are appended to `others` (or kept pending)"""
        deadline = time.time() + timeout
        keep = []
        try:
            while True:
                left = deadline - time.time()
                if left <= 0:
                    raise queue.Empty()
                m = self.q.get(timeout=left)
                if m is None:
                    self.q.put(None)
                    return None
                if "id" in m and m.get("id") == rid and "method" not in m:
                    return m
                (others if others is not None else keep).append(m)
        finally:
            self.pending.extend(keep)

    def request(self, method, params=None, timeout=5.0, others=None):
        rid = self.request_async(method, params)
        return self.wait_response(rid, timeout, others)

    def drain(self, timeout=2.0):
        """reads until EOF on stdout (or timeout); returns (messages, saw_eof)"""
        out = list(self.pending)
        self.pending = []
        deadline = time.time() + timeout
        while True:
            left = deadline - time.time()
            if left <= 0:
                return out, False
            try:
                m = self.q.get(timeout=left)
            except queue.Empty:
                return out, False
            if m is None:
                return out, True
            out.append(m)

    # --- lifecycle helpers
    def initialize(self, diagnostics=True, timeout=90.0, capabilities=None):      # generous: a loaded machine starts a debug binary slowly
        caps = {"textDocument": {"publishDiagnostics": {}}} if diagnostics else {}
        if capabilities is not None:
            caps = capabilities
        r = self.request("initialize", {"processId": None, "rootUri": None, "capabilities": caps}, timeout=timeout)
        self.notify("initialized", {})
        return r

    def open(self, uri, text):
        self.notify("textDocument/didOpen", {"textDocument": {"uri": uri, "languageId": "spl", "version": 1, "text": text}})

    def change(self, uri, changes, version=2):
        self.notify("textDocument/didChange", {"textDocument": {"uri": uri, "version": version}, "contentChanges": changes})

    def close(self, uri):
        self.notify("textDocument/didClose", {"textDocument": {"uri": uri}})

    def close_stdin(self):
        try:
            self.p.stdin.close()
        except Exception:
            pass

    def wait(self, timeout=5.0):
        try:
            return self.p.wait(timeout=timeout)
        except subprocess.TimeoutExpired:
            return None

    def kill(self):
        try:
            self.p.kill()
        except Exception:
            pass
        try:
            self.p.wait(timeout=2)
        except Exception:
            pass
        for f in (self.p.stdin, self.p.stdout):
            try:
                f.close()
            except Exception:
                pass

    def shutdown_exit(self, timeout=5.0):
        r = self.request("shutdown", None, timeout=timeout)
        self.notify("exit")
        return r, self.wait(timeout)
