"""Single-fault injectors on the abstract programs of splgen.well_typed_program (stdlib only).

For each of the 10 build and 17 semantic message kinds of spl_frontend/src/error.rs there is at least one
injector `inj(prog, rng) -> (prog', kind) | None` that turns a well-typed abstract program into a variant that
violates exactly one rule of SPL; `kind` is the name of the message the front end is expected to report
(exactly once, and nothing else).  Where the program offers no site for the fault (no array variable, no
call with arguments, ...), the injector adds the smallest declaration/statement that provides one.

Abstract programs are the nested tuples documented in splgen.py; sites are addressed by generic paths (index
sequences into the nested tuples/lists).

Every injector returns `(prog', kind, culprit)` (plus, where the SPL rules themselves imply a second diagnostic,
a list of further `(kind, culprit)` pairs): `culprit` names the offending construct of prog',
    ("decl_name", di) | ("param_name", di, i) | ("var_name", di, i)     the declared name (one token)
    ("texpr", path) | ("ident", path)                                    a type name / variable name (one token)
    ("stmt", path) | ("expr", path) | ("var", path)                      the whole node
    ("none",)                                                            no construct (main is missing)
`inject` keeps the old interface (prog', kind); `inject_full` gives (prog', [(kind, culprit), ...]);
`culprit_span(prog', culprit)` is the culprit's token span (first, last+1) in `splgen.flatten(prog')` and whether
the published range is the bare token (`exact`) or the node with the comments in front of it.
`SYNTAX_INJECTORS` delete one token (`;` after an assignment/call/declaration, `)` of a call or condition).
"""
import splgen

BUILD_KINDS = ["UndefinedType", "NotAType", "RedeclarationAsType", "MustBeAReferenceParameter",
               "RedeclarationAsProcedure", "RedeclarationAsParameter", "RedeclarationAsVariable",
               "MainIsMissing", "MainIsNotAProcedure", "MainMustNotHaveParameters"]
SEM_KINDS = ["AssignmentHasDifferentTypes", "AssignmentRequiresIntegers", "IfConditionMustBeBoolean",
             "WhileConditionMustBeBoolean", "UndefinedProcedure", "CallOfNoneProcedure", "ArgumentsTypeMismatch",
             "ArgumentMustBeAVariable", "TooFewArguments", "TooManyArguments", "OperatorDifferentTypes",
             "ComparisonNonInteger", "ArithmeticOperatorNonInteger", "UndefinedVariable", "NotAVariable",
             "IndexingNonArray", "IndexingWithNonInteger"]


# --------------------------------------------------------------------------------------------
# generic paths

def get(node, path):
    for i in path:
        node = node[i]
    return node


def put(node, path, new):
    if not path:
        return new
    i = path[0]
    items = list(node)
    items[i] = put(node[i], path[1:], new)
    return tuple(items) if isinstance(node, tuple) else items


def insert(node, path, index, new):
    """inserts `new` at position `index` of the list at `path`"""
    l = list(get(node, path))
    l.insert(index, new)
    return put(node, path, l)


# --------------------------------------------------------------------------------------------
# environments

def resolve(te, types, creator):
    if te[0] == "named":
        return types.get(te[1])
    return ("arr", te[1], resolve(te[2], types, creator), creator)


def types_before(prog, di):
    types = {"int": "int"}
    for d in prog[:di]:
        if d[0] == "type" and d[1] not in types and d[1] != "main":
            types[d[1]] = resolve(d[2], types, d[1])
    return types


def globals_before(prog, di):
    """names in the global table when declaration di is built"""
    names = set(["int"]) | set(splgen.BUILTINS)
    for d in prog[:di]:
        names.add(d[1])
    return names


def locals_of(prog, di):
    """name -> (type, is_ref or None) of procedure di (first declaration wins)"""
    d = prog[di]
    types = types_before(prog, di)
    out = {}
    for r, n, t in d[2]:
        if n not in out:
            out[n] = (resolve(t, types, n), r)
    for n, t in d[3]:
        if n not in out:
            out[n] = (resolve(t, types, n), None)
    return out


def all_names(prog):
    names = set(["int", "main"]) | set(splgen.BUILTINS) | set(splgen.KEYWORDS)

    def te(t):
        if t[0] == "named":
            names.add(t[1])
        else:
            te(t[2])

    def var(v):
        if v[0] == "name":
            names.add(v[1])
        else:
            var(v[1])
            ex(v[2])

    def ex(e):
        k = e[0]
        if k == "var":
            var(e[1])
        elif k in ("neg", "par"):
            ex(e[1])
        elif k == "bin":
            ex(e[2])
            ex(e[3])

    def st(s):
        k = s[0]
        if k == "assign":
            var(s[1])
            ex(s[2])
        elif k == "call":
            names.add(s[1])
            for a in s[2]:
                ex(a)
        elif k == "if":
            ex(s[1])
            st(s[2])
            if s[3] is not None:
                st(s[3])
        elif k == "while":
            ex(s[1])
            st(s[2])
        elif k == "block":
            for x in s[1]:
                st(x)

    for d in prog:
        names.add(d[1])
        if d[0] == "type":
            te(d[2])
        else:
            for _, n, t in d[2]:
                names.add(n)
                te(t)
            for n, t in d[3]:
                names.add(n)
                te(t)
            for s in d[4]:
                st(s)
    return names


def fresh(prog, rng, extra=()):
    names = all_names(prog) | set(extra)
    for _ in range(100):
        n = rng.choice(["u", "w", "zz", "nope", "ghost", "T", "undef_"]) + str(rng.randrange(0, 1000))
        if n not in names:
            return n
    raise RuntimeError("no fresh name")


# --------------------------------------------------------------------------------------------
# site enumeration

def sites(prog):
    """yields (category, path, node, decl index):
       'texpr' (every type expression, also nested), 'stmt', 'expr' (every expression with its role in the
       4th component extended: (di, role)), 'var' (every variable)"""
    out = []

    def te(t, path, di, role):
        out.append(("texpr", path, t, (di, role)))
        if t[0] == "array":
            te(t[2], path + (2,), di, role)

    def var(v, path, di, role):
        out.append(("var", path, v, (di, role)))
        if v[0] == "index":
            var(v[1], path + (1,), di, "array")
            ex(v[2], path + (2,), di, "index")

    def ex(e, path, di, role):
        out.append(("expr", path, e, (di, role)))
        k = e[0]
        if k == "var":
            var(e[1], path + (1,), di, "expr")
        elif k in ("neg", "par"):
            ex(e[1], path + (1,), di, "int")
        elif k == "bin":
            ex(e[2], path + (2,), di, "int")
            ex(e[3], path + (3,), di, "int")

    def st(s, path, di):
        out.append(("stmt", path, s, (di, None)))
        k = s[0]
        if k == "assign":
            var(s[1], path + (1,), di, "lhs")
            ex(s[2], path + (2,), di, "rhs")
        elif k == "call":
            for i, a in enumerate(s[2]):
                ex(a, path + (2, i), di, ("arg", s[1], i))
        elif k == "if":
            ex(s[1], path + (1,), di, "cond")
            st(s[2], path + (2,), di)
            if s[3] is not None:
                st(s[3], path + (3,), di)
        elif k == "while":
            ex(s[1], path + (1,), di, "cond")
            st(s[2], path + (2,), di)
        elif k == "block":
            for i, x in enumerate(s[1]):
                st(x, path + (1, i), di)

    for di, d in enumerate(prog):
        if d[0] == "type":
            te(d[2], (di, 2), di, "type")
        else:
            for i, (_, _, t) in enumerate(d[2]):
                te(t, (di, 2, i, 2), di, "param")
            for i, (_, t) in enumerate(d[3]):
                te(t, (di, 3, i, 1), di, ("var", i))
            for i, s in enumerate(d[4]):
                st(s, (di, 4, i), di)
    return out


def procs(prog):
    return [i for i, d in enumerate(prog) if d[0] == "proc"]


def map_calls(prog, name, f):
    """rewrites every call statement of `name` with f(stmt)"""
    for cat, path, node, _ in sites(prog):
        if cat == "stmt" and node[0] == "call" and node[1] == name:
            prog = put(prog, path, f(node))
    return prog


def add_stmt(prog, rng, di, s):
    """(prog', path of the new statement)"""
    d = prog[di]
    i = rng.randrange(0, len(d[4]) + 1)
    return insert(prog, (di, 4), i, s), (di, 4, i)


def int_vars(prog, di):
    return [n for n, (t, _) in locals_of(prog, di).items() if t == "int"]


def array_vars(prog, di):
    return [n for n, (t, _) in locals_of(prog, di).items() if isinstance(t, tuple)]


def ensure_proc(prog, rng):
    """index of some procedure"""
    ps = procs(prog)
    return rng.choice(ps)  # a well-typed program has `main`


def ensure_int_var(prog, rng, di):
    """(prog', name) with an int variable in procedure di"""
    c = int_vars(prog, di)
    if c and rng.random() < 0.8:
        return prog, rng.choice(c)
    n = fresh(prog, rng)
    return insert(prog, (di, 3), len(prog[di][3]), (n, ("named", "int"))), n


def ensure_array_var(prog, rng, di):
    c = array_vars(prog, di)
    if c and rng.random() < 0.8:
        return prog, rng.choice(c)
    n = fresh(prog, rng)
    te = ("array", str(rng.randrange(1, 9)), ("named", "int"))
    return insert(prog, (di, 3), len(prog[di][3]), (n, te)), n


def bool_expr(rng):
    return ("bin", rng.choice(["=", "#", "<", "<=", ">", ">="]), ("lit", str(rng.randrange(0, 9))),
            ("lit", str(rng.randrange(0, 9))))


# --------------------------------------------------------------------------------------------
# build faults

def undefined_type(prog, rng):
    c = [s for s in sites(prog) if s[0] == "texpr" and s[2][0] == "named"]
    if not c:
        return None
    _, path, _, _ = rng.choice(c)
    return put(prog, path, ("named", fresh(prog, rng))), "UndefinedType", ("texpr", path)


def undefined_type_of_a_called_parameter(prog, rng):
    """the type of a parameter of a procedure that IS CALLED somewhere (with a typed argument in that position) becomes an
    undefined name: exactly `undefined type`, and in particular no `argument type mismatch` at the calls"""
    called = {}
    for cat, path, node, _ in sites(prog):
        if cat == "stmt" and node[0] == "call" and node[2]:
            called.setdefault(node[1], len(node[2]))
    c = []
    for di, d in enumerate(prog):
        if d[0] == "proc" and d[1] in called:
            for i, (_, _, ty) in enumerate(d[2]):
                if ty[0] == "named":
                    c.append((di, 2, i, 2))
    if not c:
        return None
    path = rng.choice(c)
    return put(prog, path, ("named", fresh(prog, rng))), "UndefinedType", ("texpr", path)


def not_a_type(prog, rng):
    c = [s for s in sites(prog) if s[0] == "texpr" and s[2][0] == "named"]
    if not c:
        return None
    _, path, _, (di, role) = rng.choice(c)
    cands = [n for n in globals_before(prog, di) if n not in types_before(prog, di)]   # procedures
    if isinstance(role, tuple) and rng.random() < 0.5:
        # a variable declaration sees the parameters and the variables before it
        d = prog[di]
        seen = [n for _, n, _ in d[2]] + [n for n, _ in d[3][:role[1]]]
        if seen:
            cands = seen
    return put(prog, path, ("named", rng.choice(sorted(cands)))), "NotAType", ("texpr", path)


def redeclaration_as_type(prog, rng):
    di = rng.randrange(0, len(prog) + 1)
    names = sorted(globals_before(prog, di) - {"main"} - ({"int"} if rng.random() < 0.9 else set()))
    name = rng.choice(names)
    return insert(prog, (), di, ("type", name, ("named", "int"))), "RedeclarationAsType", ("decl_name", di)


def must_be_a_reference_parameter(prog, rng):
    c = []
    for di in procs(prog):
        loc = locals_of(prog, di)
        for i, (r, n, t) in enumerate(prog[di][2]):
            if r and isinstance(loc[n][0], tuple) and [x[1] for x in prog[di][2]].index(n) == i:
                c.append((di, i))
    if c and rng.random() < 0.8:
        di, i = rng.choice(c)
        r, n, t = prog[di][2][i]
        return put(prog, (di, 2, i), (False, n, t)), "MustBeAReferenceParameter", ("param_name", di, i)
    # add a procedure with a non-reference array parameter (anonymous or named array type)
    pn, an = fresh(prog, rng), fresh(prog, rng)
    te = ("array", "3", ("named", "int"))
    named = [n for n, t in types_before(prog, len(prog)).items() if isinstance(t, tuple)]
    if named and rng.random() < 0.5:
        te = ("named", rng.choice(named))
    return list(prog) + [("proc", pn, [(False, an, te)], [], [])], "MustBeAReferenceParameter", \
        ("param_name", len(prog), 0)


def redeclaration_as_procedure(prog, rng):
    di = rng.randrange(0, len(prog) + 1)
    names = sorted(globals_before(prog, di) - ({"int"} if rng.random() < 0.9 else set()))
    name = rng.choice(names)
    q = fresh(prog, rng)
    body = rng.choice([[], [("assign", ("name", q), ("lit", "1"))]])
    vars_ = [(q, ("named", "int"))] if body else []
    return insert(prog, (), di, ("proc", name, [], vars_, body)), "RedeclarationAsProcedure", ("decl_name", di)


def redeclaration_as_parameter(prog, rng):
    c = [di for di in procs(prog) if prog[di][2]]
    if not c:
        pn, an = fresh(prog, rng), fresh(prog, rng)
        return list(prog) + [("proc", pn, [(False, an, ("named", "int")), (False, an, ("named", "int"))], [], [])], \
            "RedeclarationAsParameter", ("param_name", len(prog), 1)
    di = rng.choice(c)
    d = prog[di]
    _, n, _ = rng.choice(d[2])
    prog = put(prog, (di, 2), list(d[2]) + [(False, n, ("named", "int"))])
    prog = map_calls(prog, d[1], lambda s: ("call", s[1], list(s[2]) + [("lit", "0")]))
    return prog, "RedeclarationAsParameter", ("param_name", di, len(d[2]))


def redeclaration_as_variable(prog, rng):
    c = [di for di in procs(prog) if prog[di][2] or prog[di][3]]
    if not c:
        di = ensure_proc(prog, rng)
        n = fresh(prog, rng)
        return put(prog, (di, 3), [(n, ("named", "int")), (n, ("named", "int"))]), "RedeclarationAsVariable", \
            ("var_name", di, 1)
    di = rng.choice(c)
    d = prog[di]
    n = rng.choice([x[1] for x in d[2]] + [x[0] for x in d[3]])
    return put(prog, (di, 3), list(d[3]) + [(n, ("named", "int"))]), "RedeclarationAsVariable", \
        ("var_name", di, len(d[3]))


def _rename_main(prog, new):
    out = []
    for d in prog:
        if d[0] == "proc" and d[1] == "main":
            d = ("proc", new) + tuple(d[2:])
        out.append(d)
    return map_calls(out, "main", lambda s: ("call", new, s[2]))


def main_is_missing(prog, rng):
    if rng.random() < 0.5:
        return _rename_main(prog, fresh(prog, rng)), "MainIsMissing", ("none",)
    # delete main; calls of main (recursion) become empty statements
    out = [d for d in prog if d[1] != "main"]
    return map_calls(out, "main", lambda s: ("empty",)), "MainIsMissing", ("none",)


def main_is_not_a_procedure(prog, rng):
    """`type main = ...`: main is not a procedure, AND (a type named main is never entered) there is no
    procedure main: SPL's two rules about main are both violated"""
    out = []
    at = None
    for d in prog:
        if d[1] == "main":
            types = types_before(prog, len(out))
            d = ("type", "main", ("named", rng.choice(sorted(types))))
            at = len(out)
        out.append(d)
    return map_calls(out, "main", lambda s: ("empty",)), "MainIsNotAProcedure", ("decl_name", at), \
        [("MainIsMissing", ("none",))]


def main_must_not_have_parameters(prog, rng):
    di = [i for i, d in enumerate(prog) if d[1] == "main"][0]
    n = fresh(prog, rng)
    is_ref = rng.random() < 0.3
    prog = put(prog, (di, 2), [(is_ref, n, ("named", "int"))])
    if is_ref:
        # calls need a variable argument; drop recursive calls instead
        return map_calls(prog, "main", lambda s: ("empty",)), "MainMustNotHaveParameters", ("decl_name", di)
    return map_calls(prog, "main", lambda s: ("call", "main", [("lit", "0")])), "MainMustNotHaveParameters", \
        ("decl_name", di)


# --------------------------------------------------------------------------------------------
# semantic faults

def assignment_has_different_types(prog, rng):
    c = [s for s in sites(prog) if s[0] == "stmt" and s[2][0] == "assign"]
    if c and rng.random() < 0.8:
        _, path, s, _ = rng.choice(c)
        return put(prog, path, ("assign", s[1], ("bin", "<", s[2], ("lit", "1")))), "AssignmentHasDifferentTypes", \
            ("stmt", path)
    di = ensure_proc(prog, rng)
    if rng.random() < 0.5:
        prog, a = ensure_array_var(prog, rng, di)
        prog, path = add_stmt(prog, rng, di, ("assign", ("name", a), ("lit", "1")))
        return prog, "AssignmentHasDifferentTypes", ("stmt", path)
    prog, v = ensure_int_var(prog, rng, di)
    prog, path = add_stmt(prog, rng, di, ("assign", ("name", v), bool_expr(rng)))
    return prog, "AssignmentHasDifferentTypes", ("stmt", path)


def assignment_requires_integers(prog, rng):
    di = ensure_proc(prog, rng)
    prog, a = ensure_array_var(prog, rng, di)
    prog, path = add_stmt(prog, rng, di, ("assign", ("name", a), ("var", ("name", a))))
    return prog, "AssignmentRequiresIntegers", ("stmt", path)


def _condition(kind, stmt_kind):
    def inj(prog, rng):
        c = [s for s in sites(prog) if s[0] == "stmt" and s[2][0] == stmt_kind]
        if c and rng.random() < 0.8:
            _, path, s, _ = rng.choice(c)
            cond = s[1]
            new = rng.choice([cond[2], ("par", cond[3]), ("bin", "+", cond[2], cond[3])])
            return put(prog, path + (1,), new), kind, ("expr", path + (1,))
        di = ensure_proc(prog, rng)
        e = ("lit", str(rng.randrange(0, 5)))
        s = ("if", e, ("empty",), None) if stmt_kind == "if" else ("while", e, ("empty",))
        prog, path = add_stmt(prog, rng, di, s)
        return prog, kind, ("expr", path + (1,))
    return inj


if_condition_must_be_boolean = _condition("IfConditionMustBeBoolean", "if")
while_condition_must_be_boolean = _condition("WhileConditionMustBeBoolean", "while")


def undefined_procedure(prog, rng):
    c = [s for s in sites(prog) if s[0] == "stmt" and s[2][0] == "call"]
    if c and rng.random() < 0.7:
        _, path, s, _ = rng.choice(c)
        return put(prog, path, ("call", fresh(prog, rng), s[2])), "UndefinedProcedure", ("stmt", path)
    di = ensure_proc(prog, rng)
    prog, path = add_stmt(prog, rng, di, ("call", fresh(prog, rng), []))
    return prog, "UndefinedProcedure", ("stmt", path)


def call_of_none_procedure(prog, rng):
    di = ensure_proc(prog, rng)
    cands = sorted(set(types_before(prog, len(prog))) - set(d[1] for d in prog if d[0] == "proc")
                   - set(locals_of(prog, di))) + sorted(locals_of(prog, di))
    name = rng.choice(cands)
    c = [s for s in sites(prog) if s[0] == "stmt" and s[2][0] == "call" and s[3][0] == di]
    if c and rng.random() < 0.6:
        _, path, s, _ = rng.choice(c)
        return put(prog, path, ("call", name, s[2])), "CallOfNoneProcedure", ("stmt", path)
    prog, path = add_stmt(prog, rng, di, ("call", name, []))
    return prog, "CallOfNoneProcedure", ("stmt", path)


def _signature(prog, name, upto):
    """[(is_ref, type)] of the procedure `name` as seen from declaration `upto` (own declaration included)"""
    for i, d in enumerate(prog[:upto + 1]):
        if d[1] == name:
            if d[0] != "proc":
                return None
            loc = locals_of(prog, i)
            seen, out = set(), []
            for r, n, _ in d[2]:
                out.append((r, loc[n][0] if n not in seen else None))
                seen.add(n)
            return out
    if name in splgen.BUILTINS:
        return [(r, "int") for r in splgen.BUILTINS[name]]
    return None


def arguments_type_mismatch(prog, rng):
    c = []
    for s in sites(prog):
        if s[0] == "expr" and isinstance(s[3][1], tuple):
            di, (_, callee, i) = s[3]
            if callee in locals_of(prog, di):
                continue
            sig = _signature(prog, callee, di)
            if sig and i < len(sig) and not sig[i][0] and sig[i][1] == "int":
                c.append(s)
    if c and rng.random() < 0.8:
        _, path, e, _ = rng.choice(c)
        return put(prog, path, ("bin", rng.choice(["<", "=", "#"]), e, ("lit", "7"))), "ArgumentsTypeMismatch", \
            ("expr", path)
    di = ensure_proc(prog, rng)
    callee = rng.choice(["printi", "printc", "clearAll"])
    if callee in locals_of(prog, di):
        return None
    prog, path = add_stmt(prog, rng, di, ("call", callee, [bool_expr(rng)]))
    return prog, "ArgumentsTypeMismatch", ("expr", path + (2, 0))


def argument_must_be_a_variable(prog, rng):
    c = []
    for s in sites(prog):
        if s[0] == "expr" and isinstance(s[3][1], tuple):
            di, (_, callee, i) = s[3]
            if callee in locals_of(prog, di):
                continue
            sig = _signature(prog, callee, di)
            if sig and i < len(sig) and sig[i][0] and sig[i][1] == "int":
                c.append(s)
    if c and rng.random() < 0.8:
        _, path, e, _ = rng.choice(c)
        new = rng.choice([("par", e), ("bin", "+", e, ("lit", "0")), ("neg", e), ("lit", "5")])
        return put(prog, path, new), "ArgumentMustBeAVariable", ("expr", path)
    di = ensure_proc(prog, rng)
    callee = rng.choice(["readi", "readc", "time"])
    if callee in locals_of(prog, di):
        return None
    prog, path = add_stmt(prog, rng, di, ("call", callee, [("lit", "1")]))
    return prog, "ArgumentMustBeAVariable", ("expr", path + (2, 0))


def _callable_calls(prog, min_args):
    out = []
    for s in sites(prog):
        if s[0] == "stmt" and s[2][0] == "call" and len(s[2][2]) >= min_args:
            di = s[3][0]
            if s[2][1] not in locals_of(prog, di) and _signature(prog, s[2][1], di) is not None:
                out.append(s)
    return out


def too_few_arguments(prog, rng):
    c = _callable_calls(prog, 1)
    if c and rng.random() < 0.8:
        _, path, s, _ = rng.choice(c)
        return put(prog, path, ("call", s[1], list(s[2])[:-1])), "TooFewArguments", ("stmt", path)
    di = ensure_proc(prog, rng)
    callee = rng.choice(["printi", "setPixel", "drawLine"])
    if callee in locals_of(prog, di):
        return None
    n = {"printi": 1, "setPixel": 3, "drawLine": 5}[callee]
    prog, path = add_stmt(prog, rng, di, ("call", callee, [("lit", "1")] * rng.randrange(0, n)))
    return prog, "TooFewArguments", ("stmt", path)


def too_many_arguments(prog, rng):
    c = _callable_calls(prog, 0)
    if c and rng.random() < 0.8:
        _, path, s, _ = rng.choice(c)
        extra = rng.choice([("lit", "1"), bool_expr(rng)])
        return put(prog, path, ("call", s[1], list(s[2]) + [extra])), "TooManyArguments", ("stmt", path)
    di = ensure_proc(prog, rng)
    if "exit" in locals_of(prog, di):
        return None
    prog, path = add_stmt(prog, rng, di, ("call", "exit", [("lit", "1")]))
    return prog, "TooManyArguments", ("stmt", path)


def _int_expr_sites(prog):
    """expressions that stand where an int is required and any int expression may stand"""
    out = []
    for s in sites(prog):
        if s[0] != "expr":
            continue
        di, role = s[3]
        if role in ("rhs", "int", "index"):
            out.append(s)
        elif isinstance(role, tuple):
            _, callee, i = role
            if callee in locals_of(prog, di):
                continue
            sig = _signature(prog, callee, di)
            if sig and i < len(sig) and not sig[i][0] and sig[i][1] == "int":
                out.append(s)
    return out


def _operator(kind, make):
    def inj(prog, rng):
        c = _int_expr_sites(prog)
        if c and rng.random() < 0.85:
            _, path, e, _ = rng.choice(c)
            return put(prog, path, ("par", make(rng, e))), kind, ("expr", path + (1,))
        di = ensure_proc(prog, rng)
        prog, v = ensure_int_var(prog, rng, di)
        prog, path = add_stmt(prog, rng, di, ("assign", ("name", v), make(rng, ("lit", "2"))))
        return prog, kind, ("expr", path + (2,))
    return inj


operator_different_types = _operator(
    "OperatorDifferentTypes",
    lambda rng, e: rng.choice([("bin", rng.choice("+-*/"), ("par", bool_expr(rng)), ("par", e)),
                               ("bin", rng.choice("+-*/"), ("par", e), ("par", bool_expr(rng)))]))
arithmetic_operator_non_integer = _operator(
    "ArithmeticOperatorNonInteger",
    lambda rng, e: ("bin", rng.choice("+-*/"), ("par", bool_expr(rng)), ("par", bool_expr(rng))))


def comparison_non_integer(prog, rng):
    c = [s for s in sites(prog) if s[0] == "expr" and s[3][1] == "cond"]
    new = ("bin", rng.choice(["=", "#", "<", "<=", ">", ">="]), ("par", bool_expr(rng)), ("par", bool_expr(rng)))
    if c and rng.random() < 0.8:
        _, path, _, _ = rng.choice(c)
        return put(prog, path, new), "ComparisonNonInteger", ("expr", path)
    di = ensure_proc(prog, rng)
    if rng.random() < 0.5:
        prog, a = ensure_array_var(prog, rng, di)
        new = ("bin", "=", ("var", ("name", a)), ("var", ("name", a)))
    prog, path = add_stmt(prog, rng, di, ("if", new, ("empty",), None))
    return prog, "ComparisonNonInteger", ("expr", path + (1,))


def undefined_variable(prog, rng):
    c = [s for s in sites(prog) if s[0] == "var" and s[2][0] == "name"]
    if c and rng.random() < 0.85:
        _, path, _, _ = rng.choice(c)
        return put(prog, path, ("name", fresh(prog, rng))), "UndefinedVariable", ("ident", path)
    di = ensure_proc(prog, rng)
    prog, path = add_stmt(prog, rng, di, ("assign", ("name", fresh(prog, rng)), ("lit", "1")))
    return prog, "UndefinedVariable", ("ident", path + (1,))


def not_a_variable(prog, rng):
    c = [s for s in sites(prog) if s[0] == "var" and s[2][0] == "name"]
    if c and rng.random() < 0.85:
        _, path, _, (di, _) = rng.choice(c)
    else:
        di = ensure_proc(prog, rng)
        prog, v = ensure_int_var(prog, rng, di)
        prog, _ = add_stmt(prog, rng, di, ("assign", ("name", v), ("var", ("name", v))))
        c = [s for s in sites(prog) if s[0] == "var" and s[2][0] == "name" and s[3][0] == di]
        _, path, _, _ = rng.choice(c)
    # the global names visible in every procedure body: all declarations (first wins), minus local names
    names = set(["int"]) | set(splgen.BUILTINS) | set(d[1] for d in prog if d[1] != "main" or d[0] == "proc")
    names -= set(locals_of(prog, di))
    return put(prog, path, ("name", rng.choice(sorted(names)))), "NotAVariable", ("ident", path)


def indexing_non_array(prog, rng):
    c = []
    for s in sites(prog):
        if s[0] == "var" and s[2][0] == "name" and s[3][1] in ("lhs", "expr"):
            if locals_of(prog, s[3][0]).get(s[2][1], (None,))[0] == "int":
                c.append(s)
    if c and rng.random() < 0.85:
        _, path, v, _ = rng.choice(c)
        return put(prog, path, ("index", v, ("lit", str(rng.randrange(0, 4))))), "IndexingNonArray", ("var", path)
    di = ensure_proc(prog, rng)
    prog, v = ensure_int_var(prog, rng, di)
    prog, path = add_stmt(prog, rng, di, ("assign", ("index", ("name", v), ("lit", "0")), ("lit", "1")))
    return prog, "IndexingNonArray", ("var", path + (1,))


def indexing_with_non_integer(prog, rng):
    c = [s for s in sites(prog) if s[0] == "var" and s[2][0] == "index"]
    if c and rng.random() < 0.8:
        _, path, v, _ = rng.choice(c)
        new = rng.choice([bool_expr(rng), ("bin", "<", v[2], ("lit", "3")), ("par", bool_expr(rng))])
        return put(prog, path, ("index", v[1], new)), "IndexingWithNonInteger", ("expr", path + (2,))
    di = ensure_proc(prog, rng)
    prog, a = ensure_array_var(prog, rng, di)
    loc = locals_of(prog, di)
    t, v = loc[a][0], ("name", a)
    first = True
    depth = 0
    while isinstance(t, tuple):
        v = ("index", v, bool_expr(rng) if first else ("lit", "0"))
        first = False
        depth += 1
        t = t[2]
    if t != "int":
        return None
    prog, path = add_stmt(prog, rng, di, ("assign", v, ("lit", "1")))
    # the boolean index is the innermost one
    return prog, "IndexingWithNonInteger", ("expr", path + (1,) + (1,) * (depth - 1) + (2,))


def negated_boolean(prog, rng):
    """unary minus applied to a comparison, used as a condition.  SPL requires an integer operand (the arithmetic-
    operand rule) AND, since -e is an integer, the condition rule is violated as well: two diagnostics on the
    same expression."""
    c = [s for s in sites(prog) if s[0] == "expr" and s[3][1] == "cond"]
    if c and rng.random() < 0.8:
        _, path, e, _ = rng.choice(c)
        skind = get(prog, path[:-1])[0]
        cond_kind = "IfConditionMustBeBoolean" if skind == "if" else "WhileConditionMustBeBoolean"
        return put(prog, path, ("neg", ("par", e))), "ArithmeticOperatorNonInteger", ("expr", path), \
            [(cond_kind, ("expr", path))]
    di = ensure_proc(prog, rng)
    prog, path = add_stmt(prog, rng, di, ("if", ("neg", ("par", bool_expr(rng))), ("empty",), None))
    return prog, "ArithmeticOperatorNonInteger", ("expr", path + (1,)), \
        [("IfConditionMustBeBoolean", ("expr", path + (1,)))]


def negated_boolean_operand(prog, rng):
    """unary minus applied to a comparison where an integer is expected: exactly the arithmetic-operand rule"""
    c = _int_expr_sites(prog)
    if c and rng.random() < 0.85:
        _, path, e, _ = rng.choice(c)
        return put(prog, path, ("par", ("neg", ("par", bool_expr(rng))))), "ArithmeticOperatorNonInteger", \
            ("expr", path + (1,))
    di = ensure_proc(prog, rng)
    prog, v = ensure_int_var(prog, rng, di)
    prog, path = add_stmt(prog, rng, di, ("assign", ("name", v), ("neg", ("par", bool_expr(rng)))))
    return prog, "ArithmeticOperatorNonInteger", ("expr", path + (2,))


def _shape(t):
    """the type expression that spells the structure of a resolved array type"""
    if t == "int":
        return ("named", "int")
    return ("array", t[1], _shape(t[2]))


def argument_other_array_type(prog, rng):
    """name equivalence: an argument whose array type has the same structure as the parameter's type but stems from
    another declaration (an anonymous array type of a new local variable, or a new type declaration in front)"""
    c = []
    for s in sites(prog):
        if s[0] == "expr" and isinstance(s[3][1], tuple) and s[2][0] == "var" and s[2][1][0] == "name":
            di, (_, callee, i) = s[3]
            if callee in locals_of(prog, di):
                continue
            sig = _signature(prog, callee, di)
            if sig and i < len(sig) and isinstance(sig[i][1], tuple):
                c.append((s, sig[i][1]))
    if c:
        (_, path, _, (di, _)), t = rng.choice(c)
    else:
        # a type, a procedure taking it, and a call in main
        tn, pn, an = fresh(prog, rng), fresh(prog, rng, ()), None
        while pn == tn:
            pn = fresh(prog, rng)
        an = "a"
        prog = [("type", tn, ("array", "4", ("named", "int"))), ("proc", pn, [(True, an, ("named", tn))], [], [])] + list(prog)
        di = [i for i, d in enumerate(prog) if d[1] == "main" and d[0] == "proc"][0]
        t = ("arr", "4", "int", tn)
        x = fresh(prog, rng)
        prog = insert(prog, (di, 3), len(prog[di][3]), (x, ("named", tn)))
        prog, spath = add_stmt(prog, rng, di, ("call", pn, [("var", ("name", x))]))
        path = spath + (2, 0)
    v = fresh(prog, rng)
    if rng.random() < 0.5:
        prog = insert(prog, (di, 3), len(prog[di][3]), (v, _shape(t)))                    # anonymous type
    else:
        tn2 = fresh(prog, rng, (v,))
        prog = insert(prog, (), 0, ("type", tn2, _shape(t)))                              # another declared type
        di, path = di + 1, (path[0] + 1,) + path[1:]
        prog = insert(prog, (di, 3), len(prog[di][3]), (v, ("named", tn2)))
    return put(prog, path, ("var", ("name", v))), "ArgumentsTypeMismatch", ("expr", path)


def shadowed_int(prog, rng):
    """scoping of the predefined type name: a local variable named `int` hides the type `int` for the rest of the
    procedure (local declarations hide global ones, and `int` is a global name like any other), so a later
    `var v: int` uses a variable as a type"""
    di = ensure_proc(prog, rng)
    if "int" in locals_of(prog, di):
        return None
    v = fresh(prog, rng)
    n = len(prog[di][3])
    prog = put(prog, (di, 3), list(prog[di][3]) + [("int", ("named", "int")), (v, ("named", "int"))])
    return prog, "NotAType", ("texpr", (di, 3, n + 1, 1))


# rule probes beyond the 27 one-message-one-rule injectors (reported separately by semtest.py)
PROBES = [negated_boolean]

INJECTORS = [
    undefined_type, not_a_type, redeclaration_as_type, must_be_a_reference_parameter, redeclaration_as_procedure,
    redeclaration_as_parameter, redeclaration_as_variable, main_is_missing, main_is_not_a_procedure,
    main_must_not_have_parameters,
    assignment_has_different_types, assignment_requires_integers, if_condition_must_be_boolean,
    while_condition_must_be_boolean, undefined_procedure, call_of_none_procedure, arguments_type_mismatch,
    argument_must_be_a_variable, too_few_arguments, too_many_arguments, operator_different_types,
    comparison_non_integer, arithmetic_operator_non_integer, undefined_variable, not_a_variable,
    indexing_non_array, indexing_with_non_integer,
]

# all semantic/declaration single faults, including the two about unary minus and name equivalence of array types
ALL_INJECTORS = INJECTORS + [negated_boolean, negated_boolean_operand, argument_other_array_type, undefined_type_of_a_called_parameter]


# single faults whose diagnosis is a known finding (known_findings.jsonl); class predicate = the injector itself
KNOWN_FINDING_INJECTORS = {"C03-int-not-hidden": shadowed_int}


def inject_full(prog, rng, injector=None):
    """(prog', [(kind, culprit), ...]) - every diagnostic SPL prescribes for the variant; None when the injector
    does not apply"""
    inj = injector or rng.choice(ALL_INJECTORS)
    r = inj(list(prog), rng)
    if r is None:
        return None
    exps = [(r[1], r[2])] + (list(r[3]) if len(r) > 3 else [])
    return list(r[0]), exps


def inject(prog, rng, injector=None):
    """(prog', kind) for a random (or the given) injector; None when it does not apply"""
    inj = injector or rng.choice(INJECTORS)
    r = inj(list(prog), rng)
    if r is None:
        return None
    return list(r[0]), r[1]



BINOPS = ("+", "-", "*", "/", "=", "#", "<", "<=", ">", ">=")


def missing_right_operand(prog, rng):
    """(tokens', kind, argument, index of the token in front of the gap, inside_parentheses) - the token list of prog
    with the single-token right operand of a binary operator deleted; SPL tooling should report `expected expression`
    at the end of the operator"""
    toks = splgen.flatten(prog)

    def operand(t):
        return t not in splgen.KEYWORDS and (t[0].isalnum() or t[0] in "_'")

    c = []
    for i in range(2, len(toks) - 1):
        if toks[i - 1] in BINOPS and operand(toks[i]) and toks[i + 1] not in ("[", "(") \
                and (operand(toks[i - 2]) or toks[i - 2] in (")", "]")) and toks[i + 1] in (";", ")", ",", "]") \
                and not (toks[i - 1] == "=" and i >= 3 and toks[i - 3] == "type"):
            c.append(i)
    if not c:
        return None
    i = rng.choice(c)
    # the operand is the last token of its binary expression; is that expression directly enclosed in parentheses?
    depth, j, inside = 0, i - 1, False
    while j >= 0:
        if toks[j] in (")", "]"):
            depth += 1
        elif toks[j] in ("(", "["):
            if depth == 0:
                inside = toks[j] == "(" and toks[i + 1] == ")" and j > 0 and not operand(toks[j - 1])
                break
            depth -= 1
        elif depth == 0 and toks[j] in (";", "{", "}", ":="):
            break
        j -= 1
    return toks[:i] + toks[i + 1:], "ExpectedToken", "expression", i - 1, inside

# --------------------------------------------------------------------------------------------
# token spans of the nodes of a program (indices into splgen.flatten(prog))

def node_spans(prog):
    """dict: path -> (first token index, last token index + 1) for declarations (di,), type expressions,
    parameters (di, 2, i), variable declarations (di, 3, i), statements, expressions and variables (paths as in
    `sites`), plus ('name', di) / ('pname', di, i) / ('vname', di, i) -> index of the declared name's token"""
    out = {}

    def te(t, path, pos):
        n = len(splgen.fl_texpr(t))
        out[path] = (pos, pos + n)
        if t[0] == "array":
            te(t[2], path + (2,), pos + 5)
        return pos + n

    def var(v, path, pos):
        n = len(splgen.fl_var(v))
        out[path] = (pos, pos + n)
        if v[0] == "index":
            p = var(v[1], path + (1,), pos)
            ex(v[2], path + (2,), p + 1)
        return pos + n

    def ex(e, path, pos):
        n = len(splgen.fl_expr(e))
        out[path] = (pos, pos + n)
        k = e[0]
        if k == "var":
            var(e[1], path + (1,), pos)
        elif k in ("neg", "par"):
            ex(e[1], path + (1,), pos + 1)
        elif k == "bin":
            p = ex(e[2], path + (2,), pos)
            ex(e[3], path + (3,), p + 1)
        return pos + n

    def st(s, path, pos):
        n = len(splgen.fl_stmt(s))
        out[path] = (pos, pos + n)
        k = s[0]
        if k == "assign":
            p = var(s[1], path + (1,), pos)
            ex(s[2], path + (2,), p + 1)
        elif k == "call":
            p = pos + 2
            for i, a in enumerate(s[2]):
                if i:
                    p += 1
                p = ex(a, path + (2, i), p)
        elif k == "if":
            p = ex(s[1], path + (1,), pos + 2)
            p = st(s[2], path + (2,), p + 1)
            if s[3] is not None:
                st(s[3], path + (3,), p + 1)
        elif k == "while":
            p = ex(s[1], path + (1,), pos + 2)
            st(s[2], path + (2,), p + 1)
        elif k == "block":
            p = pos + 1
            for i, x in enumerate(s[1]):
                p = st(x, path + (1, i), p)
        return pos + n

    pos = 0
    for di, d in enumerate(prog):
        n = len(splgen.fl_decl(d))
        out[(di,)] = (pos, pos + n)
        out[("name", di)] = pos + 1
        if d[0] == "type":
            te(d[2], (di, 2), pos + 3)
        else:
            p = pos + 3
            for i, (r, pn, t) in enumerate(d[2]):
                if i:
                    p += 1
                start = p
                if r:
                    p += 1
                out[("pname", di, i)] = p
                p = te(t, (di, 2, i, 2), p + 2)
                out[(di, 2, i)] = (start, p)
            p += 2
            for i, (vn, t) in enumerate(d[3]):
                start = p
                out[("vname", di, i)] = p + 1
                p = te(t, (di, 3, i, 1), p + 3) + 1
                out[(di, 3, i)] = (start, p)
            for i, s in enumerate(d[4]):
                p = st(s, (di, 4, i), p)
        pos += n
    return out


def culprit_span(prog, culprit):
    """((first, last + 1), exact) - the culprit's tokens in splgen.flatten(prog); exact = the published range is
    the bare token (diagnostics about a NAME), otherwise it is the node, which starts at the comments in front of
    its first token.  None for ('none',)."""
    sp = node_spans(prog)
    k = culprit[0]
    if k == "none":
        return None
    if k == "decl_name":
        i = sp[("name", culprit[1])]
        return (i, i + 1), True
    if k == "param_name":
        i = sp[("pname", culprit[1], culprit[2])]
        return (i, i + 1), True
    if k == "var_name":
        i = sp[("vname", culprit[1], culprit[2])]
        return (i, i + 1), True
    if k in ("texpr", "ident"):
        a, b = sp[culprit[1]]
        assert b == a + 1, (culprit, a, b)
        return (a, b), True
    return sp[culprit[1]], False


# --------------------------------------------------------------------------------------------
# missing-token syntax faults: one token deleted from a well-typed program

def _closing_tokens(prog):
    """[(token index, kind, message argument)] of the deletable tokens: the `;` that ends an assignment, a call,
    a variable or a type declaration (-> MissingTrailingSemic) and the `)` that closes the argument list of a
    call statement or the condition of an if/while (-> MissingClosing `)`)"""
    sp = node_spans(prog)
    out = []
    for path, v in sp.items():
        if not isinstance(v, tuple) or not path or isinstance(path[0], str):
            continue
        a, b = v
        if len(path) == 1:
            if prog[path[0]][0] == "type":
                out.append((b - 1, "MissingTrailingSemic", None))
            continue
        if len(path) == 3 and path[1] == 3:
            out.append((b - 1, "MissingTrailingSemic", None))
            continue
        if len(path) >= 3 and path[1] == 4:
            node = get(prog, path)
            if not isinstance(node, tuple) or not node or not isinstance(node[0], str):
                continue
            if node[0] == "assign" and len(node) == 3 and node[1][0] in ("name", "index"):
                out.append((b - 1, "MissingTrailingSemic", None))
            elif node[0] == "call" and isinstance(node[2], list):
                out.append((b - 1, "MissingTrailingSemic", None))
                out.append((b - 2, "MissingClosing", ")"))
            elif node[0] in ("if", "while") and len(node) >= 3 and (path + (1,)) in sp and (path + (2,)) in sp:
                out.append((sp[path + (1,)][1], "MissingClosing", ")"))
    return sorted(set(out))


def missing_token(prog, rng):
    """(tokens', kind, argument, index of the token in front of the gap) - the token list of prog with one
    closing token deleted; the diagnostic is expected at the end of the token in front of the gap"""
    toks = splgen.flatten(prog)
    # a `;` in front of an empty statement cannot be missed: the empty statement's `;` takes its place
    c = [x for x in _closing_tokens(prog) if not (x[1] == "MissingTrailingSemic" and toks[x[0] + 1:x[0] + 2] == [";"])]
    if not c:
        return None
    i, kind, arg = rng.choice(c)
    assert toks[i] == (";" if kind == "MissingTrailingSemic" else ")"), (toks[i], kind)
    return toks[:i] + toks[i + 1:], kind, arg, i - 1
