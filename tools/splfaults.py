"""Single-fault injectors on the abstract programs of splgen.well_typed_program (stdlib only).

For each of the 10 build and 17 semantic message kinds of spl_frontend/src/error.rs there is at least one
injector `inj(prog, rng) -> (prog', kind) | None` that turns a well-typed abstract program into a variant that
violates exactly one rule of SPL; `kind` is the name of the message the front end is expected to report
(exactly once, and nothing else).  Where the program offers no site for the fault (no array variable, no
call with arguments, ...), the injector adds the smallest declaration/statement that provides one.

Abstract programs are the nested tuples documented in splgen.py; sites are addressed by generic paths (index
sequences into the nested tuples/lists).
"""
import splgen

BUILD_KINDS = ["UndefinedType", "NotAType", "RedeclarationAsType", "MustBeAReferenceParameter",
               "RedeclarationAsProcedure", "RedeclarationAsParameter", "RedeclarationAsVariable",
               "MainIsMissing", "MainIsNotAProcedure", "MainMustNotHaveParameters"]
SEM_KINDS = ["AssignmentHasDifferentTypes", "AssignmentRequiresIntegers", "IfConditionMustBeBoolean",
             "WhileConditionMustBeBoolean", "UndefinedProcedure", "CallOfNoneProcedure", "ArgumentsTypeMismatch",
             "ArgumentMustBeAVariable", "TooFewArguments", "TooManyArguments", "OperatorDifferentTypes",
             "ComparisonNonInteger", "ArithmeticOperatorNonInteger", "UndefinedVariable", "NotAVariable",
             "IndexingNonArray", "IndexingWithNonInteger"]


# --------------------------------------------------------------------------------------------
# generic paths

def get(node, path):
    for i in path:
        node = node[i]
    return node


def put(node, path, new):
    if not path:
        return new
    i = path[0]
    items = list(node)
    items[i] = put(node[i], path[1:], new)
    return tuple(items) if isinstance(node, tuple) else items


def insert(node, path, index, new):
    """inserts `new` at position `index` of the list at `path`"""
    l = list(get(node, path))
    l.insert(index, new)
    return put(node, path, l)


# --------------------------------------------------------------------------------------------
# environments

def resolve(te, types, creator):
    if te[0] == "named":
        return types.get(te[1])
    return ("arr", te[1], resolve(te[2], types, creator), creator)


def types_before(prog, di):
    types = {"int": "int"}
    for d in prog[:di]:
        if d[0] == "type" and d[1] not in types and d[1] != "main":
            types[d[1]] = resolve(d[2], types, d[1])
    return types


def globals_before(prog, di):
    """names in the global table when declaration di is built"""
    names = set(["int"]) | set(splgen.BUILTINS)
    for d in prog[:di]:
        names.add(d[1])
    return names


def locals_of(prog, di):
    """name -> (type, is_ref or None) of procedure di (first declaration wins)"""
    d = prog[di]
    types = types_before(prog, di)
    out = {}
    for r, n, t in d[2]:
        if n not in out:
            out[n] = (resolve(t, types, n), r)
    for n, t in d[3]:
        if n not in out:
            out[n] = (resolve(t, types, n), None)
    return out


def all_names(prog):
    names = set(["int", "main"]) | set(splgen.BUILTINS) | set(splgen.KEYWORDS)

    def te(t):
        if t[0] == "named":
            names.add(t[1])
        else:
            te(t[2])

    def var(v):
        if v[0] == "name":
            names.add(v[1])
        else:
            var(v[1])
            ex(v[2])

    def ex(e):
        k = e[0]
        if k == "var":
            var(e[1])
        elif k in ("neg", "par"):
            ex(e[1])
        elif k == "bin":
            ex(e[2])
            ex(e[3])

    def st(s):
        k = s[0]
        if k == "assign":
            var(s[1])
            ex(s[2])
        elif k == "call":
            names.add(s[1])
            for a in s[2]:
                ex(a)
        elif k == "if":
            ex(s[1])
            st(s[2])
            if s[3] is not None:
                st(s[3])
        elif k == "while":
            ex(s[1])
            st(s[2])
        elif k == "block":
            for x in s[1]:
                st(x)

    for d in prog:
        names.add(d[1])
        if d[0] == "type":
            te(d[2])
        else:
            for _, n, t in d[2]:
                names.add(n)
                te(t)
            for n, t in d[3]:
                names.add(n)
                te(t)
            for s in d[4]:
                st(s)
    return names


def fresh(prog, rng, extra=()):
    names = all_names(prog) | set(extra)
    for _ in range(100):
        n = rng.choice(["u", "w", "zz", "nope", "ghost", "T", "undef_"]) + str(rng.randrange(0, 1000))
        if n not in names:
            return n
    raise RuntimeError("no fresh name")


# --------------------------------------------------------------------------------------------
# site enumeration

def sites(prog):
    """yields (category, path, node, decl index):
       'texpr' (every type expression, also nested), 'stmt', 'expr' (every expression with its role in the
       4th component extended: (di, role)), 'var' (every variable)"""
    out = []

    def te(t, path, di, role):
        out.append(("texpr", path, t, (di, role)))
        if t[0] == "array":
            te(t[2], path + (2,), di, role)

    def var(v, path, di, role):
        out.append(("var", path, v, (di, role)))
        if v[0] == "index":
            var(v[1], path + (1,), di, "array")
            ex(v[2], path + (2,), di, "index")

    def ex(e, path, di, role):
        out.append(("expr", path, e, (di, role)))
        k = e[0]
        if k == "var":
            var(e[1], path + (1,), di, "expr")
        elif k in ("neg", "par"):
            ex(e[1], path + (1,), di, "int")
        elif k == "bin":
            ex(e[2], path + (2,), di, "int")
            ex(e[3], path + (3,), di, "int")

    def st(s, path, di):
        out.append(("stmt", path, s, (di, None)))
        k = s[0]
        if k == "assign":
            var(s[1], path + (1,), di, "lhs")
            ex(s[2], path + (2,), di, "rhs")
        elif k == "call":
            for i, a in enumerate(s[2]):
                ex(a, path + (2, i), di, ("arg", s[1], i))
        elif k == "if":
            ex(s[1], path + (1,), di, "cond")
            st(s[2], path + (2,), di)
            if s[3] is not None:
                st(s[3], path + (3,), di)
        elif k == "while":
            ex(s[1], path + (1,), di, "cond")
            st(s[2], path + (2,), di)
        elif k == "block":
            for i, x in enumerate(s[1]):
                st(x, path + (1, i), di)

    for di, d in enumerate(prog):
        if d[0] == "type":
            te(d[2], (di, 2), di, "type")
        else:
            for i, (_, _, t) in enumerate(d[2]):
                te(t, (di, 2, i, 2), di, "param")
            for i, (_, t) in enumerate(d[3]):
                te(t, (di, 3, i, 1), di, ("var", i))
            for i, s in enumerate(d[4]):
                st(s, (di, 4, i), di)
    return out


def procs(prog):
    return [i for i, d in enumerate(prog) if d[0] == "proc"]


def map_calls(prog, name, f):
    """rewrites every call statement of `name` with f(stmt)"""
    for cat, path, node, _ in sites(prog):
        if cat == "stmt" and node[0] == "call" and node[1] == name:
            prog = put(prog, path, f(node))
    return prog


def add_stmt(prog, rng, di, s):
    d = prog[di]
    return insert(prog, (di, 4), rng.randrange(0, len(d[4]) + 1), s)


def int_vars(prog, di):
    return [n for n, (t, _) in locals_of(prog, di).items() if t == "int"]


def array_vars(prog, di):
    return [n for n, (t, _) in locals_of(prog, di).items() if isinstance(t, tuple)]


def ensure_proc(prog, rng):
    """index of some procedure"""
    ps = procs(prog)
    return rng.choice(ps)  # a well-typed program has `main`


def ensure_int_var(prog, rng, di):
    """(prog', name) with an int variable in procedure di"""
    c = int_vars(prog, di)
    if c and rng.random() < 0.8:
        return prog, rng.choice(c)
    n = fresh(prog, rng)
    return insert(prog, (di, 3), len(prog[di][3]), (n, ("named", "int"))), n


def ensure_array_var(prog, rng, di):
    c = array_vars(prog, di)
    if c and rng.random() < 0.8:
        return prog, rng.choice(c)
    n = fresh(prog, rng)
    te = ("array", str(rng.randrange(1, 9)), ("named", "int"))
    return insert(prog, (di, 3), len(prog[di][3]), (n, te)), n


def bool_expr(rng):
    return ("bin", rng.choice(["=", "#", "<", "<=", ">", ">="]), ("lit", str(rng.randrange(0, 9))),
            ("lit", str(rng.randrange(0, 9))))


# --------------------------------------------------------------------------------------------
# build faults

def undefined_type(prog, rng):
    c = [s for s in sites(prog) if s[0] == "texpr" and s[2][0] == "named"]
    if not c:
        return None
    _, path, _, _ = rng.choice(c)
    return put(prog, path, ("named", fresh(prog, rng))), "UndefinedType"


def not_a_type(prog, rng):
    c = [s for s in sites(prog) if s[0] == "texpr" and s[2][0] == "named"]
    if not c:
        return None
    _, path, _, (di, role) = rng.choice(c)
    cands = [n for n in globals_before(prog, di) if n not in types_before(prog, di)]   # procedures
    if isinstance(role, tuple) and rng.random() < 0.5:
        # a variable declaration sees the parameters and the variables before it
        d = prog[di]
        seen = [n for _, n, _ in d[2]] + [n for n, _ in d[3][:role[1]]]
        if seen:
            cands = seen
    return put(prog, path, ("named", rng.choice(sorted(cands)))), "NotAType"


def redeclaration_as_type(prog, rng):
    di = rng.randrange(0, len(prog) + 1)
    names = sorted(globals_before(prog, di) - {"main"} - ({"int"} if rng.random() < 0.9 else set()))
    name = rng.choice(names)
    return insert(prog, (), di, ("type", name, ("named", "int"))), "RedeclarationAsType"


def must_be_a_reference_parameter(prog, rng):
    c = []
    for di in procs(prog):
        loc = locals_of(prog, di)
        for i, (r, n, t) in enumerate(prog[di][2]):
            if r and isinstance(loc[n][0], tuple) and [x[1] for x in prog[di][2]].index(n) == i:
                c.append((di, i))
    if c and rng.random() < 0.8:
        di, i = rng.choice(c)
        r, n, t = prog[di][2][i]
        return put(prog, (di, 2, i), (False, n, t)), "MustBeAReferenceParameter"
    # add a procedure with a non-reference array parameter (anonymous or named array type)
    pn, an = fresh(prog, rng), fresh(prog, rng)
    te = ("array", "3", ("named", "int"))
    named = [n for n, t in types_before(prog, len(prog)).items() if isinstance(t, tuple)]
    if named and rng.random() < 0.5:
        te = ("named", rng.choice(named))
    return list(prog) + [("proc", pn, [(False, an, te)], [], [])], "MustBeAReferenceParameter"


def redeclaration_as_procedure(prog, rng):
    di = rng.randrange(0, len(prog) + 1)
    names = sorted(globals_before(prog, di) - ({"int"} if rng.random() < 0.9 else set()))
    name = rng.choice(names)
    q = fresh(prog, rng)
    body = rng.choice([[], [("assign", ("name", q), ("lit", "1"))]])
    vars_ = [(q, ("named", "int"))] if body else []
    return insert(prog, (), di, ("proc", name, [], vars_, body)), "RedeclarationAsProcedure"


def redeclaration_as_parameter(prog, rng):
    c = [di for di in procs(prog) if prog[di][2]]
    if not c:
        pn, an = fresh(prog, rng), fresh(prog, rng)
        return list(prog) + [("proc", pn, [(False, an, ("named", "int")), (False, an, ("named", "int"))], [], [])], \
            "RedeclarationAsParameter"
    di = rng.choice(c)
    d = prog[di]
    _, n, _ = rng.choice(d[2])
    prog = put(prog, (di, 2), list(d[2]) + [(False, n, ("named", "int"))])
    prog = map_calls(prog, d[1], lambda s: ("call", s[1], list(s[2]) + [("lit", "0")]))
    return prog, "RedeclarationAsParameter"


def redeclaration_as_variable(prog, rng):
    c = [di for di in procs(prog) if prog[di][2] or prog[di][3]]
    if not c:
        di = ensure_proc(prog, rng)
        n = fresh(prog, rng)
        return put(prog, (di, 3), [(n, ("named", "int")), (n, ("named", "int"))]), "RedeclarationAsVariable"
    di = rng.choice(c)
    d = prog[di]
    n = rng.choice([x[1] for x in d[2]] + [x[0] for x in d[3]])
    return put(prog, (di, 3), list(d[3]) + [(n, ("named", "int"))]), "RedeclarationAsVariable"


def _rename_main(prog, new):
    out = []
    for d in prog:
        if d[0] == "proc" and d[1] == "main":
            d = ("proc", new) + tuple(d[2:])
        out.append(d)
    return map_calls(out, "main", lambda s: ("call", new, s[2]))


def main_is_missing(prog, rng):
    if rng.random() < 0.5:
        return _rename_main(prog, fresh(prog, rng)), "MainIsMissing"
    # delete main; calls of main (recursion) become empty statements
    out = [d for d in prog if d[1] != "main"]
    return map_calls(out, "main", lambda s: ("empty",)), "MainIsMissing"


def main_is_not_a_procedure(prog, rng):
    out = []
    for d in prog:
        if d[1] == "main":
            types = types_before(prog, len(out))
            d = ("type", "main", ("named", rng.choice(sorted(types))))
        out.append(d)
    return map_calls(out, "main", lambda s: ("empty",)), "MainIsNotAProcedure"


def main_must_not_have_parameters(prog, rng):
    di = [i for i, d in enumerate(prog) if d[1] == "main"][0]
    n = fresh(prog, rng)
    is_ref = rng.random() < 0.3
    prog = put(prog, (di, 2), [(is_ref, n, ("named", "int"))])
    if is_ref:
        # calls need a variable argument; drop recursive calls instead
        return map_calls(prog, "main", lambda s: ("empty",)), "MainMustNotHaveParameters"
    return map_calls(prog, "main", lambda s: ("call", "main", [("lit", "0")])), "MainMustNotHaveParameters"


# --------------------------------------------------------------------------------------------
# semantic faults

def assignment_has_different_types(prog, rng):
    c = [s for s in sites(prog) if s[0] == "stmt" and s[2][0] == "assign"]
    if c and rng.random() < 0.8:
        _, path, s, _ = rng.choice(c)
        return put(prog, path, ("assign", s[1], ("bin", "<", s[2], ("lit", "1")))), "AssignmentHasDifferentTypes"
    di = ensure_proc(prog, rng)
    if rng.random() < 0.5:
        prog, a = ensure_array_var(prog, rng, di)
        return add_stmt(prog, rng, di, ("assign", ("name", a), ("lit", "1"))), "AssignmentHasDifferentTypes"
    prog, v = ensure_int_var(prog, rng, di)
    return add_stmt(prog, rng, di, ("assign", ("name", v), bool_expr(rng))), "AssignmentHasDifferentTypes"


def assignment_requires_integers(prog, rng):
    di = ensure_proc(prog, rng)
    prog, a = ensure_array_var(prog, rng, di)
    return add_stmt(prog, rng, di, ("assign", ("name", a), ("var", ("name", a)))), "AssignmentRequiresIntegers"


def _condition(kind, stmt_kind):
    def inj(prog, rng):
        c = [s for s in sites(prog) if s[0] == "stmt" and s[2][0] == stmt_kind]
        if c and rng.random() < 0.8:
            _, path, s, _ = rng.choice(c)
            cond = s[1]
            new = rng.choice([cond[2], ("par", cond[3]), ("bin", "+", cond[2], cond[3])])
            return put(prog, path + (1,), new), kind
        di = ensure_proc(prog, rng)
        e = ("lit", str(rng.randrange(0, 5)))
        s = ("if", e, ("empty",), None) if stmt_kind == "if" else ("while", e, ("empty",))
        return add_stmt(prog, rng, di, s), kind
    return inj


if_condition_must_be_boolean = _condition("IfConditionMustBeBoolean", "if")
while_condition_must_be_boolean = _condition("WhileConditionMustBeBoolean", "while")


def undefined_procedure(prog, rng):
    c = [s for s in sites(prog) if s[0] == "stmt" and s[2][0] == "call"]
    if c and rng.random() < 0.7:
        _, path, s, _ = rng.choice(c)
        return put(prog, path, ("call", fresh(prog, rng), s[2])), "UndefinedProcedure"
    di = ensure_proc(prog, rng)
    return add_stmt(prog, rng, di, ("call", fresh(prog, rng), [])), "UndefinedProcedure"


def call_of_none_procedure(prog, rng):
    di = ensure_proc(prog, rng)
    cands = sorted(set(types_before(prog, len(prog))) - set(d[1] for d in prog if d[0] == "proc")
                   - set(locals_of(prog, di))) + sorted(locals_of(prog, di))
    name = rng.choice(cands)
    c = [s for s in sites(prog) if s[0] == "stmt" and s[2][0] == "call" and s[3][0] == di]
    if c and rng.random() < 0.6:
        _, path, s, _ = rng.choice(c)
        return put(prog, path, ("call", name, s[2])), "CallOfNoneProcedure"
    return add_stmt(prog, rng, di, ("call", name, [])), "CallOfNoneProcedure"


def _signature(prog, name, upto):
    """[(is_ref, type)] of the procedure `name` as seen from declaration `upto` (own declaration included)"""
    for i, d in enumerate(prog[:upto + 1]):
        if d[1] == name:
            if d[0] != "proc":
                return None
            loc = locals_of(prog, i)
            seen, out = set(), []
            for r, n, _ in d[2]:
                out.append((r, loc[n][0] if n not in seen else None))
                seen.add(n)
            return out
    if name in splgen.BUILTINS:
        return [(r, "int") for r in splgen.BUILTINS[name]]
    return None


def arguments_type_mismatch(prog, rng):
    c = []
    for s in sites(prog):
        if s[0] == "expr" and isinstance(s[3][1], tuple):
            di, (_, callee, i) = s[3]
            if callee in locals_of(prog, di):
                continue
            sig = _signature(prog, callee, di)
            if sig and i < len(sig) and not sig[i][0] and sig[i][1] == "int":
                c.append(s)
    if c and rng.random() < 0.8:
        _, path, e, _ = rng.choice(c)
        return put(prog, path, ("bin", rng.choice(["<", "=", "#"]), e, ("lit", "7"))), "ArgumentsTypeMismatch"
    di = ensure_proc(prog, rng)
    callee = rng.choice(["printi", "printc", "clearAll"])
    if callee in locals_of(prog, di):
        return None
    return add_stmt(prog, rng, di, ("call", callee, [bool_expr(rng)])), "ArgumentsTypeMismatch"


def argument_must_be_a_variable(prog, rng):
    c = []
    for s in sites(prog):
        if s[0] == "expr" and isinstance(s[3][1], tuple):
            di, (_, callee, i) = s[3]
            if callee in locals_of(prog, di):
                continue
            sig = _signature(prog, callee, di)
            if sig and i < len(sig) and sig[i][0] and sig[i][1] == "int":
                c.append(s)
    if c and rng.random() < 0.8:
        _, path, e, _ = rng.choice(c)
        new = rng.choice([("par", e), ("bin", "+", e, ("lit", "0")), ("neg", e), ("lit", "5")])
        return put(prog, path, new), "ArgumentMustBeAVariable"
    di = ensure_proc(prog, rng)
    callee = rng.choice(["readi", "readc", "time"])
    if callee in locals_of(prog, di):
        return None
    return add_stmt(prog, rng, di, ("call", callee, [("lit", "1")])), "ArgumentMustBeAVariable"


def _callable_calls(prog, min_args):
    out = []
    for s in sites(prog):
        if s[0] == "stmt" and s[2][0] == "call" and len(s[2][2]) >= min_args:
            di = s[3][0]
            if s[2][1] not in locals_of(prog, di) and _signature(prog, s[2][1], di) is not None:
                out.append(s)
    return out


def too_few_arguments(prog, rng):
    c = _callable_calls(prog, 1)
    if c and rng.random() < 0.8:
        _, path, s, _ = rng.choice(c)
        return put(prog, path, ("call", s[1], list(s[2])[:-1])), "TooFewArguments"
    di = ensure_proc(prog, rng)
    callee = rng.choice(["printi", "setPixel", "drawLine"])
    if callee in locals_of(prog, di):
        return None
    n = {"printi": 1, "setPixel": 3, "drawLine": 5}[callee]
    return add_stmt(prog, rng, di, ("call", callee, [("lit", "1")] * rng.randrange(0, n))), "TooFewArguments"


def too_many_arguments(prog, rng):
    c = _callable_calls(prog, 0)
    if c and rng.random() < 0.8:
        _, path, s, _ = rng.choice(c)
        extra = rng.choice([("lit", "1"), bool_expr(rng)])
        return put(prog, path, ("call", s[1], list(s[2]) + [extra])), "TooManyArguments"
    di = ensure_proc(prog, rng)
    if "exit" in locals_of(prog, di):
        return None
    return add_stmt(prog, rng, di, ("call", "exit", [("lit", "1")])), "TooManyArguments"


def _int_expr_sites(prog):
    """expressions that stand where an int is required and any int expression may stand"""
    out = []
    for s in sites(prog):
        if s[0] != "expr":
            continue
        di, role = s[3]
        if role in ("rhs", "int", "index"):
            out.append(s)
        elif isinstance(role, tuple):
            _, callee, i = role
            if callee in locals_of(prog, di):
                continue
            sig = _signature(prog, callee, di)
            if sig and i < len(sig) and not sig[i][0] and sig[i][1] == "int":
                out.append(s)
    return out


def _operator(kind, make):
    def inj(prog, rng):
        c = _int_expr_sites(prog)
        if c and rng.random() < 0.85:
            _, path, e, _ = rng.choice(c)
            return put(prog, path, ("par", make(rng, e))), kind
        di = ensure_proc(prog, rng)
        prog, v = ensure_int_var(prog, rng, di)
        return add_stmt(prog, rng, di, ("assign", ("name", v), make(rng, ("lit", "2")))), kind
    return inj


operator_different_types = _operator(
    "OperatorDifferentTypes",
    lambda rng, e: rng.choice([("bin", rng.choice("+-*/"), ("par", bool_expr(rng)), ("par", e)),
                               ("bin", rng.choice("+-*/"), ("par", e), ("par", bool_expr(rng)))]))
arithmetic_operator_non_integer = _operator(
    "ArithmeticOperatorNonInteger",
    lambda rng, e: ("bin", rng.choice("+-*/"), ("par", bool_expr(rng)), ("par", bool_expr(rng))))


def comparison_non_integer(prog, rng):
    c = [s for s in sites(prog) if s[0] == "expr" and s[3][1] == "cond"]
    new = ("bin", rng.choice(["=", "#", "<", "<=", ">", ">="]), ("par", bool_expr(rng)), ("par", bool_expr(rng)))
    if c and rng.random() < 0.8:
        _, path, _, _ = rng.choice(c)
        return put(prog, path, new), "ComparisonNonInteger"
    di = ensure_proc(prog, rng)
    if rng.random() < 0.5:
        prog, a = ensure_array_var(prog, rng, di)
        new = ("bin", "=", ("var", ("name", a)), ("var", ("name", a)))
    return add_stmt(prog, rng, di, ("if", new, ("empty",), None)), "ComparisonNonInteger"


def undefined_variable(prog, rng):
    c = [s for s in sites(prog) if s[0] == "var" and s[2][0] == "name"]
    if c and rng.random() < 0.85:
        _, path, _, _ = rng.choice(c)
        return put(prog, path, ("name", fresh(prog, rng))), "UndefinedVariable"
    di = ensure_proc(prog, rng)
    return add_stmt(prog, rng, di, ("assign", ("name", fresh(prog, rng)), ("lit", "1"))), "UndefinedVariable"


def not_a_variable(prog, rng):
    c = [s for s in sites(prog) if s[0] == "var" and s[2][0] == "name"]
    if c and rng.random() < 0.85:
        _, path, _, (di, _) = rng.choice(c)
    else:
        di = ensure_proc(prog, rng)
        prog, v = ensure_int_var(prog, rng, di)
        prog = add_stmt(prog, rng, di, ("assign", ("name", v), ("var", ("name", v))))
        c = [s for s in sites(prog) if s[0] == "var" and s[2][0] == "name" and s[3][0] == di]
        _, path, _, _ = rng.choice(c)
    # the global names visible in every procedure body: all declarations (first wins), minus local names
    names = set(["int"]) | set(splgen.BUILTINS) | set(d[1] for d in prog if d[1] != "main" or d[0] == "proc")
    names -= set(locals_of(prog, di))
    return put(prog, path, ("name", rng.choice(sorted(names)))), "NotAVariable"


def indexing_non_array(prog, rng):
    c = []
    for s in sites(prog):
        if s[0] == "var" and s[2][0] == "name" and s[3][1] in ("lhs", "expr"):
            if locals_of(prog, s[3][0]).get(s[2][1], (None,))[0] == "int":
                c.append(s)
    if c and rng.random() < 0.85:
        _, path, v, _ = rng.choice(c)
        return put(prog, path, ("index", v, ("lit", str(rng.randrange(0, 4))))), "IndexingNonArray"
    di = ensure_proc(prog, rng)
    prog, v = ensure_int_var(prog, rng, di)
    return add_stmt(prog, rng, di, ("assign", ("index", ("name", v), ("lit", "0")), ("lit", "1"))), "IndexingNonArray"


def indexing_with_non_integer(prog, rng):
    c = [s for s in sites(prog) if s[0] == "var" and s[2][0] == "index"]
    if c and rng.random() < 0.8:
        _, path, v, _ = rng.choice(c)
        new = rng.choice([bool_expr(rng), ("bin", "<", v[2], ("lit", "3")), ("par", bool_expr(rng))])
        return put(prog, path, ("index", v[1], new)), "IndexingWithNonInteger"
    di = ensure_proc(prog, rng)
    prog, a = ensure_array_var(prog, rng, di)
    loc = locals_of(prog, di)
    t, v = loc[a][0], ("name", a)
    first = True
    while isinstance(t, tuple):
        v = ("index", v, bool_expr(rng) if first else ("lit", "0"))
        first = False
        t = t[2]
    if t != "int":
        return None
    return add_stmt(prog, rng, di, ("assign", v, ("lit", "1"))), "IndexingWithNonInteger"


def negated_boolean(prog, rng):
    """rule probe without a message of its own: unary minus applied to a comparison.  SPL requires an integer
    operand (the reference compiler reports the arithmetic-operand error)."""
    c = [s for s in sites(prog) if s[0] == "expr" and s[3][1] == "cond"]
    if c and rng.random() < 0.8:
        _, path, e, _ = rng.choice(c)
        return put(prog, path, ("neg", ("par", e))), "ArithmeticOperatorNonInteger"
    di = ensure_proc(prog, rng)
    return add_stmt(prog, rng, di, ("if", ("neg", ("par", bool_expr(rng))), ("empty",), None)), \
        "ArithmeticOperatorNonInteger"


# probes of SPL rules beyond the 27 one-message-one-rule injectors (reported separately by semtest.py)
PROBES = [negated_boolean]

INJECTORS = [
    undefined_type, not_a_type, redeclaration_as_type, must_be_a_reference_parameter, redeclaration_as_procedure,
    redeclaration_as_parameter, redeclaration_as_variable, main_is_missing, main_is_not_a_procedure,
    main_must_not_have_parameters,
    assignment_has_different_types, assignment_requires_integers, if_condition_must_be_boolean,
    while_condition_must_be_boolean, undefined_procedure, call_of_none_procedure, arguments_type_mismatch,
    argument_must_be_a_variable, too_few_arguments, too_many_arguments, operator_different_types,
    comparison_non_integer, arithmetic_operator_non_integer, undefined_variable, not_a_variable,
    indexing_non_array, indexing_with_non_integer,
]


def inject(prog, rng, injector=None):
    """(prog', kind) for a random (or the given) injector; None when it does not apply"""
    inj = injector or rng.choice(INJECTORS)
    r = inj(list(prog), rng)
    if r is None:
        return None
    p, kind = r
    return list(p), kind
