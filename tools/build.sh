#!/bin/bash
# Serialised builds of everything a check needs: Coq development, extracted judge, Rust harness (and the server with `server`).
cd "$(dirname "$0")/.." || exit 2
python3 - "$@" <<'PY'
import sys
sys.path.insert(0, "tools")
import common
exe, log = common.build_judge()
print("judge:", exe or log[-3000:])
d, log = common.build_harness()
print("harness:", d or log[-3000:])
if "server" in sys.argv[1:]:
    s, log = common.build_server()
    print("server:", s or log[-3000:])
PY
