"""Shared helpers of the navigation properties C12 (goto.rs) and C13 (references.rs).

* documents: well-typed programs of splgen (+ name-shadowing variants splgen never produces) rendered in random
  layouts with every token located in the text; the malformed stream of splgen;
* positions: LSP (line, UTF-16 column) of every character index, independent of the implementation;
* expected answers from splscope's bindings (the ORACLE: computed from the derivation only);
* a pipelined driver for the real server (requests of one document are written in windows, responses are read in
  order; the server answers strictly sequentially, so the first unanswered request is the one that made it mute);
* the extracted / kernel judge commands 30-36 (layout: cmd npos (line col)* text - see coq/theories/Judge/RunNav.v);
* judge command 37: the instances of the Coq statements C12_full_statement / C13_full_statement (Spec/Nav.v) on a
  document, decided by the extracted model (full_statement_instances).
"""
import json
import os
import queue
from concurrent.futures import ThreadPoolExecutor

import common
import lspclient
import splgen
import splscope

MUTE = "MUTE"          # no response: the handler panicked (or the process died)
CMD = {"declaration": 30, "definition": 31, "typeDefinition": 32, "implementation": 33,
       "references": 34, "rename": 35, "prepareRename": 36}
NEW_NAME = "renamed"


# ------------------------------------------------------------------------------------------------
# positions

def u16(c):
    return 2 if ord(c) >= 0x10000 else 1


def positions(text):
    """pos[i] = LSP position of character index i (0 <= i <= len(text)); line ends: LF, CRLF, lone CR."""
    pos = []
    line = col = 0
    i, n = 0, len(text)
    while i < n:
        c = text[i]
        pos.append((line, col))
        if c == "\n":
            line, col = line + 1, 0
        elif c == "\r":
            if i + 1 < n and text[i + 1] == "\n":
                pos.append((line, col + 1))     # the LF of a CRLF is never addressed; keep the table total
                i += 1
            line, col = line + 1, 0
        else:
            col += u16(c)
        i += 1
    pos.append((line, col))
    return pos


def locate(text, tokens):
    """character spans [start, end) of the token spellings in a text produced by splgen.render (gaps hold only
    white space and `//` comment lines)"""
    spans = []
    i = 0
    for t in tokens:
        while True:
            if text[i] in " \t\r\n":
                i += 1
            elif text.startswith("//", i):
                j = text.find("\n", i)
                i = len(text) if j < 0 else j + 1
            else:
                break
        if not text.startswith(t, i):
            raise ValueError("token %r not found at %d: %r" % (t, i, text[i:i + 20]))
        spans.append((i, i + len(t)))
        i += len(t)
    return spans


def is_ident(sp):
    return (sp[0].isalpha() or sp[0] == "_") and sp not in splgen.KEYWORDS and all(c.isalnum() or c == "_" for c in sp)


# ------------------------------------------------------------------------------------------------
# shadowing variants of well-typed programs (names splgen keeps apart)

def _rn_var(v, a, b):
    if v[0] == "name":
        return ("name", b if v[1] == a else v[1])
    return ("index", _rn_var(v[1], a, b), _rn_expr(v[2], a, b))


def _rn_expr(e, a, b):
    k = e[0]
    if k == "lit":
        return e
    if k == "var":
        return ("var", _rn_var(e[1], a, b))
    if k in ("neg", "par"):
        return (k, _rn_expr(e[1], a, b))
    return ("bin", e[1], _rn_expr(e[2], a, b), _rn_expr(e[3], a, b))


def _rn_stmt(s, a, b):
    k = s[0]
    if k == "empty":
        return s
    if k == "assign":
        return ("assign", _rn_var(s[1], a, b), _rn_expr(s[2], a, b))
    if k == "call":
        return ("call", s[1], [_rn_expr(x, a, b) for x in s[2]])
    if k == "if":
        return ("if", _rn_expr(s[1], a, b), _rn_stmt(s[2], a, b), None if s[3] is None else _rn_stmt(s[3], a, b))
    if k == "while":
        return ("while", _rn_expr(s[1], a, b), _rn_stmt(s[2], a, b))
    return ("block", [_rn_stmt(x, a, b) for x in s[1]])


def _calls(s, out):
    k = s[0]
    if k == "call":
        out.add(s[1])
    elif k == "if":
        _calls(s[2], out)
        if s[3] is not None:
            _calls(s[3], out)
    elif k == "while":
        _calls(s[2], out)
    elif k == "block":
        for x in s[1]:
            _calls(x, out)


def _tnames(te):
    return {te[1]} if te[0] == "named" else _tnames(te[2])


def rename_local(d, old, new):
    _, name, params, vars_, stmts = d
    return ("proc", name, [(r, new if n == old else n, t) for r, n, t in params],
            [(new if n == old else n, t) for n, t in vars_], [_rn_stmt(s, old, new) for s in stmts])


def shadow_variants(prog, rng, p=0.3):
    """renames locals so that they collide with (a) the enclosing procedure, (b) a type (or `int`), (c) another
    procedure (user-defined or predefined) - all legal in SPL (locals shadow globals; a declaration's own type
    expression is resolved before the name is entered).  Each kind is applied with probability p.  These are the
    classes of the findings repaired by /repo b909979.  Returns (prog, list of kinds applied)."""
    prog = list(prog)
    applied = []
    procs = [i for i, d in enumerate(prog) if d[0] == "proc"]
    for kind in ("own-proc", "type", "other-proc"):
        if not procs or rng.random() >= p:
            continue
        pi = rng.choice(procs)
        _, pname, params, vars_, stmts = prog[pi]
        local = [n for _, n, _ in params] + [n for n, _ in vars_]
        if not local:
            continue
        called = set()
        for s in stmts:
            _calls(s, called)
        v = rng.choice(local)
        if kind == "own-proc":
            new = pname
            ok = pname not in called
        elif kind == "other-proc":
            cands = [d[1] for d in prog if d[0] == "proc" and d[1] != pname] + list(splgen.BUILTINS)
            new = rng.choice(cands)
            ok = new not in called
        else:
            cands = [d[1] for d in prog[:pi] if d[0] == "type"] + (["int"] if rng.random() < 0.3 else [])
            if not cands:
                continue
            new = rng.choice(cands)
            # variable declarations resolve their type with the locals entered so far: none of those that follow
            # the renamed local may mention the type; parameters resolve globally
            vnames = [n for n, _ in vars_]
            later = vars_[vnames.index(v) + 1:] if v in vnames else vars_
            ok = all(new not in _tnames(t) for _, t in later)
        if ok and new not in local:
            prog[pi] = rename_local(prog[pi], v, new)
            applied.append(kind)
    return prog, applied


def parameter_named_like_a_later_parameters_type(prog, rng):
    """a valid variant: an earlier PARAMETER gets the name of the type (a declared type or `int`) that a LATER parameter of
    the same procedure is declared with - parameter types are resolved in the global table, so the later parameter keeps its
    type; (variable declarations resolve their type with the locals first, so none of them may mention that type).  None when
    no procedure qualifies."""
    cands = []
    for pi, d in enumerate(prog):
        if d[0] != "proc":
            continue
        _, pname, params, vars_, stmts = d
        local = [n for _, n, _ in params] + [n for n, _ in vars_]
        for j in range(1, len(params)):
            for tn in _tnames(params[j][2]):
                if tn in local or any(tn in _tnames(ty) for _, ty in vars_):
                    continue
                for i in range(j):
                    cands.append((pi, params[i][1], tn))
    if not cands:
        return None
    pi, old, new = rng.choice(cands)
    prog = list(prog)
    prog[pi] = rename_local(prog[pi], old, new)
    return prog



def legal_shadowing(prog, rng):
    """one of the legal shadowings above, applied to a well-typed program (used by splgen.well_typed_program itself, so that
    every program-based check sees such programs)"""
    prog, _ = shadow_variants(prog, rng, p=0.5)
    if rng.random() < 0.5:
        prog = parameter_named_like_a_later_parameters_type(prog, rng) or prog
    return prog


# ------------------------------------------------------------------------------------------------
# documents

class Doc:
    def __init__(self, kind, text):
        self.kind, self.text = kind, text
        self.prog = self.tokens = self.spans = self.occs = self.infos = self.scope = None
        self.variants = []
        self.pos = positions(text)

    def lsp(self, i):
        return self.pos[i]

    def span_range(self, k):
        """LSP range (l1, c1, l2, c2) of token k"""
        a, b = self.spans[k]
        return self.pos[a] + self.pos[b]


def xref_program(rng):
    """a well-typed program rich in cross-declaration references: 4-7 declarations of splgen with bodies cut to
    at most 2 statements, then calls between the user-defined procedures (also to procedures declared later, and
    recursive ones) whose array arguments are fresh locals declared with the parameter's type name"""
    prog, env = splgen.well_typed_program(rng, ndecls=rng.randrange(4, 8), shadow=False)
    prog = [d if d[0] == "type" else ("proc", d[1], d[2], d[3], d[4][:rng.randrange(0, 3)]) for d in prog]
    type_at = {d[1]: i for i, d in enumerate(prog) if d[0] == "type"}
    procs = [(i, d) for i, d in enumerate(prog) if d[0] == "proc"]
    for pi, _ in procs:
        _, pname, params, vars_, stmts = prog[pi]
        vars_, stmts = list(vars_), list(stmts)
        for qi, q in procs:
            if q[1] == "main" or rng.random() < 0.45:
                continue
            local = {n for _, n, _ in params} | {n for n, _ in vars_}
            if q[1] in local:
                continue       # shadowed
            args, new_vars, ok = [], [], True
            for is_ref, _, te in q[2]:
                tname = te[1]
                used = local | {n for n, _ in new_vars} | set(env.types) | {pname}
                if env.types.get(tname) == "int":
                    ints = [n for n, t in vars_ if t == ("named", "int")] + [n for r, n, t in params if t == ("named", "int")]
                    if is_ref or rng.random() < 0.5:
                        if not ints:
                            v = splgen._fresh(rng, used | set(env.procs))
                            new_vars.append((v, ("named", "int")))
                            ints = [v]
                        args.append(("var", ("name", rng.choice(ints))))
                    else:
                        args.append(("lit", str(rng.randrange(0, 50))))
                elif tname in type_at and type_at[tname] < pi:
                    v = splgen._fresh(rng, used | set(env.procs))
                    new_vars.append((v, ("named", tname)))
                    args.append(("var", ("name", v)))
                else:
                    ok = False
                    break
            if ok:
                vars_ += new_vars
                stmts.insert(rng.randrange(0, len(stmts) + 1), ("call", q[1], args))
        prog[pi] = ("proc", pname, params, vars_, stmts)
    return prog


def valid_doc(rng, ndecls=None, xref=False, p_shadow=0.3):
    if xref:
        prog = xref_program(rng)
    else:
        prog, _ = splgen.well_typed_program(rng, ndecls=ndecls)
    prog, variants = shadow_variants(prog, rng, p_shadow)
    tokens = splgen.flatten(prog)
    newline = rng.choice(["\n", "\n", "\r\n"])
    text = splgen.render(tokens, rng, comments=rng.choice([0.0, 0.08, 0.25]), dense=rng.random() < 0.12, newline=newline)
    d = Doc("valid", text)
    d.prog, d.tokens, d.variants, d.xref = prog, tokens, variants, xref
    d.spans = locate(text, tokens)
    d.occs, d.infos, d.scope = splscope.analyse(prog)
    # forward calls: splscope resolves a called name with the procedures declared so far; SPL enters all
    # declarations before it analyses the bodies, so a call may precede the procedure's declaration
    pdecl = {o["name"]: o for o in d.occs if o["role"] == "proc_decl" and o["is_decl"]}
    for o in d.occs:
        if o["role"] == "call" and o["kind"] is None and o["name"] in pdecl:
            o.update(kind="proc", bind_tok=pdecl[o["name"]]["tok"], bind_decl=pdecl[o["name"]]["decl"])
    d.occ_at = {o["tok"]: o for o in d.occs}
    return d


def malformed_doc(rng):
    while True:
        kind, text = splgen.any_document(rng)
        if kind != "valid":
            return Doc(kind, text)


def valid_positions(d, rng, every_column=True):
    """[(line, col, token index or None, what)]: every identifier occurrence at every column inside it and at the
    column after it, one position per other token, gaps, line ends, overshooting columns and lines"""
    out = []
    for k, (a, b) in enumerate(d.spans):
        if is_ident(d.tokens[k]):
            cols = range(a, b) if every_column else sorted({a, b - 1, rng.randrange(a, b)})
            for i in cols:
                out.append(d.pos[i] + (k, "ident"))
            out.append(d.pos[b] + (None, "after-ident"))
        else:
            out.append(d.pos[rng.randrange(a, b)] + (None, "token:" + ("kw" if d.tokens[k].isalpha() else "sym")))
    covered = set()
    for a, b in d.spans:
        covered.update(range(a, b))
    gaps = [i for i in range(len(d.text)) if i not in covered]
    for i in rng.sample(gaps, min(len(gaps), 25)):
        out.append(d.pos[i] + (None, "comment" if not d.text[i].isspace() or _in_comment(d.text, i) else "whitespace"))
    nlines = d.pos[-1][0] + 1
    for _ in range(4):
        line = rng.randrange(nlines)
        width = max([c for (l, c) in d.pos if l == line] or [0])
        out.append((line, width + rng.randrange(0, 6), None, "line-end/overshoot"))
    out.append((nlines + rng.randrange(0, 3), rng.randrange(0, 4), None, "beyond-last-line"))
    out.append(d.pos[-1] + (None, "end-of-text"))
    out.append((0, 0, None if not (d.spans and d.spans[0][0] == 0) else None, "origin"))
    return out


def _in_comment(text, i):
    j = text.rfind("\n", 0, i) + 1
    return "//" in text[j:i + 1]


def random_positions(d, rng, n):
    """positions for malformed documents: biased towards identifier-like characters"""
    out = []
    idx = [i for i, c in enumerate(d.text) if c.isalnum() or c == "_"]
    for _ in range(n):
        r = rng.random()
        if idx and r < 0.6:
            out.append(d.pos[rng.choice(idx)])
        elif d.text and r < 0.9:
            out.append(d.pos[rng.randrange(len(d.text) + 1)])
        else:
            out.append((rng.randrange(0, d.pos[-1][0] + 3), rng.randrange(0, 12)))
    return [(l, c, None, "random") for l, c in out]


# ------------------------------------------------------------------------------------------------
# expected answers from the derivation (splscope)

def binding_key(o):
    """identity of the entity an occurrence is bound to"""
    if o["builtin"]:
        return ("builtin", o["kind"], o["name"])
    if o["bind_tok"] is None:
        return ("unbound", o["tok"])
    return ("decl", o["bind_tok"])


def expected(d, method, k):
    """expected answer of `method` with the cursor anywhere inside token k (None = not an identifier)"""
    o = d.occ_at.get(k) if k is not None else None
    if o is None:
        return None
    declared = (not o["builtin"]) and o["bind_tok"] is not None
    if method in ("declaration", "definition"):
        return d.span_range(o["bind_tok"]) if declared else None
    if method == "implementation":
        return d.span_range(o["bind_tok"]) if declared and o["kind"] == "proc" else None
    if method == "typeDefinition":
        if o["kind"] == "type":
            return d.span_range(o["bind_tok"]) if declared else None
        if o["kind"] in ("var", "param"):
            rt = o.get("rtype")
            if isinstance(rt, tuple):
                creator = rt[3]
                e = d.scope.types.get(creator)
                if "." not in creator and e is not None and not e["builtin"]:
                    return d.span_range(e["tok"])
            return None
        return None
    same = [x for x in d.occs if binding_key(x) == binding_key(o)]
    if method == "references":
        return sorted(d.span_range(x["tok"]) for x in same if x["tok"] != k)
    # a predefined entity has no declaration that a rename could cover: renaming its uses alone changes the program
    # (the implementation's own rule for `int`); prepareRename answers exactly when rename is offered
    if method == "rename":
        return sorted(d.span_range(x["tok"]) for x in same) if not o["builtin"] else None
    if method == "prepareRename":
        return d.span_range(k) if not o["builtin"] else None
    raise ValueError(method)


# ------------------------------------------------------------------------------------------------
# the real server

def _rng(r):
    return (r["start"]["line"], r["start"]["character"], r["end"]["line"], r["end"]["character"])


def canon(method, resp, uri, new_name=NEW_NAME):
    """canonical answer: None | (l1,c1,l2,c2) | [ranges] | MUTE | ('error', ...) | ('malformed', ...)"""
    if resp is MUTE or resp is None:
        return MUTE
    if "error" in resp:
        return ("error", resp["error"].get("code"), resp["error"].get("message"))
    r = resp.get("result")
    if r is None:
        return None
    try:
        if method in ("declaration", "definition", "typeDefinition", "implementation"):
            if r["uri"] != uri:
                return ("malformed", "uri", r["uri"])
            return _rng(r["range"])
        if method == "references":
            if any(x["uri"] != uri for x in r):
                return ("malformed", "uri")
            return [_rng(x["range"]) for x in r]
        if method == "rename":
            ch = r.get("changes")
            if ch is None or list(ch) != [uri] or r.get("documentChanges") is not None:
                return ("malformed", "changes", json.dumps(r)[:200])
            if any(e["newText"] != new_name for e in ch[uri]):
                return ("malformed", "newText", json.dumps(r)[:200])
            return [_rng(e["range"]) for e in ch[uri]]
        if method == "prepareRename":
            return _rng(r)
    except (KeyError, TypeError) as e:
        return ("malformed", repr(e), json.dumps(r)[:200])
    raise ValueError(method)


def params_of(method, uri, line, col, new_name=NEW_NAME):
    p = {"textDocument": {"uri": uri}, "position": {"line": line, "character": col}}
    if method == "references":
        p["context"] = {"includeDeclaration": True}
    if method == "rename":
        p["newName"] = new_name
    return p


class Session:
    """one server process; documents are opened one after the other"""
    WINDOW = 120

    def __init__(self, exe):
        self.s = lspclient.Server(exe)
        self.s.initialize(diagnostics=True)
        self.dead = False

    def open(self, uri, text, timeout=10.0):
        """didOpen; returns the published diagnostics [(l1,c1,l2,c2,message)] or MUTE"""
        self.s.open(uri, text)
        try:
            while True:
                m = self.s.read_msg(timeout=timeout)
                if m is None:
                    self.dead = True
                    return MUTE
                if m.get("method") == "textDocument/publishDiagnostics" and m["params"]["uri"] == uri:
                    return [_rng(x["range"]) + (x["message"],) for x in m["params"]["diagnostics"]]
        except queue.Empty:
            self.dead = True
            return MUTE

    def change(self, uri, text, version, timeout=10.0):
        self.s.change(uri, [{"text": text}], version=version)
        try:
            while True:
                m = self.s.read_msg(timeout=timeout)
                if m is None:
                    self.dead = True
                    return MUTE
                if m.get("method") == "textDocument/publishDiagnostics" and m["params"]["uri"] == uri:
                    return [_rng(x["range"]) + (x["message"],) for x in m["params"]["diagnostics"]]
        except queue.Empty:
            self.dead = True
            return MUTE

    def ask(self, uri, reqs, timeout=6.0, new_name=NEW_NAME):
        """reqs: [(method, line, col)]; returns the canonical answers in order; after the first missing response
        every later request of this process is MUTE too"""
        out = []
        for w in range(0, len(reqs), self.WINDOW):
            chunk = reqs[w:w + self.WINDOW]
            if self.dead:
                out += [MUTE] * len(chunk)
                continue
            ids = [self.s.request_async("textDocument/" + m, params_of(m, uri, l, c, new_name)) for (m, l, c) in chunk]
            for rid, (m, l, c) in zip(ids, chunk):
                if self.dead:
                    out.append(MUTE)
                    continue
                try:
                    resp = self.s.wait_response(rid, timeout=timeout)
                except queue.Empty:
                    resp = None
                if resp is None:
                    self.dead = True
                    out.append(MUTE)
                else:
                    out.append(canon(m, resp, uri, new_name))
        return out

    def close(self, uri):
        self.s.close(uri)

    def kill(self):
        self.s.kill()


def run_docs(exe, jobs, workers=6):
    """jobs: [(uri, text, reqs)] -> [(diagnostics, answers)] in order.  Each worker drives one server process over
    its share of the documents; a process that went mute is replaced for the next document."""
    res = [None] * len(jobs)
    shares = [list(range(i, len(jobs), workers)) for i in range(workers)]

    def work(share):
        sess = None
        try:
            for j in share:
                uri, text, reqs = jobs[j]
                if sess is None or sess.dead:
                    if sess is not None:
                        sess.kill()
                    sess = Session(exe)
                diags = sess.open(uri, text)
                ans = sess.ask(uri, reqs) if diags is not MUTE else [MUTE] * len(reqs)
                if not sess.dead:
                    sess.close(uri)
                res[j] = (diags, ans)
        finally:
            if sess is not None:
                sess.kill()

    with ThreadPoolExecutor(workers) as ex:
        list(ex.map(work, [s for s in shares if s]))
    return res


def confirm_mute(exe, text, method, line, col, times=3):
    """DESIGN 'No alarms from timing': the same single request in `times` fresh processes; True when every one of
    them stays without a response"""
    seen = []
    for k in range(times):
        s = Session(exe)
        try:
            uri = "file:///confirm_%d.spl" % k
            d = s.open(uri, text)
            a = s.ask(uri, [(method, line, col)]) if d is not MUTE else [MUTE]
            seen.append(a[0])
        finally:
            s.kill()
    return all(a is MUTE for a in seen), seen


# ------------------------------------------------------------------------------------------------
# the model (extracted judge / kernel judge)

def judge_line(method, text, pts):
    nums = [CMD[method], len(pts)]
    for l, c in pts:
        nums += [l, c]
    nums += [ord(ch) for ch in text]
    return " ".join(map(str, nums))


def decode(method, line, npos):
    """per-position model answers: None | range | [ranges] | MUTE (model predicts a panic); raises on garbage"""
    n = [int(x) for x in line.split()]
    if n[0] != 0:
        raise ValueError("model outcome %r (3: AnalyzedSource::new panics in the model, 2: fuel, 7: the document "
                         "violates Refs.nav_wf_b, 4: malformed command)" % (n[:1],))
    i, out = 1, []
    many = method in ("references", "rename")
    for _ in range(npos):
        t = n[i]
        i += 1
        if t == 0:
            out.append(None)
        elif t == 9:
            out.append(MUTE)
        elif t == 1 and not many:
            out.append(tuple(n[i:i + 4]))
            i += 4
        elif t == 1:
            k = n[i]
            i += 1
            out.append([tuple(n[i + 4 * j:i + 4 * j + 4]) for j in range(k)])
            i += 4 * k
        else:
            raise ValueError("bad tag %d" % t)
    if i != len(n):
        raise ValueError("trailing numbers")
    return out


def encode_answers(method, answers):
    """the encoding RunNav.v produces for these answers (for the kernel judge)"""
    out = [0]
    for a in answers:
        if a is None:
            out.append(0)
        elif a is MUTE:
            out.append(9)
        elif isinstance(a, tuple):
            out += [1] + list(a)
        else:
            out += [1, len(a)]
            for r in a:
                out += list(r)
    return out


def model_answers(judge, method, docs_pts, chunk=120, procs=14):
    """docs_pts: [(text, [(line, col)])] -> list of per-position answer lists.  The positions of a document are
    split into lines of <= `chunk` positions; the lines are spread over `procs` judge processes by estimated cost
    (the model rescans the text for every position it converts)."""
    lines, owner = [], []
    for di, (t, pts) in enumerate(docs_pts):
        for a in range(0, max(1, len(pts)), chunk):
            part = pts[a:a + chunk]
            lines.append((judge_line(method, t, part), len(part), (len(t) + 50) * (len(part) + 5)))
            owner.append(di)
    order = sorted(range(len(lines)), key=lambda i: -lines[i][2])
    shards = [[] for _ in range(max(1, min(procs, len(lines))))]
    load = [0] * len(shards)
    for i in order:
        k = load.index(min(load))
        shards[k].append(i)
        load[k] += lines[i][2]
    outs = [None] * len(lines)

    def one(shard):
        return common.run_lines(judge, [lines[i][0] for i in shard], jobs=1)

    with ThreadPoolExecutor(len(shards)) as ex:
        for shard, r in zip(shards, ex.map(one, shards)):
            for i, o in zip(shard, r):
                outs[i] = o
    res = [[] for _ in docs_pts]
    for i, o in enumerate(outs):
        res[owner[i]] += decode(method, o, lines[i][1])
    return res


def same(method, a, b):
    return a == b


def _spread(judge, lines, costs, procs=14):
    """runs the judge lines spread over `procs` processes by estimated cost; outputs in order"""
    order = sorted(range(len(lines)), key=lambda i: -costs[i])
    shards = [[] for _ in range(max(1, min(procs, len(lines))))]
    load = [0] * len(shards)
    for i in order:
        k = load.index(min(load))
        shards[k].append(i)
        load[k] += costs[i]
    outs = [None] * len(lines)
    with ThreadPoolExecutor(len(shards)) as ex:
        for shard, r in zip(shards, ex.map(lambda sh: common.run_lines(judge, [lines[i] for i in sh], jobs=1), shards)):
            for i, o in zip(shard, r):
                outs[i] = o
    return outs


def full_line(sel, text):
    return " ".join(map(str, [37, sel] + [ord(ch) for ch in text]))


def decode_full(line):
    """judge command 37 -> dict(wf, clean, offsets, bad12, bad13) or raises"""
    n = [int(x) for x in line.split()]
    if len(n) < 3 or n[0] not in (0, 7):
        raise ValueError("model outcome %r (3: AnalyzedSource::new panics in the model, 2: fuel, 4: malformed command)" % (n[:1],))
    k = n[2]
    offs = n[3:3 + k]
    i = 3 + k
    k12 = n[i]
    bad12 = n[i + 1:i + 1 + k12]
    i += 1 + k12
    k13 = n[i]
    bad13 = n[i + 1:i + 1 + k13]
    if i + 1 + k13 != len(n):
        raise ValueError("trailing numbers")
    return dict(wf=n[0] == 0, clean=n[1] == 1, offsets=offs, bad12=bad12, bad13=bad13)


FULL_MAX_CHARS = 3500


def full_statement_instances(ctx, pid, judge, camp, sel, what):
    """The Coq statement itself (Spec/Nav.v: C12_full_statement for sel = 1, C13_full_statement for sel = 2), decided
    by the extracted model at every occurrence (first and last column) of every valid document of the campaign of at
    most FULL_MAX_CHARS characters and of the short valid documents.  Also checks that Nav.occurrences enumerates
    exactly the identifier tokens of the generated program (so no occurrence escapes the statement) and that
    `clean_doc` holds exactly where the server publishes no diagnostics.  Failing instances are VIOLATIONs with the
    server's answers at that position.  Returns (stats, kernel cases)."""
    key = "bad12" if sel == 1 else "bad13"
    idx = [i for i, (d, _) in enumerate(camp.items) if d.kind in ("valid", "short-valid") and len(d.text) <= FULL_MAX_CHARS]
    too_long = sum(1 for d, _ in camp.items if d.kind == "valid" and len(d.text) > FULL_MAX_CHARS)
    lines = [full_line(sel, camp.items[i][0].text) for i in idx]
    costs = [(len(camp.items[i][0].text) + 50) ** 2 for i in idx]
    stats = dict(documents=0, occurrences=0, failing_instances=0, occurrence_set_mismatches=0, clean_mismatches=0,
                 not_clean_documents=0, documents_too_long=too_long, errors=0)
    kernel = []
    try:
        outs = _spread(judge, lines, costs)
    except RuntimeError as e:
        ctx.violation(dict(kind="correspondence", property=pid, what="judge command 37 could not be evaluated", error=str(e)[:500]), no_input=True)
        stats["errors"] += 1
        return stats, kernel
    reported = 0
    for i, line, o in zip(idx, lines, outs):
        d, pts = camp.items[i]
        diags = camp.server[i][0]
        try:
            r = decode_full(o)
        except (ValueError, IndexError) as e:
            stats["errors"] += 1
            if reported < 3:
                ctx.violation(dict(kind="full-statement-instance", property=pid, text=d.text, sel=sel, what="judge command 37: %s" % e))
                reported += 1
            continue
        if len(d.text) <= 200 and len(kernel) < 40:
            kernel.append(([int(x) for x in line.split()], [int(x) for x in o.split()]))
        if diags is MUTE:
            continue
        if r["clean"] != (diags == []) or not r["wf"]:
            stats["clean_mismatches"] += 1
            if reported < 3:
                ctx.violation(dict(kind="full-statement-instance", property=pid, text=d.text, sel=sel, server_diagnostics=diags, model=r,
                                   what="the model's clean_doc / nav_wf_b and the server's diagnostics disagree"))
                reported += 1
            continue
        if not r["clean"]:
            stats["not_clean_documents"] += 1
            continue
        stats["documents"] += 1
        stats["occurrences"] += len(r["offsets"])
        if d.kind == "valid":
            mine = sorted(len(d.text[:d.spans[k][0]].encode("utf-8")) for k, t in enumerate(d.tokens) if is_ident(t))
            if sorted(r["offsets"]) != mine:
                stats["occurrence_set_mismatches"] += 1
                if reported < 3:
                    ctx.violation(dict(kind="full-statement-instance", property=pid, text=d.text, sel=sel, model_offsets=sorted(r["offsets"]),
                                       identifier_offsets=mine,
                                       what="Nav.occurrences does not enumerate exactly the identifier tokens of the program"))
                    reported += 1
        for j in r[key]:
            stats["failing_instances"] += 1
            if reported < 3:
                off = r["offsets"][j]
                ci = len(d.text.encode("utf-8")[:off].decode("utf-8", "ignore"))
                l, c = d.pos[ci]
                methods = camp.methods
                got = run_docs(camp.exe, [("file:///full.spl", d.text, [(m, l, c) for m in methods])], workers=1)[0][1]
                k = next((k for k, (a, b) in enumerate(d.spans) if a == ci), None) if d.kind == "valid" else None
                ctx.violation(dict(kind="full-statement-instance", property=pid, text=d.text, sel=sel, occurrence=j, line=l, col=c,
                                   token=(d.tokens[k] if k is not None else None),
                                   server={m: a for m, a in zip(methods, got)},
                                   expected_by_the_derivation=({m: expected(d, m, k) for m in methods} if k is not None else None),
                                   what=what))
                reported += 1
    return stats, kernel


# ------------------------------------------------------------------------------------------------
# the campaign shared by C12 and C13: documents, requests, server, model, comparison, oracle

def gen_valid_docs(rng, budget):
    """well-typed documents with their positions until sum(len(text) * positions) reaches the budget (the cost of
    the extracted model is proportional to it): 40% of the budget goes to small documents (1-2 declarations, at
    most 1800 characters), 35% to cross-reference-rich programs (xref_program), the rest to larger ones (3-6
    declarations).  Documents of up to 2600 characters are
    queried at every column of every identifier, longer ones at first / last / one random column."""
    out, cost = [], 0
    while cost < budget:
        small = cost < 0.4 * budget
        xref = not small and cost < 0.75 * budget
        d = valid_doc(rng, ndecls=rng.choice([1, 2, 2, 2] if small else [3, 3, 4, 5, 6]), xref=xref,
                      p_shadow=rng.choice([0.3, 0.3, 0.6]))
        if small and len(d.text) > 1800:
            continue
        d.every_column = len(d.text) <= 2600
        pts = valid_positions(d, rng, every_column=d.every_column)
        out.append((d, pts))
        cost += len(d.text) * len(pts)
    return out


def gen_malformed_docs(rng, n, npos):
    out = []
    for _ in range(n):
        d = malformed_doc(rng)
        out.append((d, random_positions(d, rng, npos)))
    return out


def gen_short_docs(rng, n):
    """documents of at most 200 characters for the kernel judge (coqc ingests literals slowly)"""
    out = []
    while len(out) < n:
        if rng.random() < 0.6:
            prog, _ = splgen.well_typed_program(rng, ndecls=rng.choice([1, 1, 2]))
            text = splgen.render(splgen.flatten(prog), rng, comments=0.03, dense=rng.random() < 0.7)
            d = Doc("short-valid", text)
        else:
            d = malformed_doc(rng)
            d.kind = "short-" + d.kind
        if 0 < len(d.text) <= 200:
            out.append((d, random_positions(d, rng, 6)))
    return out


class Campaign:
    """runs `methods` on every (doc, positions) pair through the server and the extracted model"""

    def __init__(self, ctx, exe, judge, methods, tag):
        self.ctx, self.exe, self.judge, self.methods, self.tag = ctx, exe, judge, methods, tag
        self.items = []          # (doc, pts)
        self.server = []         # per item: (diags, {method: [answers]})
        self.model = []          # per item: {method: [answers]}
        self.mismatches = []     # (item index, method, position index, server, model)
        self.unobserved = 0
        self.model_errors = []
        self.crashes = []        # confirmed: (item index, method, position index, transcripts)
        self.unconfirmed = 0

    def run(self, items, workers=6):
        base = len(self.items)
        self.items += items
        jobs = []
        for i, (d, pts) in enumerate(items):
            reqs = [(m, l, c) for m in self.methods for (l, c, _, _) in pts]
            jobs.append(("file:///%s_%d.spl" % (self.tag, base + i), d.text, reqs))
        res = run_docs(self.exe, jobs, workers=workers)
        for (d, pts), (diags, ans) in zip(items, res):
            n = len(pts)
            self.server.append((diags, {m: ans[k * n:(k + 1) * n] for k, m in enumerate(self.methods)}))
        if self.judge:
            per = {}
            for m in self.methods:
                try:
                    per[m] = model_answers(self.judge, m, [(d.text, [(l, c) for (l, c, _, _) in pts]) for d, pts in items])
                except (ValueError, RuntimeError) as e:
                    self.model_errors.append("%s: %s" % (m, e))
                    per[m] = None
            for i in range(len(items)):
                self.model.append({m: (per[m][i] if per[m] is not None else None) for m in self.methods})
        else:
            self.model += [None] * len(items)
        self._compare(base)

    def _compare(self, base):
        for i in range(base, len(self.items)):
            d, pts = self.items[i]
            diags, ans = self.server[i]
            # the requests of a document are sent method after method; everything after the first missing response
            # was never seen by a live server
            order = [(m, pi) for m in self.methods for pi in range(len(pts))]
            dead = diags is MUTE
            for (m, pi) in order:
                a = ans[m][pi]
                if dead:
                    self.unobserved += 1
                    ans[m][pi] = "UNOBSERVED"
                    continue
                if a is MUTE:
                    dead = True
                    l, c = pts[pi][0], pts[pi][1]
                    if len(self.crashes) >= 5:       # enough confirmed crashes to report; do not spend the budget on more
                        self.unobserved += 1
                        ans[m][pi] = "UNOBSERVED"
                        continue
                    ok, seen = confirm_mute(self.exe, d.text, m, l, c)
                    if ok:
                        self.crashes.append((i, m, pi, [repr(x) for x in seen]))
                    else:
                        self.unconfirmed += 1
                        ans[m][pi] = seen[-1] if seen[-1] is not MUTE else seen[0]
                b = self.model[i][m][pi] if self.model[i] is not None and self.model[i][m] is not None else None
                if self.model[i] is not None and self.model[i][m] is not None and ans[m][pi] != b:
                    self.mismatches.append((i, m, pi, ans[m][pi], b))

    def compared(self):
        return sum(1 for i in range(len(self.items)) for m in self.methods for a in self.server[i][1][m]
                   if a != "UNOBSERVED") if self.judge else 0

    def kernel_cases(self, idxs):
        """(cmd, expected) pairs for common.kernel_judge: the model evaluated by coqc's VM must reproduce the
        SERVER's answers on these documents"""
        out = []
        for i in idxs:
            d, pts = self.items[i]
            for m in self.methods:
                ans = self.server[i][1][m]
                if any(a == "UNOBSERVED" or (isinstance(a, tuple) and a and isinstance(a[0], str)) for a in ans):
                    continue
                cmd = [int(x) for x in judge_line(m, d.text, [(l, c) for (l, c, _, _) in pts]).split()]
                out.append((cmd, encode_answers(m, ans)))
        return out


def sort_answer(a):
    return sorted(a) if isinstance(a, list) else a


def oracle(camp, classify, methods=None):
    """server answers on valid documents against the expected answers of the derivation.
    classify(doc, method, token index, occurrence) -> id of a known-finding class or None.
    Returns (failures [(item, method, pos index, observed, expected)], known {id: [same tuples]}, checked,
    nontrivial, skipped documents)"""
    fails, known, checked, nontrivial, skipped = [], {}, 0, set(), 0
    for i, (d, pts) in enumerate(camp.items):
        if d.kind != "valid":
            continue
        diags, ans = camp.server[i]
        if diags is MUTE or diags:
            skipped += 1       # the generator produced a program the implementation does not accept
            continue
        for m in (methods or camp.methods):
            for pi, (l, c, k, what) in enumerate(pts):
                a = ans[m][pi]
                if a == "UNOBSERVED":
                    continue
                e = expected(d, m, k)
                checked += 1
                if e is not None and e != []:
                    nontrivial.add((i, m, k))
                if sort_answer(a) != e:
                    o = d.occ_at.get(k) if k is not None else None
                    cid = classify(d, m, k, o) if o is not None else None
                    if cid:
                        known.setdefault(cid, []).append((i, m, pi, a, e))
                    else:
                        fails.append((i, m, pi, a, e))
    return fails, known, checked, nontrivial, skipped


def enclosing_locals(d, o):
    info = d.infos[o["decl"]]
    return info["locals"] if info["kind"] == "proc" else {}


def histogram(camp):
    import collections
    h = collections.Counter()
    for d, pts in camp.items:
        h["doc:" + d.kind] += 1
        if d.kind == "valid":
            h["layout:contains-crlf" if "\r\n" in d.text else "layout:lf-only"] += 1
            if "//" in d.text:
                h["layout:with-comments"] += 1
            if any(d.pos[a][0] == d.pos[b - 1][0] and x in ("type", "proc") and j > 0 and d.pos[d.spans[j - 1][0]][0] == d.pos[a][0]
                   for j, ((a, b), x) in enumerate(zip(d.spans, d.tokens))):
                h["layout:several-declarations-on-a-line"] += 1
            if not d.every_column:
                h["doc:valid-sampled-columns"] += 1
            if d.xref:
                h["doc:valid-xref"] += 1
            for v in d.variants:
                h["variant:" + v] += 1
            h["decls"] += len(d.prog)
        for (l, c, k, what) in pts:
            if k is not None and d.kind == "valid":
                o = d.occ_at[k]
                h["pos:ident:" + o["role"] + (":predefined" if o["builtin"] else "")] += 1
            else:
                h["pos:" + what] += 1
    return dict(sorted(h.items()))


def load_corpus(pid):
    cdir = os.path.join(common.VERIF, "corpus", pid)
    out = []
    if os.path.isdir(cdir):
        for f in sorted(os.listdir(cdir)):
            if f.endswith(".json"):
                out.append((f, json.load(open(os.path.join(cdir, f)))))
    return out


def corpus_requests(c):
    """[(method, line, col, expected)] of a corpus file.  Formats: "requests": [[method, line, col, expected]],
    "references" / "rename" / "prepareRename": [[line, col, expected]]"""
    out = []
    for r in c.get("requests", []):
        out.append((r[0], r[1], r[2], r[3]))
    for key in ("references", "rename", "prepareRename", "declaration", "definition", "typeDefinition", "implementation"):
        for r in c.get(key, []):
            out.append((key, r[0], r[1], r[2]))
    norm = []
    for m, l, c_, e in out:
        if isinstance(e, list) and e and isinstance(e[0], list):
            e = sorted(tuple(x) for x in e)
        elif isinstance(e, list) and m in ("references", "rename"):
            e = []
        elif isinstance(e, list):
            e = tuple(e)
        norm.append((m, l, c_, e))
    return norm


def replay_corpus(ctx, pid, exe, judge):
    """regression witnesses first: the server must give the recorded (correct) answers and the model must agree
    with the server.  Returns number of requests replayed."""
    n = 0
    for name, c in load_corpus(pid):
        reqs = corpus_requests(c)
        res = run_docs(exe, [("file:///corpus_%s.spl" % name[:-5], c["text"], [(m, l, col) for (m, l, col, _) in reqs])], workers=1)
        diags, ans = res[0]
        if any(a is MUTE for a in ans):     # a crash hides the later requests: ask each one in its own process
            ans = [run_docs(exe, [("file:///corpus_%s.spl" % name[:-5], c["text"], [(m, l, col)])], workers=1)[0][1][0]
                   for (m, l, col, _) in reqs]
        for (m, l, col, e), a in zip(reqs, ans):
            n += 1
            if sort_answer(a) != e:
                ctx.violation(dict(kind="oracle", property=pid, corpus=name, text=c["text"], method=m, line=l, col=col,
                                   observed=a, expected=e, what="regression witness of a repaired defect fails again"))
            elif judge:
                try:
                    b = model_answers(judge, m, [(c["text"], [(l, col)])])[0][0]
                except (ValueError, RuntimeError) as ex:
                    b = "model error: %s" % ex
                if b != a:
                    ctx.violation(dict(kind="correspondence", property=pid, corpus=name, text=c["text"], method=m, line=l, col=col,
                                       server=a, model=b, what="model and server differ on a corpus witness"), no_input=True)
    return n


def replay_request(ctx, path):
    """./check CXX --replay file: re-runs the recorded request; exit status 0 when the server now gives the
    expected answer"""
    r = json.load(open(path))
    if r.get("kind") == "full-statement-instance" and "text" in r:
        judge, _ = common.build_judge()
        o = common.run_lines(judge, [full_line(r.get("sel", 3), r["text"])], jobs=1)[0]
        print("judge command 37:", o[:400])
        try:
            res = decode_full(o)
        except (ValueError, IndexError) as e:
            print("unreadable:", e)
            return 1
        print(res)
        return 0 if res["wf"] and not res["bad12"] and not res["bad13"] and "offsets" not in r.get("what", "") else 1
    if "text" not in r or "method" not in r:
        print(json.dumps(r, indent=1)[:4000])
        return 1
    exe, _ = common.build_server()
    res = run_docs(exe, [("file:///replay.spl", r["text"], [(r["method"], r["line"], r["col"])])], workers=1)
    a = res[0][1][0]
    e = r.get("expected")
    if isinstance(e, list) and e and isinstance(e[0], list):
        e = sorted(tuple(x) for x in e)
    elif isinstance(e, list) and r["method"] not in ("references", "rename"):
        e = tuple(e)
    print("request :", r["method"], (r["line"], r["col"]))
    print("observed:", a)
    print("expected:", e)
    return 0 if sort_answer(a) == e else 1


def replay_known(ctx, pid, exe, class_doc):
    """the witnesses of the known findings (known_findings.jsonl): a KNOWN-FINDING line for every finding whose
    witness still fails on the implementation.  Returns {id: still failing?}"""
    out = {}
    for e in common.load_known_findings(pid):
        still = False
        for w in e.get("witnesses", []):
            res = run_docs(exe, [("file:///known.spl", w["text"], [(w["request"], w["line"], w["col"])])], workers=1)
            a = res[0][1][0]
            exp = w["expected"]
            if isinstance(exp, list) and exp and isinstance(exp[0], list):
                exp = sorted(tuple(x) for x in exp)
            elif isinstance(exp, list) and w["request"] not in ("references", "rename"):
                exp = tuple(exp)
            if sort_answer(a) != exp:
                still = True
        out[e["id"]] = still
        if still:
            ctx.known("%s: %s" % (e["id"], class_doc.get(e["id"], e.get("class", ""))))
    return out


def report_oracle(ctx, pid, camp, fails, what, limit=3):
    """VIOLATION lines for oracle failures: smallest documents first, one per (document, request, token); a missing
    response is reported with the transcripts of the three confirming processes"""
    crashed = {(i, m, pi): seen for (i, m, pi, seen) in camp.crashes}
    allf = list(fails) + [(i, m, pi, MUTE, None) for (i, m, pi) in crashed if not any(f[:3] == (i, m, pi) for f in fails)]
    done, n = set(), 0
    for (i, m, pi, a, e) in sorted(allf, key=lambda f: (len(camp.items[f[0]][0].text), f[1], f[2])):
        d, pts = camp.items[i]
        key = (i, m, pts[pi][2] if pts[pi][2] is not None else ("pos", pi))
        if key in done:
            continue
        done.add(key)
        rep = dict(kind="oracle", property=pid, text=d.text, method=m, line=pts[pi][0], col=pts[pi][1],
                   token=(d.tokens[pts[pi][2]] if d.kind == "valid" and pts[pi][2] is not None else None),
                   observed=("no response" if a is MUTE else a),
                   expected=(e if d.kind == "valid" else "a response (never an error)"),
                   what=what % m, failures_in_this_run=len(allf), document_kind=d.kind)
        if (i, m, pi) in crashed:
            rep["transcripts"] = crashed[(i, m, pi)]
            rep["what"] = "the server does not answer textDocument/%s (three fresh processes): the handler panicked" % m
        ctx.violation(rep)
        n += 1
        if n >= limit:
            break
    return n
