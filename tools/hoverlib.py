"""Shared machinery of the C14 (hover, signature help) and C17 (folding ranges) checks:
text geometry (an independent python model of LSP positions), a renderer that records where every token and every
comment ends up, the request plans, the server runner (pipelined requests, mute detection) and the encoders that turn
JSON answers into the judge's canonical encoding."""
import json
import queue
from concurrent.futures import ThreadPoolExecutor

import lspclient
import splgen
import splscope

MUTE = "<mute>"


# --------------------------------------------------------------------------------------------
# geometry

def u16(c):
    return 2 if ord(c) >= 0x10000 else 1


def ulen(c):
    o = ord(c)
    return 1 if o < 128 else 2 if o < 2048 else 3 if o < 65536 else 4


class Geometry:
    """LSP geometry of a text: lines end at LF, CRLF or a lone CR; columns are UTF-16 units."""

    def __init__(self, text):
        self.text = text
        n = len(text)
        self.pos = [None] * (n + 1)      # char offset -> (line, col)
        self.byte = [0] * (n + 1)        # char offset -> byte offset
        self.addressable = [True] * (n + 1)
        self.line_start = [0]            # char offset of each line's first character
        self.line_end = []               # char offset of the end of each line's content
        line = col = b = 0
        i = 0
        while i < n:
            c = text[i]
            self.pos[i] = (line, col)
            self.byte[i] = b
            if c == "\n" or c == "\r":
                self.line_end.append(i)
                if c == "\r" and i + 1 < n and text[i + 1] == "\n":
                    b += 1
                    i += 1
                    self.pos[i] = (line, col)
                    self.byte[i] = b
                    self.addressable[i] = False
                line += 1
                col = 0
                b += 1
                i += 1
                self.line_start.append(i)
                continue
            col += u16(c)
            b += ulen(c)
            i += 1
        self.pos[n] = (line, col)
        self.byte[n] = b
        self.line_end.append(n)
        self.nlines = line + 1
        self.off_of_byte = {self.byte[k]: k for k in range(n, -1, -1)}

    def offset(self, line, col):
        """char offset addressed by a position (overshooting columns clamp to the line end, overshooting lines to
        the end of the text)"""
        if line >= self.nlines:
            return len(self.text)
        off = self.line_start[line]
        k = 0
        while off < self.line_end[line]:
            w = u16(self.text[off])
            if k + w > col:
                break
            k += w
            off += 1
        return off

    def positions(self):
        """every exactly addressable position: (line, col, char offset)"""
        out = []
        for ln in range(self.nlines):
            for off in range(self.line_start[ln], self.line_end[ln] + 1):
                out.append((ln, self.pos[off][1], off))
        return out

    def last_line(self):
        return self.nlines - 1


# --------------------------------------------------------------------------------------------
# rendering with recorded layout

COMMENT_TEXTS = splgen.COMMENT_TEXTS + [" doc: returns x", "  leading blanks", " --- dashes", " é combining", "/ triple",
                                        "  nbsp", " ,", " ( , )", " f(1, 2);"]


def render(tokens, rng, doc_gaps=(), hot_gaps=(), newline="\n", p_comment=0.05, p_doc=0.5, p_hot=0.3, dense=False):
    """text of the token spellings with random layout.  Gap g sits in front of token g (gap len(tokens) in front of
    the end of the text).  Returns (text, spans, gap_comments): spans[g] = (start, end) char offsets of token g,
    gap_comments[g] = [(content, start, end)] of the comment lines rendered in gap g (content = the text after `//`
    up to the line end, offsets of the `//` and of the end of the content)."""
    out = []
    n = 0
    spans = []
    gap_comments = []
    prev = ""
    for g, t in enumerate(tokens + [""]):
        p = p_doc if g in doc_gaps else p_hot if g in hot_gaps else p_comment
        comments = []
        gap = ""
        if rng.random() < p:
            k = 1 + (rng.random() < 0.3) + (rng.random() < 0.1)
            for j in range(k):
                lead = rng.choice(["", " ", newline, "\t", newline + "  "]) if j == 0 else rng.choice(["", "", "  ", newline])
                if j == 0 and not lead and prev.endswith("/"):
                    lead = " "
                content = rng.choice(COMMENT_TEXTS)
                s = n + len(gap) + len(lead)
                gap += lead + "//" + content
                comments.append((content, s, s + 2 + len(content)))
                if not (t == "" and j == k - 1 and rng.random() < 0.3):   # a last comment may end at the end of the text
                    gap += newline
        r = rng.random()
        if dense:
            ws = ""
        elif r < 0.5:
            ws = " "
        elif r < 0.72:
            ws = newline + " " * rng.randrange(0, 9)
        elif r < 0.82:
            ws = ""
        elif r < 0.93:
            ws = rng.choice(["  ", "\t", " \t ", newline + newline, "\r\n", "\n", "   " + newline + "\t"])
        else:
            ws = newline
        if comments and not gap.endswith(newline) and t:
            gap += newline
        gap += ws
        if t and not gap and splgen.needs_sep(prev, t):
            gap = " "
        out.append(gap)
        n += len(gap)
        if t:
            spans.append((n, n + len(t)))
            out.append(t)
            n += len(t)
            prev = t
        gap_comments.append(comments)
    return "".join(out), spans, gap_comments


# --------------------------------------------------------------------------------------------
# programs

BUILTIN_SIGS = {  # SPL's predefined procedures: (is_ref, type) per parameter; names are the implementation's business
    k: [(r, "int") for r in v] for k, v in splgen.BUILTINS.items()
}


def call_paths(prog):
    """per procedure declaration index: the nesting path of every call statement in source order, e.g.
    ('block', 'if-else', 'while')"""
    res = {}

    def walk(s, path, acc):
        k = s[0]
        if k == "call":
            acc.append(path)
        elif k == "if":
            walk(s[2], path + ("if-then",), acc)
            if s[3] is not None:
                walk(s[3], path + ("if-else",), acc)
        elif k == "while":
            walk(s[2], path + ("while",), acc)
        elif k == "block":
            for x in s[1]:
                walk(x, path + ("block",), acc)

    for di, d in enumerate(prog):
        if d[0] == "proc":
            acc = []
            for s in d[4]:
                walk(s, (), acc)
            res[di] = acc
    return res


def _rename_var(v, old, new):
    if v[0] == "name":
        return ("name", new if v[1] == old else v[1])
    return ("index", _rename_var(v[1], old, new), _rename_expr(v[2], old, new))


def _rename_expr(e, old, new):
    k = e[0]
    if k == "lit":
        return e
    if k == "var":
        return ("var", _rename_var(e[1], old, new))
    if k in ("neg", "par"):
        return (k, _rename_expr(e[1], old, new))
    return ("bin", e[1], _rename_expr(e[2], old, new), _rename_expr(e[3], old, new))


def _rename_stmt(s, old, new):
    k = s[0]
    if k == "empty":
        return s
    if k == "assign":
        return ("assign", _rename_var(s[1], old, new), _rename_expr(s[2], old, new))
    if k == "call":
        return ("call", s[1], [_rename_expr(a, old, new) for a in s[2]])
    if k == "if":
        return ("if", _rename_expr(s[1], old, new), _rename_stmt(s[2], old, new),
                None if s[3] is None else _rename_stmt(s[3], old, new))
    if k == "while":
        return ("while", _rename_expr(s[1], old, new), _rename_stmt(s[2], old, new))
    return ("block", [_rename_stmt(x, old, new) for x in s[1]])


def _calls_in(s, acc):
    k = s[0]
    if k == "call":
        acc.add(s[1])
    elif k == "if":
        _calls_in(s[2], acc)
        if s[3] is not None:
            _calls_in(s[3], acc)
    elif k == "while":
        _calls_in(s[2], acc)
    elif k == "block":
        for x in s[1]:
            _calls_in(x, acc)


def _type_names(te, acc):
    if te[0] == "named":
        acc.add(te[1])
    else:
        _type_names(te[2], acc)


def _array_bases(d):
    """the type names that stand behind `of` in the parameter / variable declarations of procedure d"""
    acc = set()
    for te in [t for _, _, t in d[2]] + [t for _, t in d[3]]:
        while te[0] != "named":
            te = te[2]
            if te[0] == "named":
                acc.add(te[1])
    return acc


def shadow_global(prog, rng):
    """Renames one local (parameter or variable) of one procedure to the name of a GLOBAL entity that stays
    well-typed: the procedure's own name or another procedure's name (when the body does not call it), or - for a
    variable - a type name that no LATER local declaration and no parameter of the procedure uses.  Returns the new
    program or None.  The program stays well-typed under SPL scoping (locals hide globals inside the body; a
    variable's type is resolved before the variable itself is entered)."""
    cands = []
    for di, d in enumerate(prog):
        if d[0] != "proc":
            continue
        called = set()
        for s in d[4]:
            _calls_in(s, called)
        local_names = [n for _, n, _ in d[2]] + [n for n, _ in d[3]]
        procs = [x[1] for x in prog if x[0] == "proc" and x[1] != "main"] + ["printi", "exit"]
        for li, old in enumerate(local_names):
            for new in procs:
                if new not in called and new not in local_names:
                    cands.append((di, li, old, new, "proc"))
            if li >= len(d[2]):
                vi = li - len(d[2])
                used_later = set()
                for _, te in d[3][vi + 1:]:
                    _type_names(te, used_later)
                used_before = set()
                for _, _, te in d[2]:
                    _type_names(te, used_before)
                for _, te in d[3][:vi + 1]:
                    _type_names(te, used_before)
                for new in used_before - used_later - {"int"}:
                    if new not in local_names and new not in called:
                        cands.append((di, li, old, new, "type"))
    if not cands:
        return None
    # prefer the class of the repaired defect C14-hover-local-before-global: a local named like its own procedure or like
    # a type that the procedure's declarations use (those occurrences are bound globally although a local has the name)
    hot = [c for c in cands if c[4] == "type" or c[3] == prog[c[0]][1]]
    arr = [c for c in hot if c[4] == "type" and c[3] in _array_bases(prog[c[0]])]      # the type name stands behind `of`
    di, li, old, new, _ = rng.choice(arr if arr and rng.random() < 0.5 else hot if hot and rng.random() < 0.7 else cands)
    d = prog[di]
    params = [(r, new if (i == li) else n, t) for i, (r, n, t) in enumerate(d[2])]
    vars_ = [(new if (i + len(d[2]) == li) else n, t) for i, (n, t) in enumerate(d[3])]
    stmts = [_rename_stmt(s, old, new) for s in d[4]]
    out = list(prog)
    out[di] = ("proc", d[1], params, vars_, stmts)
    return out


class Case:
    """a well-typed program in one layout, with everything the oracles need"""

    def __init__(self, prog, rng, newline="\n", dense=False, p_comment=0.05, p_doc=0.5, p_hot=0.3, family="random"):
        self.prog = prog
        self.family = family
        self.occs, self.infos, self.scope = splscope.analyse(prog)
        self.tokens = splgen.flatten(prog)
        doc_gaps, hot = set(), set()
        for inf in self.infos:
            doc_gaps.add(inf["start"])
            if inf["kind"] == "proc":
                for e in inf["locals"].values():
                    doc_gaps.add(e["start"])
                for c in inf["calls"]:
                    hot.update(range(c["lparen"] + 1, c["rparen"] + 1))
        self.doc_gaps = doc_gaps
        self.newline = newline
        self.text, self.spans, self.gap_comments = render(self.tokens, rng, doc_gaps, hot, newline, p_comment, p_doc,
                                                          p_hot, dense)
        self.geo = Geometry(self.text)
        self.paths = call_paths(prog)

        # lookup structures
        self.occ_by_tok = {o["tok"]: o for o in self.occs}
        self.tok_at = [-1] * (len(self.text) + 1)          # char offset -> token index, -2 inside a comment, -1 gap
        for ti, (s, e) in enumerate(self.spans):
            for k in range(s, e):
                self.tok_at[k] = ti
        for cs in self.gap_comments:
            for _, s, e in cs:
                for k in range(s, e):
                    self.tok_at[k] = -2
        self.calls = []                                   # (declaration index, call dict, nesting path)
        for di, inf in enumerate(self.infos):
            if inf["kind"] == "proc":
                for c, path in zip(inf["calls"], self.paths[di]):
                    self.calls.append((di, c, path))

    # -- signature help zones
    def call_zone(self, off):
        """('A', call, ncommas, path) strictly inside an argument list; ('B', [calls]) elsewhere inside the extent of
        call statements (from the end of the previous token to the end of the `;` - two adjacent statements share a
        boundary offset); ('C',) outside every call"""
        hits = []
        for di, c, path in self.calls:
            lo = self.spans[c["name_tok"] - 1][1]
            hi = self.spans[c["semic"]][1]
            if lo <= off <= hi:
                if self.spans[c["lparen"]][1] <= off <= self.spans[c["rparen"]][0]:
                    return ("A", c, sum(1 for k in c["commas"] if self.spans[k][0] < off), path)
                hits.append(c)
        return ("B", hits) if hits else ("C",)

    # -- declarations and their doc comments
    def decl_start(self, o):
        """token index of the first token of the declaration that declares the entity occurrence `o` is bound to"""
        if o["builtin"] or o["bind_tok"] is None:
            return None
        k = o["kind"]
        inf = self.infos[o["bind_decl"]]
        if k in ("type", "proc"):
            return inf["start"]
        return inf["locals"][o["name"]]["start"]

    def docs_of(self, o):
        s = self.decl_start(o)
        return None if s is None else [c for c, _, _ in self.gap_comments[s]]

    def tok_range(self, ti):
        s, e = self.spans[ti]
        return self.geo.pos[s], self.geo.pos[e]


def expected_signature(case, o):
    """(signature text, names_matter) for a bound occurrence"""
    if o["builtin"] and o["kind"] == "proc":
        ps = BUILTIN_SIGS[o["name"]]
        return "proc %s(%s)" % (o["name"], ", ".join("%s_: int" % ("ref " if r else "") for r, _ in ps)), False
    return splscope.signature(o, case.infos, case.scope), True


def blank_param_names(sig):
    """`proc f(ref abc: int, x: int)` -> `proc f(ref _: int, _: int)`"""
    import re
    m = re.match(r"^(proc \w+\()(.*)\)$", sig, flags=re.S)
    if not m:
        return sig
    ps = [p for p in m.group(2).split(", ") if p]
    out = []
    for p in ps:
        mm = re.match(r"^(ref )?\w+(: .*)$", p, flags=re.S)
        out.append(((mm.group(1) or "") + "_" + mm.group(2)) if mm else p)
    return m.group(1) + ", ".join(out) + ")"


# --------------------------------------------------------------------------------------------
# oracles (implementation only: expected answers from the derivation + the rendered layout)

def check_hover_value(value, sig, names_matter, docs):
    """None when `value` is what the property demands, else a description"""
    head = "```spl\n"
    if not isinstance(value, str) or not value.startswith(head):
        return "value does not start with an spl code block"
    i = value.find("\n```", len(head))
    if i < 0:
        return "code block not closed"
    got = value[len(head):i]
    if not names_matter:
        got = blank_param_names(got)
    if got != sig:
        return "signature %r, expected %r" % (got, sig)
    rest = value[i + 4:]
    # the doc comments' text in order; how the lines are separated (the code concatenates them without any separator)
    # and surrounding white space are not prescribed by the property
    want = "".join("".join(docs or []).split())
    if not docs:
        if rest != "":
            return "documentation %r although the declaration has no doc comment" % rest
        return None
    got_doc = "".join(rest.split())
    if not want:
        return None if got_doc in ("", "---") else "documentation %r for blank doc comments" % rest
    if got_doc != "---" + want:
        return "documentation %r, expected the doc comments %r" % (rest, docs)
    return None


def hover_oracle(case, o, result):
    """for a position inside identifier occurrence o (bound): None = ok, else description"""
    sig, names = expected_signature(case, o)
    if sig is None:
        return None
    if result is None:
        return "no hover on a bound identifier"
    try:
        value = result["contents"]["value"]
        kind = result["contents"]["kind"]
        r = result["range"]
        got = ((r["start"]["line"], r["start"]["character"]), (r["end"]["line"], r["end"]["character"]))
    except (KeyError, TypeError):
        return "unexpected shape of the Hover answer"
    if kind != "markdown":
        return "contents kind %r" % kind
    if got != case.tok_range(o["tok"]):
        return "range %r, identifier at %r" % (got, case.tok_range(o["tok"]))
    docs = case.docs_of(o) if not o["builtin"] else None
    if o["builtin"]:
        # predefined entities: signature only (their documentation is the implementation's own text)
        i = value.find("\n```", 7)
        value = value[:i + 4] if i >= 0 else value
    return check_hover_value(value, sig, names, docs)


def sighelp_oracle(case, call, callee_occ, ncommas, result):
    """cursor strictly inside the argument list of `call`: None = ok, else description"""
    sig, names = expected_signature(case, callee_occ)
    if result is None:
        return "no signature help inside an argument list"
    try:
        sigs = result["signatures"]
        if len(sigs) != 1:
            return "%d signatures" % len(sigs)
        s = sigs[0]
        label = s["label"]
        params = s.get("parameters")
        act = result.get("activeParameter")
        act2 = s.get("activeParameter")
        asig = result.get("activeSignature")
    except (KeyError, TypeError):
        return "unexpected shape of the SignatureHelp answer"
    if asig not in (0, None):
        return "activeSignature %r" % asig
    if (blank_param_names(label) if not names else label) != sig:
        return "label %r, expected %r" % (label, sig)
    inner = sig[sig.index("(") + 1:-1]
    want = [p for p in inner.split(", ") if p]
    got = [p.get("label") for p in (params or [])]
    if not names:
        got = [blank_param_names("proc x(%s)" % p)[7:-1] if isinstance(p, str) else p for p in got]
    if got != want:
        return "parameters %r, expected %r" % (got, want)
    if not want:
        if act not in (None, 0) or act2 not in (None, 0):
            return "active parameter %r/%r for a procedure without parameters" % (act, act2)
        return None
    if act != ncommas or (act2 is not None and act2 != ncommas):
        return "active parameter %r/%r, %d commas between `(` and the cursor" % (act, act2, ncommas)
    return None


def fold_expected(case):
    out = []
    for inf in case.infos:
        if inf["kind"] == "proc":
            s = case.geo.pos[case.spans[inf["start"]][0]][0]
            e = case.geo.pos[case.spans[inf["rbrace"]][1]][0]
            out.append((s, e))
    return out


def fold_wellformed(ranges, last_line):
    """None = ok"""
    prev = None
    for (s, e) in ranges:
        if not (0 <= s <= e):
            return "start %d > end %d" % (s, e)
        if e > last_line:
            return "end line %d beyond the last line %d" % (e, last_line)
        if prev is not None and s < prev:
            return "range starting at line %d overlaps / precedes the one ending at line %d" % (s, prev)
        prev = e
    return None


# --------------------------------------------------------------------------------------------
# JSON answers -> the judge's encoding

def enc_text(s):
    return [len(s)] + [ord(c) for c in s]


def enc_hover_json(r):
    if r == MUTE:
        return [1]
    if r is None:
        return [0, 0]
    try:
        c = r["contents"]
        if set(c) != {"kind", "value"} or c["kind"] != "markdown" or set(r) != {"contents", "range"}:
            return [77]
        g = r["range"]
        return [0, 1] + enc_text(c["value"]) + [g["start"]["line"], g["start"]["character"], g["end"]["line"],
                                                g["end"]["character"]]
    except (KeyError, TypeError):
        return [77]


def enc_sighelp_json(r):
    if r == MUTE:
        return [1]
    if r is None:
        return [0, 0]
    try:
        if r.get("activeSignature") != 0 or len(r["signatures"]) != 1:
            return [77]
        s = r["signatures"][0]
        if r.get("activeParameter") != s.get("activeParameter"):
            return [77]
        if set(r) - {"signatures", "activeSignature", "activeParameter"}:
            return [77]
        if set(s) - {"label", "documentation", "parameters", "activeParameter"}:
            return [77]
        out = [0, 1] + enc_text(s["label"])
        d = s.get("documentation")
        if d is None:
            out += [0]
        else:
            if d.get("kind") != "markdown":
                return [77]
            out += [1] + enc_text(d["value"])
        ps = s["parameters"]
        out += [len(ps)]
        for p in ps:
            if set(p) != {"label"} or not isinstance(p["label"], str):
                return [77]
            out += enc_text(p["label"])
        a = s.get("activeParameter")
        out += [0] if a is None else [1, a]
        return out
    except (KeyError, TypeError, AttributeError):
        return [77]


def enc_fold_json(r):
    if r == MUTE:
        return [1]
    try:
        out = [0, len(r)]
        for f in r:
            if f.get("kind") != "region" or set(f) - {"startLine", "endLine", "kind"}:
                return [77]
            out += [f["startLine"], f["endLine"]]
        return out
    except (KeyError, TypeError, AttributeError):
        return [77]


def nums_str(l):
    return " ".join(map(str, l))


def text_nums_str(t):
    return " ".join(str(ord(c)) for c in t)


# --------------------------------------------------------------------------------------------
# server runner

METHOD = {0: "textDocument/hover", 1: "textDocument/signatureHelp", 2: "textDocument/foldingRange"}


def _params(uri, req):
    kind = req[0]
    if kind == 2:
        return {"textDocument": {"uri": uri}}
    return {"textDocument": {"uri": uri}, "position": {"line": req[1], "character": req[2]}}


def run_session(exe, docs, tag="d", timeout=8.0, window=400):
    """docs: [(text, [(kind, line, col)])] (kind 0 hover, 1 signatureHelp, 2 foldingRange: line/col ignored).
    One server process (restarted after a mute).  Returns per document the list of answers (the JSON `result`,
    or MUTE when the request - and everything after it in that process - got no response)."""
    results = []
    s = None

    def start():
        # a loaded machine can delay process start-up: retry, never report a timing artefact
        last = None
        for attempt in range(4):
            srv = lspclient.Server(exe)
            try:
                if srv.initialize(diagnostics=False, timeout=30.0) is not None:
                    return srv
            except queue.Empty as e:
                last = e
            srv.kill()
        raise RuntimeError("lsp4spl does not answer `initialize` (4 attempts, 30 s each): %r" % (last,))

    try:
        s = start()
        for k, (text, reqs) in enumerate(docs):
            uri = "file:///%s_%d.spl" % (tag, k)
            s.open(uri, text)
            res = []
            i = 0
            while i < len(reqs):
                chunk = reqs[i:i + window]
                ids = [s.request_async(METHOD[r[0]], _params(uri, r)) for r in chunk]
                dead = False
                for rid in ids:
                    try:
                        m = s.wait_response(rid, timeout=timeout, others=[])
                    except queue.Empty:
                        m = None
                    if m is None or "result" not in m:
                        res.append(MUTE if m is None else {"<error>": m.get("error")})
                        if m is None:
                            dead = True
                            break
                    else:
                        res.append(m["result"])
                if dead:
                    # no alarm from timing: ask again in a fresh process with a long timeout before calling it mute
                    s.kill()
                    s = start()
                    s.open(uri, text)
                    r = reqs[len(res) - 1]
                    try:
                        m = s.wait_response(s.request_async(METHOD[r[0]], _params(uri, r)), timeout=25.0, others=[])
                    except queue.Empty:
                        m = None
                    if m is not None and "result" in m:
                        res[-1] = m["result"]
                    else:
                        s.kill()
                        s = start()
                        s.open(uri, text)
                i = len(res)
            results.append(res)
            s.close(uri)
    finally:
        if s is not None:
            s.kill()
    return results


def run_parallel(exe, docs, workers=6, chunk=12, tag="p"):
    parts = [docs[i:i + chunk] for i in range(0, len(docs), chunk)]
    out = []
    with ThreadPoolExecutor(workers) as ex:
        for r in ex.map(lambda kp: run_session(exe, kp[1], tag="%s%d" % (tag, kp[0])), list(enumerate(parts))):
            out += r
    return out


def confirm_mute(exe, text, req, times=3):
    """three fresh processes: does the request get no answer every time?"""
    for k in range(times):
        r = run_session(exe, [(text, [req])], tag="confirm%d" % k)
        if r[0][0] != MUTE:
            return False
    return True


# --------------------------------------------------------------------------------------------
# judge

def judge_batch(judge, docs, run_lines=None, per_line=250):
    """docs as for run_session with kinds 0/1 only; returns per document the list of encodings (strings); when the
    document itself panics / runs out of fuel in the model every entry is '1' / '2'"""
    lines, owner = [], []
    for di, (text, reqs) in enumerate(docs):
        tn = text_nums_str(text)
        for i in range(0, max(1, len(reqs)), per_line):
            part = reqs[i:i + per_line]
            parts = [140, len(part)]
            for r in part:
                parts += [r[0], r[1], r[2]]
            lines.append((nums_str(parts) + " " + tn).strip())
            owner.append((di, len(part)))
    outs = (run_lines or run_lines_par)(judge, lines)
    res = [[] for _ in docs]
    pre = [None] * len(docs)
    for (di, cnt), o in zip(owner, outs):
        ns = [int(x) for x in o.split()]
        if ns[:1] != [0]:
            res[di] += [nums_str(ns)] * cnt
            continue
        pre[di] = ns[1]
        i = 3
        for _ in range(ns[2]):
            n = ns[i]
            res[di].append(nums_str(ns[i + 1:i + 1 + n]))
            i += 1 + n
    judge_batch.last_pre = pre       # cursor_pre of each document (None when the model's AnalyzedSource::new fails)
    return res


def run_lines_par(exe, lines, jobs=12, timeout=3000):
    """like common.run_lines but always spread over up to `jobs` processes (few, expensive lines)"""
    import subprocess
    if not lines:
        return []
    n = max(1, min(jobs, len(lines)))
    chunks = [lines[i::n] for i in range(n)]

    def one(chunk):
        p = subprocess.run([exe], input=("\n".join(chunk) + "\n").encode(), stdout=subprocess.PIPE,
                           stderr=subprocess.PIPE, timeout=timeout)
        out = p.stdout.decode().split("\n")
        if out and out[-1] == "":
            out.pop()
        if len(out) != len(chunk):
            raise RuntimeError("%s: %d lines in, %d lines out (rc=%d): %s" % (exe, len(chunk), len(out), p.returncode,
                                                                             p.stderr.decode()[-500:]))
        return out

    res = [None] * len(lines)
    with ThreadPoolExecutor(n) as ex:
        for i, r in enumerate(ex.map(one, chunks)):
            res[i::n] = r
    return res


def dumps(x):
    return json.dumps(x, sort_keys=True, ensure_ascii=False)
