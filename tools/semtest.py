#!/usr/bin/env python3
"""Differential test of the model of table::build / table::analyze / errors() (judge command 8) against the
implementation (harness binary dump_sem).  python3 stdlib only.

    tools/semtest.py [--seed N] [--n TOTAL] [--no-min] [--show K]

Streams (fractions of TOTAL): mixed (splgen.any_document: valid / damaged / soup / unicode), valid
(well-typed programs: the implementation must report no diagnostic), fault (one splfaults injector on a well-typed
program: the implementation should report exactly that one message), fault+damage (token damage on a faulty
program: error-tolerant paths with semantic content), multi (2-4 faults), hand (hand-written edge cases).
Reports model/implementation mismatches (minimised, shortest first), panics, and the fault programs whose
diagnostics are not exactly the expected single message.
"""
import argparse
import collections
import os
import random
import sys
import time

sys.path.insert(0, os.path.dirname(os.path.abspath(__file__)))
import common
import splfaults
import splgen

JUDGE = os.environ.get("SEM_JUDGE") or os.path.join(common.CACHE, "judge_build", "judge")
IMPL = os.path.join(common.TARGET, "debug", "dump_sem")

PMSG = ["MissingOpening", "MissingClosing", "MissingTrailingSemic", "UnexpectedCharacters", "ExpectedToken",
        "ConfusedToken"]

HAND = [
    "", "type main = int;", "type main = int; proc main() {}", "proc main(x: int) {}", "type t = int; proc main(a: int) {}",
    "proc main() {} proc main() { var q: int; q := 1; y := 2; }", "proc p() { var q: int; } proc p() { q := 1; } proc main() {}",
    "proc main() { var a: int; var a: array [2] of int; a := 1; }", "type a = array [2] of int; proc main(a: a) { var b: a; }",
    "proc main() { var int: int; var b: int; }", "type t = array [0x] of int; proc main() { var v: t; v[0] := 1; }",
    "type t = array [99999999999] of int; proc main() { var v: t; var w: t; v := w; }",
    "proc main() { var x: array [2] of array [3] of int; x[1] := x[1]; x[1][1<2] := 1; x[1][2][3] := 1; }",
    "proc p(ref a: int, ref a: int) {} proc main() { var i: int; p(i, 1); p(1); p(i, i, i); }",
    "proc main() { main := 1; int := 2; printi(main); main(1); q(); int(); }",
    "proc main() { var i: int; if (i) ; while (i + (1 < 2)) ; if ((1<2) = (2<3)) ; if ((1<2) + (2<3)) ; i := -(1<2); }",
    "proc main() { var i: int; i[0] := 1; i := i[0][1]; readi(i[0]); readi((i)); readi(i + 1); readi(1 < 2); }",
    "proc ( ) { } proc main() { x }", "type = int; type t = ; type t = u; type u = t;",
    "proc main() { var : int; var x int; var y: ; y := 1; x := 1; }", "proc p(a: array [2] of int, b, ref : int, ref c: x) {} proc main() {}",
    "proc main() { // c\n x // d\n := // e\n 1 ; }", "// doc\ntype // c\n t // d\n = int; //e\nproc //f\n main //g\n ( //h\n ) {}",
    "type t = array [2] of int; type u = array [2] of int; proc p(ref a: t) {} proc main() { var x: t; var y: u; p(x); p(y); x := y; }",
    "type a = array [2] of int; proc main() { var a: array [2] of int; var b: a; a := b; }",
    "proc main() { var a: array [2] of int; var b: array [2] of int; a := b; }",
    "proc main() { var a: array [2] of array of int; var b: array [2] of array [3] int; a[1] := b[1]; }",
    "proc main() { x := ; y[ := 1; z[1 := 2; f(1,; g(,); }", "proc main() { if (1 < ) ; while () ; if ; else ; }",
    "proc main(", "proc main() {", "proc", "type", "}", "proc main() { 1 := 2; }", "proc main() { x := - ; }",
    "proc exit() {} proc printi(i: int) {} type int = int; proc main() { exit(1); printi(); }",
    "proc main() { var i: int; i := 1 }\nproc q() { i := 2; }", "type t = int proc main() {}",
    "proc main() { drawLine(1, 2, 3, 4, 5, 6); setPixel(1 < 2, 1, 1); clearAll(); time(1); }",
    "proc p(a: int) { a(); p(p); p(a[1]); } proc main() { p(main); }",
]


def render(tokens, rng, comments=0.08, newline="\n"):
    """splgen.render, with one repair: a comment in the gap after a `/` token is separated from it (splgen glues
    them into `///...`, which turns the division sign into a part of the comment and the valid program into a
    syntactically broken one)."""
    out = []
    prev = ""
    for t in tokens + [""]:
        gap = ""
        if rng.random() < comments:
            gap += rng.choice(["", " ", newline]) + "//" + rng.choice(splgen.COMMENT_TEXTS) + newline
            if rng.random() < 0.2:
                gap += "//" + rng.choice(splgen.COMMENT_TEXTS) + newline
        r = rng.random()
        if r < 0.55:
            ws = " "
        elif r < 0.75:
            ws = newline + " " * rng.randrange(0, 9)
        elif r < 0.85:
            ws = ""
        elif r < 0.93:
            ws = rng.choice(["  ", "\t", " \t ", newline + newline, "\r\n" if newline == "\n" else newline])
        else:
            ws = newline
        gap += ws
        if t and not gap and splgen.needs_sep(prev, t):
            gap = " "
        if prev.endswith("/") and gap.startswith("/"):
            gap = " " + gap
        out.append(gap)
        out.append(t)
        prev = t if t else prev
    return "".join(out)


def shadows_type(prog):
    """does a parameter/variable carry the name of a declared type?  Inside that procedure the name then denotes
    the variable (the local table is searched first), so a later `var v: <name>` is NOT well-typed although
    splgen.well_typed_program treats it as such."""
    tnames = set(d[1] for d in prog if d[0] == "type") | {"int"}
    for d in prog:
        if d[0] == "proc":
            if tnames & (set(x[1] for x in d[2]) | set(x[0] for x in d[3])):
                return True
    return False


def well_typed(rng, ndecls=None):
    while True:
        # shadow=False: the fault injectors ADD declarations, calls and uses; legal shadowing is applied by the callers that want it
        prog, env = splgen.well_typed_program(rng, ndecls=ndecls, shadow=False)
        if not shadows_type(prog):
            return prog


def cmd(text):
    return "8 " + " ".join(str(ord(c)) for c in text)


class Rd:
    def __init__(self, nums):
        self.n, self.i = nums, 0

    def get(self):
        v = self.n[self.i]
        self.i += 1
        return v

    def text(self):
        k = self.get()
        s = "".join(chr(c) for c in self.n[self.i:self.i + k])
        self.i += k
        return s


def read_msg(r):
    cls = r.get()
    if cls == 1:
        t = r.get()
        if t in (0, 1):
            return (PMSG[t], chr(r.get()))
        if t == 2:
            return (PMSG[t],)
        if t in (3, 4):
            return (PMSG[t], r.text())
        return (PMSG[t], r.text(), r.text())
    if cls == 2:
        t = r.get()
        return (splfaults.BUILD_KINDS[t],) + ((r.text(),) if t < 7 else ())
    if cls == 3:
        t = r.get()
        k = splfaults.SEM_KINDS[t]
        if t in (4, 5, 8, 9, 13, 14):
            return (k, r.text())
        if t in (6, 7):
            return (k, r.text(), r.get())
        return (k,)
    raise ValueError("message class %d" % cls)


def read_errors(line):
    """None on panic, else [(start, end, (kind, args...))]"""
    nums = [int(x) for x in line.split()]
    if nums[0] != 0:
        return None
    r = Rd(nums)
    r.get()
    out = []
    for _ in range(r.get()):
        s, e = r.get(), r.get()
        out.append((s, e, read_msg(r)))
    return out


def run_both(texts):
    lines = [cmd(t) for t in texts]
    return common.run_lines(JUDGE, lines), common.run_lines(IMPL, lines)


def minimise(text, budget=40):
    """ddmin on characters, keeping 'model and implementation disagree'"""
    def bad(cands):
        a, b = run_both(cands)
        return [x != y for x, y in zip(a, b)]

    n = 2
    while len(text) >= 2 and budget > 0:
        budget -= 1
        size = max(1, len(text) // n)
        cands = [text[:i] + text[i + size:] for i in range(0, len(text), size)]
        res = bad(cands)
        hit = [c for c, r in zip(cands, res) if r]
        if hit:
            text = min(hit, key=len)
            n = max(n - 1, 2)
        elif size == 1:
            break
        else:
            n = min(len(text), n * 2)
    return text


def main():
    ap = argparse.ArgumentParser()
    ap.add_argument("--seed", type=int, default=int(os.environ.get("VERIF_SEED", "1")))
    ap.add_argument("--n", type=int, default=20000)
    ap.add_argument("--no-min", action="store_true")
    ap.add_argument("--show", type=int, default=8)
    args = ap.parse_args()
    rng = random.Random(args.seed * 7919 + 3)
    t0 = time.time()

    docs = []   # (stream, text, expected kind or None)
    n = args.n
    for _ in range(int(n * 0.40)):
        k, t = splgen.any_document(rng)
        docs.append(("mixed-" + k, t, None))
    for _ in range(int(n * 0.10)):
        prog = well_typed(rng)
        docs.append(("valid", render(splgen.flatten(prog), rng, newline=rng.choice(["\n", "\n", "\r\n"])), None))
    inj_hist = collections.Counter()
    i = 0
    while i < int(n * 0.30):
        prog = well_typed(rng, ndecls=rng.randrange(1, 5))
        inj = splfaults.INJECTORS[i % len(splfaults.INJECTORS)]
        r = splfaults.inject(prog, rng, inj)
        if r is None:
            continue
        p, kind = r
        inj_hist[kind] += 1
        docs.append(("fault", render(splgen.flatten(p), rng, comments=rng.choice([0.0, 0.08, 0.3])), kind))
        i += 1
    for _ in range(int(n * 0.01)):
        prog = well_typed(rng, ndecls=rng.randrange(1, 4))
        inj = rng.choice(splfaults.PROBES)
        r = splfaults.inject(prog, rng, inj)
        if r is not None:
            docs.append(("probe", render(splgen.flatten(r[0]), rng), inj.__name__ + ":" + r[1]))
    for _ in range(int(n * 0.12)):
        prog, _ = splgen.well_typed_program(rng, ndecls=rng.randrange(1, 4))
        r = splfaults.inject(prog, rng)
        if r is None:
            continue
        toks = splgen.damage(splgen.flatten(r[0]), rng, k=rng.choice([1, 1, 2, 3]))
        docs.append(("fault+damage", splgen.render(toks, rng), None))
    for _ in range(int(n * 0.08)):
        prog, _ = splgen.well_typed_program(rng, ndecls=rng.randrange(1, 4))
        try:
            for _ in range(rng.randrange(2, 5)):
                r = splfaults.inject(prog, rng)
                if r is not None:
                    prog = r[0]
            toks = splgen.flatten(prog)
        except Exception:
            continue   # injectors assume a well-typed input; a combination may not make sense
        docs.append(("multi", render(toks, rng), None))
    for t in HAND:
        docs.append(("hand", t, None))
    # prefixes of hand-written cases: unfinished input
    for t in HAND:
        for _ in range(3):
            if t:
                docs.append(("hand-cut", t[:rng.randrange(0, len(t))], None))

    texts = [d[1] for d in docs]
    model, impl = run_both(texts)
    wall = time.time() - t0

    per = collections.Counter(d[0] for d in docs)
    mism = [i for i in range(len(docs)) if model[i] != impl[i]]
    panics = [i for i in range(len(docs)) if impl[i].split()[0] == "1"]
    fuel = [i for i in range(len(docs)) if model[i].split()[0] == "2"]
    print("documents: %d  %s" % (len(docs), dict(per)))
    print("mismatches: %d   implementation panics: %d   model out of fuel: %d   wall %.1fs"
          % (len(mism), len(panics), len(fuel), wall))

    # diagnostics histogram of the implementation
    hist = collections.Counter()
    for i in range(len(docs)):
        errs = read_errors(impl[i])
        for e in errs or []:
            hist[e[2][0]] += 1
    print("implementation diagnostics by kind:", dict(sorted(hist.items())))

    # well-typed programs must be clean
    dirty = []
    for i, d in enumerate(docs):
        if d[0] == "valid":
            errs = read_errors(impl[i])
            if errs is None or errs:
                dirty.append(i)
    print("well-typed programs: %d, with diagnostics: %d" % (per["valid"], len(dirty)))
    for i in sorted(dirty, key=lambda i: len(texts[i]))[:args.show]:
        print("  DIRTY %r -> %s" % (texts[i], read_errors(impl[i])))

    # single faults: exactly the expected message
    odd = collections.defaultdict(list)
    for i, d in enumerate(docs):
        if d[0] == "fault":
            errs = read_errors(impl[i])
            kinds = None if errs is None else [e[2][0] for e in errs]
            if kinds != [d[2]]:
                odd[d[2]].append(i)
    print("single-fault programs: %d (per injector %s)" % (per["fault"], dict(inj_hist)))
    print("single-fault programs whose diagnostics are not exactly [expected]: %d" % sum(len(v) for v in odd.values()))
    for k in sorted(odd):
        ids = sorted(odd[k], key=lambda i: len(texts[i]))
        i = ids[0]
        print("  ODD expected %s: %d cases; shortest %r -> %s" % (k, len(ids), texts[i], read_errors(impl[i])))

    # rule probes (no dedicated message): report what the implementation says
    probes = collections.defaultdict(collections.Counter)
    for i, d in enumerate(docs):
        if d[0] == "probe":
            errs = read_errors(impl[i])
            probes[d[2]][str(None if errs is None else sorted(e[2][0] for e in errs))] += 1
    for k in sorted(probes):
        print("  PROBE %s: implementation diagnostics %s" % (k, dict(probes[k])))

    # every diagnostic that is built by Identifier::to_error must cover exactly the name it quotes
    named = set(["UndefinedType", "NotAType", "RedeclarationAsType", "MustBeAReferenceParameter",
                 "RedeclarationAsProcedure", "RedeclarationAsParameter", "RedeclarationAsVariable",
                 "UndefinedVariable", "NotAVariable"])
    badpos = []
    nnamed = 0
    for i in range(len(docs)):
        errs = read_errors(impl[i]) or []
        if not errs:
            continue
        b = texts[i].encode()
        for s_, e_, m in errs:
            if m[0] in named:
                nnamed += 1
                if b[s_:e_] != m[1].encode():
                    badpos.append((i, s_, e_, m))
            elif m[0] == "MainMustNotHaveParameters":
                nnamed += 1
                if b[s_:e_] != b"main":
                    badpos.append((i, s_, e_, m))
    print("name-carrying diagnostics: %d, not covering exactly the quoted name: %d" % (nnamed, len(badpos)))
    for i, s_, e_, m in sorted(badpos, key=lambda x: len(texts[x[0]]))[:args.show]:
        print("  BADPOS %r %s at %d..%d = %r" % (texts[i], m, s_, e_, texts[i].encode()[s_:e_]))

    for i in sorted(panics, key=lambda i: len(texts[i]))[:args.show]:
        print("  PANIC %s %r" % (docs[i][0], texts[i]))

    shown = 0
    for i in sorted(mism, key=lambda i: len(texts[i])):
        if shown >= args.show:
            break
        t = texts[i] if args.no_min else minimise(texts[i])
        a, b = run_both([t])
        print("  MISMATCH stream=%s text=%r\n    model %s\n    impl  %s" % (docs[i][0], t, a[0][:600], b[0][:600]))
        if a[0].split()[0] == "0" and b[0].split()[0] == "0":
            print("    model errors %s\n    impl  errors %s" % (read_errors(a[0]), read_errors(b[0])))
        shown += 1
    return 1 if mism else 0


if __name__ == "__main__":
    sys.exit(main())
