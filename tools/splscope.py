"""Scoping oracle for abstract SPL programs (splgen's nested tuples): every identifier occurrence of
`splgen.flatten(prog)` with the declaration it is bound to under SPL scoping — locals and parameters of the
enclosing procedure before globals; types must be declared before use; predefined entities have no declaration.
Independent of the implementation: computed from the derivation, never from LSP4SPL's tables.

occurrences(prog) -> list of dict
    tok        index of the identifier token in flatten(prog)
    name       spelling
    role       'type_decl' | 'proc_decl' | 'param_decl' | 'var_decl' | 'type_use' | 'var_use' | 'call'
    decl       index (into prog) of the enclosing global declaration
    kind       kind of the entity it is bound to: 'type' | 'proc' | 'param' | 'var' | None (unbound)
    bind_tok   token index of the declaring occurrence, None for predefined entities (`int`, builtins) / unbound
    bind_decl  index of the global declaration that contains the declaring occurrence (None if predefined)
    builtin    True for predefined entities
    is_decl    True when this occurrence is the declaring one
resolved types:  'int' | ('array', size_spelling, base, creator)  (creator: type name, or 'proc.var' for anonymous)
"""
import splgen


def _lit_value(sp):
    if sp.startswith("0x"):
        return int(sp[2:], 16)
    if sp.startswith("'"):
        return 10 if sp == "'\\n'" else ord(sp[1])
    return int(sp)


class Scope:
    def __init__(self):
        self.types = {"int": dict(tok=None, decl=None, rtype="int", builtin=True)}
        self.procs = {k: dict(tok=None, decl=None, params=[(r, "i", "int") for r in v], builtin=True)
                      for k, v in splgen.BUILTINS.items()}


def resolve_texpr(te, scope, creator):
    if te[0] == "named":
        e = scope.types.get(te[1])
        return e["rtype"] if e else None
    base = resolve_texpr(te[2], scope, creator)
    return ("array", te[1], base, creator)


def show_type(rt):
    """Display for DataType"""
    if rt is None:
        return "_"
    if rt == "int":
        return "int"
    return "array [%d] of %s" % (_lit_value(rt[1]), show_type(rt[2]))


def analyse(prog):
    """returns (occurrences, info) - info: per global declaration a dict with its token span, locals, signature"""
    scope = Scope()
    occs = []
    infos = []
    pos = 0

    def occ(tok, name, role, decl, kind, bind_tok, bind_decl, builtin=False, is_decl=False, extra=None):
        o = dict(tok=tok, name=name, role=role, decl=decl, kind=kind, bind_tok=bind_tok, bind_decl=bind_decl,
                 builtin=builtin, is_decl=is_decl)
        if extra:
            o.update(extra)
        occs.append(o)
        return o

    def walk_texpr(te, di, p):
        # returns new position; records type uses
        if te[0] == "named":
            e = scope.types.get(te[1])
            if e is None:
                occ(p, te[1], "type_use", di, None, None, None)
            else:
                occ(p, te[1], "type_use", di, "type", e["tok"], e["decl"], builtin=e["builtin"])
            return p + 1
        # array [ size ] of base
        return walk_texpr(te[2], di, p + 5)

    def walk_var(v, di, p, local):
        if v[0] == "name":
            bind_name(v[1], "var_use", di, p, local)
            return p + 1
        p = walk_var(v[1], di, p, local)
        p = walk_expr(v[2], di, p + 1, local)
        return p + 1

    def bind_name(name, role, di, p, local):
        if name in local:
            e = local[name]
            occ(p, name, role, di, e["kind"], e["tok"], di, extra=dict(rtype=e["rtype"], is_ref=e["is_ref"]))
        elif name in scope.procs:
            e = scope.procs[name]
            occ(p, name, role, di, "proc", e["tok"], e["decl"], builtin=e["builtin"])
        elif name in scope.types:
            e = scope.types[name]
            occ(p, name, role, di, "type", e["tok"], e["decl"], builtin=e["builtin"])
        else:
            occ(p, name, role, di, None, None, None)

    def walk_expr(e, di, p, local):
        k = e[0]
        if k == "lit":
            return p + 1
        if k == "var":
            return walk_var(e[1], di, p, local)
        if k == "neg":
            return walk_expr(e[1], di, p + 1, local)
        if k == "par":
            return walk_expr(e[1], di, p + 1, local) + 1
        p = walk_expr(e[2], di, p, local)
        return walk_expr(e[3], di, p + 1, local)

    def walk_stmt(s, di, p, local, calls):
        k = s[0]
        if k == "empty":
            return p + 1
        if k == "assign":
            p = walk_var(s[1], di, p, local)
            p = walk_expr(s[2], di, p + 1, local)
            return p + 1
        if k == "call":
            bind_name(s[1], "call", di, p, local)
            call = dict(name_tok=p, lparen=p + 1, commas=[], name=s[1])
            p += 2
            for i, a in enumerate(s[2]):
                if i:
                    call["commas"].append(p)
                    p += 1
                p = walk_expr(a, di, p, local)
            call["rparen"] = p
            call["semic"] = p + 1
            calls.append(call)
            return p + 2
        if k == "if":
            p = walk_expr(s[1], di, p + 2, local)
            p = walk_stmt(s[2], di, p + 1, local, calls)
            if s[3] is not None:
                p = walk_stmt(s[3], di, p + 1, local, calls)
            return p
        if k == "while":
            p = walk_expr(s[1], di, p + 2, local)
            return walk_stmt(s[2], di, p + 1, local, calls)
        p += 1
        for x in s[1]:
            p = walk_stmt(x, di, p, local, calls)
        return p + 1

    for di, d in enumerate(prog):
        start = pos
        if d[0] == "type":
            name = d[1]
            name_tok = pos + 1
            first = name not in scope.types and name not in scope.procs and name != "main"
            rtype = resolve_texpr(d[2], scope, name)
            o = occ(name_tok, name, "type_decl", di, "type", name_tok if first else None, di if first else None,
                    is_decl=first)
            end = walk_texpr(d[2], di, pos + 3)
            if first:
                scope.types[name] = dict(tok=name_tok, decl=di, rtype=rtype, builtin=False)
            else:
                o["kind"] = None
            pos = end + 1
            infos.append(dict(kind="type", name=name, start=start, end=pos, name_tok=name_tok, rtype=rtype, entered=first))
            continue
        name = d[1]
        name_tok = pos + 1
        first = name not in scope.types and name not in scope.procs
        o = occ(name_tok, name, "proc_decl", di, "proc", name_tok if first else None, di if first else None, is_decl=first)
        if not first:
            o["kind"] = None
        local = {}
        params = []
        p = pos + 3
        for i, (is_ref, pn, te) in enumerate(d[2]):
            if i:
                p += 1
            pstart = p
            if is_ref:
                p += 1
            rtype = resolve_texpr(te, scope, "%s.%s" % (name, pn))
            fresh = pn not in local
            occ(p, pn, "param_decl", di, "param", p if fresh else local[pn]["tok"], di, is_decl=fresh,
                extra=dict(rtype=rtype, is_ref=is_ref))
            if fresh:
                local[pn] = dict(kind="param", tok=p, rtype=rtype, is_ref=is_ref, start=pstart)
            p = walk_texpr(te, di, p + 2)
            params.append((is_ref, pn, rtype))
        p += 2  # ) {
        for vn, te in d[3]:
            vstart = p
            # a variable's type is looked up with the locals declared so far in scope
            rtype = resolve_texpr(te, scope, "%s.%s" % (name, vn))
            fresh = vn not in local
            occ(p + 1, vn, "var_decl", di, "var", p + 1 if fresh else local[vn]["tok"], di, is_decl=fresh,
                extra=dict(rtype=rtype, is_ref=False))
            if fresh:
                local[vn] = dict(kind="var", tok=p + 1, rtype=rtype, is_ref=False, start=vstart)
            p = walk_texpr(te, di, p + 3) + 1
        if first:
            scope.procs[name] = dict(tok=name_tok, decl=di, params=params, builtin=False)
        calls = []
        body_start = p
        stmt_starts = []
        for s in d[4]:
            stmt_starts.append(p)
            p = walk_stmt(s, di, p, local if first else {}, calls)
        pos = p + 1
        infos.append(dict(kind="proc", name=name, start=start, end=pos, name_tok=name_tok, params=params, locals=local,
                          calls=calls, entered=first, body_start=body_start, stmt_starts=stmt_starts, rbrace=p))
    return occs, infos, scope


def occurrences(prog):
    return analyse(prog)[0]


def signature(o, infos, scope):
    """the signature text hover shows for the entity an occurrence is bound to (Display of the table entry)"""
    k = o["kind"]
    if k in ("param", "var"):
        return "%s%s: %s" % ("ref " if o.get("is_ref") else "", o["name"], show_type(o.get("rtype")))
    if k == "proc":
        e = scope.procs[o["name"]]
        return "proc %s(%s)" % (o["name"], ", ".join("%s%s: %s" % ("ref " if r else "", n, show_type(t)) for r, n, t in e["params"]))
    if k == "type":
        return show_type(scope.types[o["name"]]["rtype"])
    return None
