#!/bin/bash
# runs the quick (or given) tier of every registered check one after the other; prints one line per check
cd "$(dirname "$0")/.."
tier=${1:-quick}
for id in $(python3 -c "import json; print(' '.join(c['property_id'] for c in json.load(open('MANIFEST.json'))['checks']))"); do
  s=$(date +%s)
  out=$(timeout 3000 ./check $id --tier $tier 2>&1)
  rc=$?
  echo "$id rc=$rc $(( $(date +%s) - s ))s $(echo "$out" | grep -c '^VIOLATION') violations; $(echo "$out" | grep -c '^KNOWN-FINDING') known" 
  echo "$out" | grep '^VIOLATION' | head -3
done
