"""Shared machinery of the formatter properties C09 / C10 / C11 (stdlib only).

  * generators: untyped but syntactically valid programs (same tuple form as splgen), an annotated flattening
    (role / owner / nesting depth of every token, from which gap kinds and expected indentation are derived),
    layouts with explicit comment placement;
  * the server driver (`textDocument/formatting` over stdio, restart on death, three-fold confirmation);
  * the model side (extracted judge command 9) and the common correspondence stage;
  * independent oracles' helpers: LSP edit application (UTF-16 positions), the real lexer through the harness,
    diagnostics through didOpen.
"""
import json
import os
import queue
import re
import threading
from concurrent.futures import ThreadPoolExecutor

import common
import enc
import lspclient
import splgen

# ------------------------------------------------------------------------------------------------
# untyped valid programs

NAMES = ["a", "b", "c", "i", "j", "n", "x", "y", "z", "sum", "tmp", "vec", "foo", "bar", "main", "int", "q1", "_t",
         "if_", "type1", "refs", "ofs", "proc_", "x_y", "printi", "A", "Zz9", "e", "else1", "arrayof", "v"]
CMP = ["=", "#", "<", "<=", ">", ">="]


def u_name(rng):
    return rng.choice(NAMES)


def u_lit(rng):
    r = rng.random()
    if r < 0.5:
        return str(rng.randrange(0, 300))
    if r < 0.6:
        return "0x%X" % rng.randrange(0, 70000)
    if r < 0.68:
        return "0x%x" % rng.randrange(0, 4096)
    if r < 0.72:
        return "0x00%x" % rng.randrange(0, 16)
    if r < 0.84:
        return "'%s'" % rng.choice("abcXYZ019 +-*/(){};:=<>#_'\\\"\t")
    if r < 0.9:
        return "'\\n'"
    if r < 0.96:
        return "00%d" % rng.randrange(0, 50)
    return str(rng.choice([0, 1, 2147483647, 4294967295]))


def u_var(rng, d):
    v = ("name", u_name(rng))
    while d < 3 and rng.random() < 0.18:
        v = ("index", v, u_cmp(rng, d + 1))
    return v


def u_primary(rng, d):
    r = rng.random()
    if d < 3 and r < 0.15:
        return ("par", u_cmp(rng, d + 1))
    if r < 0.55:
        return ("lit", u_lit(rng))
    return ("var", u_var(rng, d))


def u_factor(rng, d):
    if d < 4 and rng.random() < 0.15:
        return ("neg", u_factor(rng, d + 1))
    return u_primary(rng, d)


def u_mul(rng, d):
    e = u_factor(rng, d)
    while rng.random() < 0.2:
        e = ("bin", rng.choice("*/"), e, u_factor(rng, d))
    return e


def u_add(rng, d):
    e = u_mul(rng, d)
    while rng.random() < 0.25:
        e = ("bin", rng.choice("+-"), e, u_mul(rng, d))
    return e


def u_cmp(rng, d=0):
    e = u_add(rng, d)
    if rng.random() < (0.15 if d else 0.1):
        e = ("bin", rng.choice(CMP), e, u_add(rng, d))
    return e


def u_cond(rng):
    if rng.random() < 0.8:
        return ("bin", rng.choice(CMP), u_add(rng, 1), u_add(rng, 1))
    return u_cmp(rng, 1)


def u_texpr(rng, d=0):
    if d >= 3 or rng.random() < 0.6:
        return ("named", u_name(rng))
    return ("array", u_lit(rng), u_texpr(rng, d + 1))


def u_stmt(rng, d=0):
    r = rng.random()
    if r < 0.07:
        return ("empty",)
    if r < 0.4 or d >= 4:
        return ("assign", u_var(rng, 1), u_cmp(rng))
    if r < 0.58:
        return ("call", u_name(rng), [u_cmp(rng) for _ in range(rng.choice([0, 1, 1, 2, 3, 5]))])
    if r < 0.78:
        thn = u_stmt(rng, d + 1)
        els = u_stmt(rng, d + 1) if rng.random() < 0.55 else None
        if els is not None and splgen._open_if(thn):
            thn = ("block", [thn])
        return ("if", u_cond(rng), thn, els)
    if r < 0.88:
        return ("while", u_cond(rng), u_stmt(rng, d + 1))
    return ("block", [u_stmt(rng, d + 1) for _ in range(rng.choice([0, 0, 1, 2, 3]))])


def untyped_program(rng, ndecls=None):
    prog = []
    for _ in range(ndecls if ndecls is not None else rng.choice([0, 1, 1, 2, 3, 4])):
        if rng.random() < 0.3:
            prog.append(("type", u_name(rng), u_texpr(rng)))
        else:
            params = [(rng.random() < 0.3, u_name(rng), u_texpr(rng, 1)) for _ in range(rng.choice([0, 0, 1, 2, 3, 4, 6]))]
            vars_ = [(u_name(rng), u_texpr(rng, 1)) for _ in range(rng.choice([0, 0, 1, 2, 4]))]
            stmts = [u_stmt(rng) for _ in range(rng.choice([0, 1, 2, 3, 5, 8]))]
            prog.append(("proc", u_name(rng), params, vars_, stmts))
    return prog


def small_valid_program(rng, max_tokens=140):
    """(origin, prog) with 1..max_tokens tokens"""
    while True:
        if rng.random() < 0.5:
            o, prog = "typed", splgen.well_typed_program(rng, ndecls=rng.choice([1, 1, 2, 3]))[0]
        else:
            o, prog = "untyped", untyped_program(rng, ndecls=rng.choice([1, 1, 2, 3]))
        n = len(splgen.flatten(prog))
        if 0 < n <= max_tokens:
            return o, prog


def any_valid_program(rng):
    """(origin, prog): half well-typed (splgen), half untyped"""
    if rng.random() < 0.5:
        return "typed", splgen.well_typed_program(rng)[0]
    return "untyped", untyped_program(rng)


# ------------------------------------------------------------------------------------------------
# annotated flattening: role, owner and nesting depth of every token

class Tok:
    __slots__ = ("s", "role", "lead", "leaf", "depth", "ctx", "decl")

    def __init__(self, s, role, depth, lead=None, leaf=None, ctx=None):
        self.s, self.role, self.depth, self.lead, self.leaf, self.ctx = s, role, depth, lead, leaf, ctx
        self.decl = None


def _leaf(spellings, leaf, depth, ctx=None):
    out = [Tok(s, leaf, depth, leaf=leaf) for s in spellings]
    out[0].lead = leaf
    out[0].ctx = ctx
    return out


def _an_stmt(s, depth, ctx):
    """ctx: where the statement sits: body (procedure), item (block), then / else / loop (branch)"""
    k = s[0]
    if k in ("empty", "assign", "call"):
        return _leaf(splgen.fl_stmt(s), k, depth, ctx)
    if k == "block":
        out = [Tok("{", "block.lcurly", depth, lead="block", ctx=ctx)]
        for x in s[1]:
            out += _an_stmt(x, depth + 1, "item")
        return out + [Tok("}", "block.rcurly", depth)]
    if k == "if":
        out = [Tok("if", "if.kw", depth, lead="if", ctx=ctx), Tok("(", "if.lparen", depth)]
        out += [Tok(t, "if.cond", depth) for t in splgen.fl_expr(s[1])]
        out.append(Tok(")", "if.rparen", depth))
        out += _an_branch(s[2], depth, "then")
        if s[3] is not None:
            out.append(Tok("else", "if.else", depth))
            if s[3][0] == "if":
                out += _an_stmt(s[3], depth, "else")      # else-if chain: same depth, glued to the `else`
            else:
                out += _an_branch(s[3], depth, "else")
        return out
    out = [Tok("while", "while.kw", depth, lead="while", ctx=ctx), Tok("(", "while.lparen", depth)]
    out += [Tok(t, "while.cond", depth) for t in splgen.fl_expr(s[1])]
    out.append(Tok(")", "while.rparen", depth))
    return out + _an_branch(s[2], depth, "loop")


def _an_branch(s, depth, ctx):
    if s[0] == "block":
        return _an_stmt(s, depth, ctx)       # `{` stays on the header's line, its statements go one level deeper
    return _an_stmt(s, depth + 1, ctx)


def annotate(prog, gap_comments=None):
    """list of Tok for the whole program plus the final pseudo token `eof`.
    gap_comments ({gap: [bodies]}): a parameter list with a comment inside (or in front of) one of its parameters is
    printed one parameter per line, one level deep - like a list of more than three parameters"""
    toks = _annotate(prog, set())
    if gap_comments:
        ml = {toks[g].decl for g in gap_comments if gap_comments[g] and toks[g].leaf == "param"}
        if ml:
            toks = _annotate(prog, ml)
    return toks


def _annotate(prog, multiline_params):
    out = []
    for di, d in enumerate(prog):
        if d[0] == "type":
            out.append(Tok("type", "type.kw", 0, lead="type"))
            out.append(Tok(d[1], "type.name", 0))
            out.append(Tok("=", "type.eq", 0))
            out += [Tok(t, "type.texpr", 0) for t in splgen.fl_texpr(d[2])]
            out.append(Tok(";", "type.semic", 0))
            continue
        ml = (len(d[2]) > 3) or (di in multiline_params)
        out += [Tok("proc", "proc.kw", 0, lead="proc"), Tok(d[1], "proc.name", 0), Tok("(", "proc.lparen", 0)]
        for i, (r, n, t) in enumerate(d[2]):
            if i:
                out.append(Tok(",", "proc.comma", 1 if ml else 0))
            out += _leaf((["ref"] if r else []) + [n, ":"] + splgen.fl_texpr(t), "param", 1 if ml else 0)
        out += [Tok(")", "proc.rparen", 0), Tok("{", "proc.lcurly", 0)]
        for n, t in d[3]:
            out += _leaf(["var", n, ":"] + splgen.fl_texpr(t) + [";"], "var", 1)
        for s in d[4]:
            out += _an_stmt(s, 1, "body")
        out.append(Tok("}", "proc.rcurly", 0))
    di = -1
    for t in out:
        if t.lead in ("type", "proc"):
            di += 1
        t.decl = di
    out.append(Tok("", "eof", 0))
    return out


def gap_kind(toks, i):
    """kind of the gap in front of token i (i == len(toks)-1: before end of file), from the derivation alone"""
    t = toks[i]
    if t.lead is not None:
        if t.lead in ("type", "proc", "param", "var"):
            return "lead:" + t.lead
        return "lead:%s@%s" % (t.lead, t.ctx)
    if t.leaf is not None:
        return "in:" + t.leaf
    return "before:" + t.role


def spellings(toks):
    return [t.s for t in toks if t.role != "eof"]


# ------------------------------------------------------------------------------------------------
# layouts

WS_CHOICES = [" ", " ", " ", "\n", "\n  ", "\t", "  ", "\n\n", " \t ", "\n\t\t", ""]


def layout(spell, rng, gap_comments=None, newline="\n", dense=False, trailing=True):
    """text of the token spellings `spell` with random whitespace; gap_comments: {gap index: [comment bodies]}
    (gap len(spell) = before end of file).  A comment always ends its line."""
    out = []
    prev = ""
    for i, t in enumerate(list(spell) + [None]):
        gap = ""
        for c in (gap_comments or {}).get(i, ()):
            gap += rng.choice(["", " ", newline, newline + "    "]) + "//" + c + newline
        if dense:
            ws = ""
        else:
            ws = rng.choice(WS_CHOICES).replace("\n", newline)
        if t is None and not trailing:
            ws = ""
        gap += ws
        if t is not None and not gap and splgen.needs_sep(prev, t):
            gap = " "
        if gap.startswith("/") and prev.endswith("/"):
            gap = " " + gap          # `/` followed by a comment must not become `///...`
        out.append(gap)
        if t is not None:
            out.append(t)
            prev = t
    return "".join(out)


COMMENT_BODIES = ["", " x", " note", " TODO: fix", "// nested", " proc main() {}", " ä ö ü €", "\t tab ", " 😀 emoji", " a := b;",
                  "   padded   ", "*", " } else {", " 'x'"]


# ------------------------------------------------------------------------------------------------
# LSP text edits (independent python model: UTF-16 columns, lines end with \n, \r\n or \r)

_EOL = re.compile(r"\r\n|\r|\n")


def line_starts(t):
    return [0] + [m.end() for m in _EOL.finditer(t)]


def offset_of(t, line, col):
    ls = line_starts(t)
    if line >= len(ls):
        return len(t)
    i = ls[line]
    k = 0
    while i < len(t) and t[i] not in "\r\n":
        w = 2 if ord(t[i]) >= 0x10000 else 1
        if k + w > col:
            break
        k += w
        i += 1
    return i


def end_position(t):
    ls = line_starts(t)
    last = t[ls[-1]:]
    return (len(ls) - 1, sum(2 if ord(c) >= 0x10000 else 1 for c in last))


def apply_edit(t, rng4, new):
    sl, sc, el, ec = rng4
    a, b = offset_of(t, sl, sc), offset_of(t, el, ec)
    return t[:a] + new + t[b:]


# ------------------------------------------------------------------------------------------------
# the server

def _parse_response(r):
    """-> ('null',) | ('edit', (sl, sc, el, ec), newText) | ('odd', json)"""
    if not isinstance(r, dict) or "result" not in r or "error" in r:
        return ("odd", json.dumps(r, sort_keys=True)[:400])
    res = r["result"]
    if res is None:
        return ("null",)
    try:
        if len(res) != 1:
            return ("odd", json.dumps(res)[:400])
        e = res[0]
        rg = e["range"]
        return ("edit", (rg["start"]["line"], rg["start"]["character"], rg["end"]["line"], rg["end"]["character"]), e["newText"])
    except Exception:
        return ("odd", json.dumps(res)[:400])


class FmtServer:
    """one server process; restarted transparently when it dies"""

    def __init__(self, exe, tag, diagnostics=False):
        self.exe, self.tag, self.diag = exe, tag, diagnostics
        self.s = None
        self.n = 0
        self.starts = 0

    def _ensure(self):
        if self.s is None or self.s.p.poll() is not None:
            if self.s is not None:
                self.s.kill()
            self.s = lspclient.Server(self.exe)
            self.s.initialize(diagnostics=self.diag)
            self.starts += 1

    def _dead(self):
        code = self.s.wait(3.0)
        self.s.kill()
        self.s = None
        return ("dead", code)

    def format(self, text, insert_spaces, tab_size, timeout=8.0, want_diag=False):
        """-> response tuple (see _parse_response) or ('dead', exit code) / ('timeout',); with want_diag the
        diagnostics published for the document are appended"""
        self._ensure()
        self.n += 1
        uri = "file:///%s_%d.spl" % (self.tag, self.n)
        s = self.s
        s.open(uri, text)
        others = []
        rid = s.request_async("textDocument/formatting", {"textDocument": {"uri": uri},
                                                          "options": {"tabSize": tab_size, "insertSpaces": bool(insert_spaces)}})
        try:
            r = s.wait_response(rid, timeout, others)
        except queue.Empty:
            self.s.kill()
            self.s = None
            return ("timeout",)
        if r is None:
            return self._dead()
        s.close(uri)
        res = _parse_response(r)
        if want_diag:
            d = None
            for m in others:
                if m.get("method") == "textDocument/publishDiagnostics" and m["params"]["uri"] == uri:
                    d = m["params"]["diagnostics"]
            res = res + (d,)
        return res

    def kill(self):
        if self.s is not None:
            self.s.kill()
            self.s = None


def format_many(exe, jobs, workers=8, tag="f", diagnostics=False):
    """jobs: list of (text, insert_spaces, tab_size); returns the list of response tuples in order.
    The jobs are spread round-robin over `workers` server processes."""
    res = [None] * len(jobs)
    n = max(1, min(workers, len(jobs) // 20 + 1))

    def work(k):
        srv = FmtServer(exe, "%s%d" % (tag, k), diagnostics)
        try:
            for i in range(k, len(jobs), n):
                t, ins, ts = jobs[i]
                res[i] = srv.format(t, ins, ts, want_diag=diagnostics)
        finally:
            srv.kill()

    with ThreadPoolExecutor(n) as ex:
        list(ex.map(work, range(n)))
    return res


def confirm(exe, job, expect_fn, times=3):
    """DESIGN 4 'no alarms from timing': re-runs `job` in `times` fresh server processes; returns the list of
    observations if every one of them still fails `expect_fn(obs) -> bool (True = fine)`, else None"""
    seen = []
    for k in range(times):
        srv = FmtServer(exe, "cf%d" % k)
        try:
            o = srv.format(job[0], job[1], job[2], timeout=20.0)
        finally:
            srv.kill()
        if expect_fn(o):
            return None
        seen.append(o)
    return seen


# ------------------------------------------------------------------------------------------------
# the model (extracted judge, command 9) and the common correspondence stage

def judge_cmd(text, insert_spaces, tab_size):
    return " ".join(map(str, [9, 1 if insert_spaces else 0, tab_size] + [ord(c) for c in text]))


def enc_obs(o):
    """the judge's encoding of an observed response (None when the observation has no encoding)"""
    if o[0] == "null":
        return "0 0"
    if o[0] == "edit":
        sl, sc, el, ec = o[1]
        return " ".join(map(str, [0, 1, sl, sc, el, ec, len(o[2])] + [ord(c) for c in o[2]]))
    if o[0] == "dead":
        return "1"
    return None


def dec_model(line):
    n = [int(x) for x in line.split()]
    if n[:2] == [0, 0]:
        return ("null",)
    if n[:2] == [0, 1]:
        return ("edit", tuple(n[2:6]), "".join(chr(c) for c in n[7:]))
    if n == [1]:
        return ("panic",)
    return ("fuel-or-bad", n[:3])


def correspondence(ctx, exe, judge, jobs, origin, kernel_max_len=160, kernel_n=120, workers=8, obs=None):
    """Runs every job through the server and the extracted judge, a sample of the short ones through the kernel
    judge.  Returns dict(obs, model, mismatches=[index], kernel_cases, kernel_fail=[...], panics=[index])."""
    if obs is None:
        obs = format_many(exe, jobs, workers=workers, tag="c" + ctx.pid)
    model = common.run_lines(judge, [judge_cmd(*j) for j in jobs])
    mism = []
    for i, (o, m) in enumerate(zip(obs, model)):
        if enc_obs(o) != m:
            mism.append(i)
    # a deviation only counts when it reproduces in three fresh processes
    confirmed = []
    for i in sorted(mism, key=lambda i: len(jobs[i][0]))[:12]:
        seen = confirm(exe, jobs[i], lambda o, i=i: enc_obs(o) == model[i])
        if seen is not None:
            confirmed.append((i, seen))
    panics = [i for i, o in enumerate(obs) if o[0] in ("dead", "timeout")]
    short = [i for i in range(len(jobs)) if len(jobs[i][0]) <= kernel_max_len and i not in mism and enc_obs(obs[i]) is not None]
    pick = ctx.rng.sample(short, min(len(short), kernel_n))
    kc = [(enc.nums(judge_cmd(*jobs[i])), enc.nums(enc_obs(obs[i]))) for i in pick]
    kfail = [pick[k] for k in common.kernel_judge(ctx.pid + "fmt", kc)] if kc else []
    return dict(obs=obs, model=model, mismatches=mism, confirmed=confirmed, unconfirmed=len(mism) - len(confirmed) if len(mism) <= 12 else None,
                kernel_cases=len(kc), kernel_fail=kfail, panics=panics)


# ------------------------------------------------------------------------------------------------
# the real lexer (harness `dump`, command 1) and diagnostics

def lex_real(dump_exe, texts):
    """token lists (dicts: kind, val, s, e, errs) of the real lexer"""
    lines = common.run_lines(dump_exe, ["1 " + " ".join(str(ord(c)) for c in t) for t in texts])
    out = []
    for ln in lines:
        r = enc.Reader(enc.nums(ln))
        if r.get() != 0:
            out.append(None)
            continue
        out.append(enc.read_tokens(r))
    return out


WS = set("\t\n\x0b\x0c\r \x85\xa0\u1680\u2000\u2001\u2002\u2003\u2004\u2005\u2006\u2007\u2008\u2009\u200a\u2028\u2029\u202f\u205f\u3000")


def trim(s):
    """str::trim (Unicode White_Space)"""
    a, b = 0, len(s)
    while a < b and s[a] in WS:
        a += 1
    while b > a and s[b - 1] in WS:
        b -= 1
    return s[a:b]


def code_tokens(toks):
    """non-comment tokens as (kind, value) - the comparison surface of C09"""
    return [(t["kind"], t["val"]) for t in toks if t["kind"] != "Comment"]


def comment_texts(toks):
    return [trim(t["val"]) for t in toks if t["kind"] == "Comment"]


SYNTAX_MSG = re.compile(r"^(missing (opening|closing|trailing)|unexpected `|expected `|invalid integer literal)")


def byte_to_char_offsets(text):
    """byte offset (UTF-8) -> index into the python string"""
    m = {}
    b = 0
    for i, c in enumerate(text):
        m[b] = i
        b += len(c.encode("utf-8"))
    m[b] = len(text)
    return m


def diag_keys(text, toks, diags):
    """diagnostics 'up to layout': (message, number of code tokens ending at or before the start, number of code
    tokens ending at or before the end), in the order published"""
    b2c = byte_to_char_offsets(text)
    ends = sorted(b2c[t["e"]] for t in toks if t["kind"] not in ("Comment", "Eof"))
    out = []
    import bisect
    for d in diags:
        a = offset_of(text, d["range"]["start"]["line"], d["range"]["start"]["character"])
        b = offset_of(text, d["range"]["end"]["line"], d["range"]["end"]["character"])
        out.append((d["message"], bisect.bisect_right(ends, a), bisect.bisect_right(ends, b)))
    return out


def load_corpus(pid):
    d = os.path.join(common.VERIF, "corpus", pid)
    out = []
    if os.path.isdir(d):
        for f in sorted(os.listdir(d)):
            if f.endswith(".json"):
                c = json.load(open(os.path.join(d, f)))
                c["_file"] = f
                out.append(c)
    return out


def option_settings():
    return [(True, n) for n in range(9)] + [(False, 4)]


def unit_of(insert_spaces, tab_size):
    return " " * tab_size if insert_spaces else "\t"


# ------------------------------------------------------------------------------------------------
# pieces shared by the three checks

def setup(ctx):
    """builds server, judge and harness; on failure records the violation and returns None"""
    exe, log = common.build_server()
    if exe is None:
        ctx.violation(dict(kind="build-failure", what="lsp4spl does not build", log=log[-3000:]), no_input=True)
        return None
    judge, jlog = common.build_judge()
    hdir, hlog = common.build_harness()
    if judge is None or hdir is None:
        ctx.violation(dict(kind="build-failure", what="judge or harness does not build", log=(jlog or hlog)[-3000:]), no_input=True)
        return None
    return exe, judge, os.path.join(hdir, "dump")


def leading_gaps(toks):
    """gap indices in leading positions (in front of a declaration, parameter, variable declaration or statement)
    whose comments the formatter is expected to keep"""
    return [i for i, t in enumerate(toks) if t.lead is not None]


def valid_doc(rng, comment_gaps="any", pcomment=0.12, prog=None, origin=None):
    """one syntactically valid document: dict(origin, prog, toks, text, gap_comments, newline)"""
    if prog is None:
        origin, prog = any_valid_program(rng)
    toks = annotate(prog)
    sp = spellings(toks)
    if comment_gaps == "none":
        cand = []
    elif comment_gaps == "leading":
        cand = leading_gaps(toks)
    else:
        cand = list(range(len(sp) + 1))
    gc = {}
    p = rng.choice([0, pcomment, pcomment, 3 * pcomment])
    for g in cand:
        if rng.random() < p:
            gc[g] = [rng.choice(COMMENT_BODIES) for _ in range(rng.choice([1, 1, 1, 2]))]
    nl = rng.choice(["\n", "\n", "\r\n"])
    text = layout(sp, rng, gc, newline=nl, dense=rng.random() < 0.15, trailing=rng.random() < 0.8)
    return dict(origin=origin, prog=prog, toks=annotate(prog, gc), text=text, gap_comments=gc, newline=nl)


def malformed_doc(rng):
    r = rng.random()
    if r < 0.55:
        _, prog = any_valid_program(rng)
        toks = splgen.damage(splgen.flatten(prog), rng, k=rng.choice([1, 1, 1, 2, 3, 6]))
        return "damaged", splgen.render(toks, rng, comments=rng.choice([0, 0.1]), newline=rng.choice(["\n", "\n", "\r\n"]))
    if r < 0.9:
        return "soup", splgen.token_soup(rng)
    return "unicode", splgen.random_unicode(rng)


def report_correspondence(ctx, corr, jobs, labels, have_failing_input, proved, what):
    """DESIGN 4: a broken tie (correspondence or proof) without a failing input is still a violation"""
    if have_failing_input:
        return
    if corr["confirmed"] or corr["kernel_fail"]:
        if corr["confirmed"]:
            i, seen = corr["confirmed"][0]
            ctx.violation(dict(kind="correspondence", property=ctx.pid, what=what, document=jobs[i][0], insert_spaces=jobs[i][1],
                               tab_size=jobs[i][2], stream=labels[i], server=[list(map(str, s)) for s in seen][0],
                               model=list(map(str, dec_model(corr["model"][i]))), mismatches=len(corr["mismatches"])), no_input=True)
        else:
            i = corr["kernel_fail"][0]
            ctx.violation(dict(kind="correspondence", property=ctx.pid, what="kernel judge (vm_compute) disagrees with the server / extracted judge",
                               document=jobs[i][0], insert_spaces=jobs[i][1], tab_size=jobs[i][2]), no_input=True)
    elif not proved:
        ctx.violation(dict(kind="proof", property=ctx.pid, detail=getattr(ctx, "proof_failure", None)), no_input=True)


def corr_cov(corr, labels):
    hist = {}
    for l in labels:
        hist[l] = hist.get(l, 0) + 1
    return {"traces_validated_against_impl": len(labels), "correspondence_stream_histogram": hist,
            "correspondence_mismatches": len(corr["mismatches"]), "correspondence_mismatches_confirmed": len(corr["confirmed"]),
            "kernel_judge_cases": corr["kernel_cases"], "kernel_judge_failures": len(corr["kernel_fail"]),
            "server_deaths_or_timeouts": len(corr["panics"]),
            "model_panics_predicted": sum(1 for m in corr["model"] if m == "1")}


def depth_failures(out_text, lexed, ann, unit):
    """every line of the formatted text starts with exactly depth x unit, where depth is the nesting depth (from the
    generator's derivation `ann`) of the first token on the line; a comment line has the depth of the code token that
    follows it.  Returns a list of (line number, line, expected depth, why)."""
    code = [t for t in ann if t.role != "eof"]
    out_code = [t for t in lexed if t["kind"] not in ("Comment", "Eof")]
    if len(out_code) != len(code):
        return [(-1, "", -1, "the formatted text has %d code tokens, the program %d" % (len(out_code), len(code)))]
    b2c = byte_to_char_offsets(out_text)
    lines = out_text.split("\n")
    starts = [0]
    for l in lines[:-1]:
        starts.append(starts[-1] + len(l) + 1)
    first = {}
    k = 0
    import bisect
    seq = []
    for t in lexed:
        if t["kind"] == "Eof":
            continue
        if t["kind"] == "Comment":
            seq.append((b2c[t["s"]], None))
        else:
            seq.append((b2c[t["s"]], k))
            k += 1
    for j, (pos, ck) in enumerate(seq):
        ln = bisect.bisect_right(starts, pos) - 1
        if ln not in first:
            if ck is None:
                nxt = next((c for _, c in seq[j:] if c is not None), None)
                d = code[nxt].depth if nxt is not None else 0
            else:
                d = code[ck].depth
            first[ln] = d
    bad = []
    for ln, l in enumerate(lines):
        ws = l[:len(l) - len(l.lstrip(" \t"))]
        if ln not in first:
            if l != "":
                bad.append((ln, l, -1, "a line without tokens is not empty"))
            continue
        if ws != unit * first[ln]:
            bad.append((ln, l, first[ln], "leading whitespace %r is not %d x the unit %r" % (ws, first[ln], unit)))
    return bad


# ------------------------------------------------------------------------------------------------
# shrinking a failing program (only used when a violation was found)

def _stmt_variants(s):
    k = s[0]
    if k == "block":
        for i in range(len(s[1])):
            yield ("block", s[1][:i] + s[1][i + 1:])
            for v in _stmt_variants(s[1][i]):
                yield ("block", s[1][:i] + [v] + s[1][i + 1:])
        if len(s[1]) == 1:
            yield s[1][0]
    elif k == "if":
        yield s[2]
        if s[3] is not None:
            yield s[3]
            if not splgen._open_if(s[2]):
                yield ("if", s[1], s[2], None)
            for v in _stmt_variants(s[3]):
                yield ("if", s[1], s[2], v)
        for v in _stmt_variants(s[2]):
            if s[3] is None or not splgen._open_if(v):
                yield ("if", s[1], v, s[3])
        if s[1] != ("lit", "1"):
            yield ("if", ("lit", "1"), s[2], s[3])
    elif k == "while":
        yield s[2]
        for v in _stmt_variants(s[2]):
            yield ("while", s[1], v)
        if s[1] != ("lit", "1"):
            yield ("while", ("lit", "1"), s[2])
    elif k == "assign":
        if s[2] != ("lit", "1"):
            yield ("assign", s[1], ("lit", "1"))
        if s[1][0] != "name":
            yield ("assign", ("name", "x"), s[2])
        yield ("empty",)
    elif k == "call":
        if s[2]:
            yield ("call", s[1], [])
        yield ("empty",)


def program_variants(prog):
    """strictly smaller (or simpler) syntactically valid variants of an abstract program"""
    for i in range(len(prog)):
        yield prog[:i] + prog[i + 1:]
    for i, d in enumerate(prog):
        if d[0] == "type":
            if d[2] != ("named", "int"):
                yield prog[:i] + [("type", d[1], ("named", "int"))] + prog[i + 1:]
            continue
        _, name, params, vars_, stmts = d
        for j in range(len(params)):
            yield prog[:i] + [("proc", name, params[:j] + params[j + 1:], vars_, stmts)] + prog[i + 1:]
        for j in range(len(vars_)):
            yield prog[:i] + [("proc", name, params, vars_[:j] + vars_[j + 1:], stmts)] + prog[i + 1:]
        for j in range(len(stmts)):
            yield prog[:i] + [("proc", name, params, vars_, stmts[:j] + stmts[j + 1:])] + prog[i + 1:]
            for v in _stmt_variants(stmts[j]):
                yield prog[:i] + [("proc", name, params, vars_, stmts[:j] + [v] + stmts[j + 1:])] + prog[i + 1:]


def _norm(x):
    """JSON round trip turns tuples into lists; the generators compare with tuples"""
    if isinstance(x, (list, tuple)):
        return tuple(_norm(y) for y in x) if (x and isinstance(x[0], str)) or isinstance(x, tuple) else [_norm(y) for y in x]
    return x


def shrink_program(prog, still_fails, budget=250):
    """greedy descent over program_variants while still_fails(variant) holds; returns the smallest failing program"""
    prog = list(prog)
    n = 0
    progress = True
    while progress and n < budget:
        progress = False
        for v in program_variants(prog):
            n += 1
            if n > budget:
                break
            try:
                bad = still_fails(v)
            except Exception:
                bad = False
            if bad:
                prog = v
                progress = True
                break
    return prog


def plain_text(prog):
    """a conventional, comment-free rendering: tokens separated by single spaces"""
    return " ".join(splgen.flatten(prog)) + "\n"
