#!/bin/bash
# Serialised full .vo build of the Coq development (same lock as tools/common.py: .cache/coq.lock).
#   tools/coqmake.sh [make targets relative to coq/, e.g. theories/Props/C04.vo]   (no target = everything)
cd "$(dirname "$0")/../coq" || exit 2
mkdir -p ../.cache
exec flock ../.cache/coq.lock bash -c '
  if [ ! -f Makefile ] || [ _CoqProject -nt Makefile ]; then coq_makefile -f _CoqProject -o Makefile >/dev/null || exit 2; fi
  timeout 3000 make -j12 "COQC=timeout 1200 coqc" "$@" 2>&1 | grep -v "^COQDEP\|^COQC\|^make\[" ; exit ${PIPESTATUS[0]}' _ "$@"
