"""Random single text changes on a document (byte range on character boundaries + replacement)."""
import splgen

SNIPPETS = ["", "", " ", "\n", ";", "x", "1", "if", "proc", "type", "{", "}", "(", ")", "// c\n", ":=", "=", ",", "x := 1;", "y",
            "while (x < 1) { }", "var z: int;", "f(1, 2);", "'a'", "0x", "é", "[", "]", "else", "ref", "a[0] := 2;", " + 1",
            "proc g() {}\n", "type t = int;\n", "/", "//", "'", "0x", "0", "<", ">", ":", "*", "\r"]


def byte_offsets(text):
    """byte offset of every character boundary"""
    out, b = [0], 0
    for c in text:
        b += len(c.encode("utf-8"))
        out.append(b)
    return out


def token_boundaries(text):
    """character indices where a 'word' starts or ends (cheap approximation of token boundaries)"""
    idx = {0, len(text)}
    for i in range(1, len(text)):
        a, b = text[i - 1], text[i]
        if (a.isalnum() or a == "_") != (b.isalnum() or b == "_") or a.isspace() != b.isspace():
            idx.add(i)
    return sorted(idx)


def random_change(rng, text):
    """returns (cs_bytes, ce_bytes, insertion)"""
    offs = byte_offsets(text)
    n = len(text)
    r = rng.random()
    if r < 0.6 and n:
        tb = token_boundaries(text)
        i = rng.choice(tb)
        j = rng.choice([i, i, min(n, i + rng.randrange(0, 6)), rng.choice([k for k in tb if k >= i] or [i])])
    else:
        i = rng.randrange(0, n + 1)
        j = min(n, i + rng.choice([0, 0, 1, 1, 2, 3, 8, 30]))
    if j - i > 60 and rng.random() < 0.8:
        j = i + rng.randrange(0, 10)
    ins = rng.choice(SNIPPETS)
    if rng.random() < 0.15:
        ins = splgen.token_soup(rng, rng.randrange(0, 6))
    if i == j and not ins:
        ins = rng.choice(["x", ";", " ", "1"])
    return offs[i], offs[j], ins


def apply_change(text, cs, ce, ins):
    b = text.encode("utf-8")
    return (b[:cs] + ins.encode("utf-8") + b[ce:]).decode("utf-8")
