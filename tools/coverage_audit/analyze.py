import json, collections, sys
d = json.load(open('/tmp/cov_audit/export.json'))['data'][0]
src = {}
def line(f, n):
    if f not in src:
        src[f] = open(f).read().split('\n')
    return src[f][n-1] if 0 < n <= len(src[f]) else ''
funcs = collections.OrderedDict()   # (file, ls, cs) -> dict
for fn in d['functions']:
    f = fn['filenames'][0]
    regs = [r for r in fn['regions'] if r[5] == 0 and r[6] == 0]
    if not regs: continue
    r0 = regs[0]
    key = (f, r0[0], r0[1])
    e = funcs.setdefault(key, dict(count=0, names=set(), regions=collections.OrderedDict(), branches=collections.OrderedDict()))
    e['count'] += fn['count']
    e['names'].add(fn['name'])
    for r in regs:
        if r[7] != 0: continue
        k = tuple(r[:4])
        e['regions'][k] = e['regions'].get(k, 0) + r[4]
    for b in fn['branches']:
        k = tuple(b[:4])
        t, fl = e['branches'].get(k, (0, 0))
        e['branches'][k] = (t + b[4], fl + b[5])
out = open('/tmp/cov_audit/functions_summary.txt', 'w')
never, partial = [], []
for (f, ls, cs), e in sorted(funcs.items()):
    nreg = len(e['regions']); miss = [k for k, c in e['regions'].items() if c == 0]
    rel = f.replace('/tmp/cov_repo/', '')
    out.write("%-50s %6d:%-3d calls=%-9d regions=%3d missed=%3d inst=%d  %s\n" % (rel, ls, cs, e['count'], nreg, len(miss), len(e['names']), line(f, ls).strip()[:90]))
    if e['count'] == 0:
        never.append((rel, ls, cs, line(f, ls).strip()))
    elif miss or any(t == 0 or fl == 0 for t, fl in e['branches'].values()):
        partial.append((rel, f, ls, e, miss))
out.close()
o = open('/tmp/cov_audit/never_executed_functions.txt', 'w')
for rel, ls, cs, t in never:
    o.write("%s:%d:%d  %s\n" % (rel, ls, cs, t))
o.close()
o = open('/tmp/cov_audit/missed_regions.txt', 'w')
for rel, f, ls, e, miss in partial:
    o.write("== %s:%d  %s   (calls=%d)\n" % (rel, ls, line(f, ls).strip()[:100], e['count']))
    for k in miss:
        a, b, c, dd = k
        txt = line(f, a)[b-1:(dd-1 if a == c else None)].strip() if a == c else line(f, a)[b-1:].strip() + " ... (to %d:%d)" % (c, dd)
        o.write("   region %d:%d-%d:%d  count=0   %s\n" % (a, b, c, dd, txt[:110]))
    for k, (t, fl) in e['branches'].items():
        if t == 0 or fl == 0:
            a, b, c, dd = k
            o.write("   branch %d:%d-%d:%d  true=%d false=%d   %s\n" % (a, b, c, dd, t, fl, line(f, a)[b-1:(dd-1 if a == c else None)].strip()[:90]))
o.close()
print(len(funcs), "functions;", len(never), "never executed;", len(partial), "partially")
