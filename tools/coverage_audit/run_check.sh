#!/bin/bash
# usage: run_check.sh C07   -> runs one check against /tmp/cov_repo with instrumented binaries, merges its profile
P=$1
B=/root/.rustup/toolchains/nightly-x86_64-unknown-linux-gnu/lib/rustlib/x86_64-unknown-linux-gnu/bin
export VERIF_REPO=/tmp/cov_repo
export RUSTUP_TOOLCHAIN=nightly
export RUSTC_WRAPPER=/tmp/cov_audit/rustc_cov_wrapper.sh
export CARGO_BUILD_JOBS=8
export CARGO_NET_OFFLINE=true
export LLVM_PROFILE_FILE="/tmp/cov_prof/$P/%p-%m.profraw%c"
mkdir -p /tmp/cov_audit/logs /tmp/cov_audit/prof /tmp/cov_prof/$P
cd /verif
start=$(date +%s)
./check $P --tier quick > /tmp/cov_audit/logs/$P.log 2>&1
rc=$?
end=$(date +%s)
n=$(find /tmp/cov_prof/$P -name '*.profraw' | wc -l)
sz=$(du -sm /tmp/cov_prof/$P | cut -f1)
find /tmp/cov_prof/$P -name '*.profraw' > /tmp/cov_prof/$P.list
$B/llvm-profdata merge -sparse --failure-mode=warn -j 8 -f /tmp/cov_prof/$P.list -o /tmp/cov_audit/prof/$P.profdata 2> /tmp/cov_audit/logs/$P.merge.log
mrc=$?
if [ $mrc -eq 0 ]; then rm -rf /tmp/cov_prof/$P /tmp/cov_prof/$P.list; fi
echo "$P rc=$rc wall=$((end-start))s profraw=$n (${sz}MB) merge_rc=$mrc :: $(tail -1 /tmp/cov_audit/logs/$P.log)" | tee -a /tmp/cov_audit/logs/summary.txt
