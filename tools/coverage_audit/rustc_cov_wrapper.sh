#!/bin/bash
# RUSTC_WRAPPER: cargo calls  <wrapper> <rustc> <args...>
# Adds -C instrument-coverage only to the crates of interest (project crates + harness crates), so that
# registry dependencies (tokio, serde, nom, ...) stay uninstrumented: small .profraw files, fast binaries.
rustc="$1"; shift
name=""
prev=""
for a in "$@"; do
  if [ "$prev" = "--crate-name" ]; then name="$a"; fi
  prev="$a"
done
case "$name" in
  spl_frontend|lsp4spl|verif_harness|dump|dump_sem|dump_hist|dump_decl|codec_direct|oracle_lex|probe)
    # -runtime-counter-relocation: needed on ELF for the continuous mode (%c in LLVM_PROFILE_FILE), which keeps
    # the counters in an mmap of the .profraw file, so that a SIGKILLed server still leaves its profile behind
    exec "$rustc" "$@" -C instrument-coverage -Z coverage-options=branch -C llvm-args=-runtime-counter-relocation
    ;;
  *)
    exec "$rustc" "$@"
    ;;
esac
