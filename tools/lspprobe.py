#!/usr/bin/env python3
"""lspprobe.py <method> <text> [line char]... : opens <text> in the built server and sends textDocument/<method> at each
position (default: every position of the text); prints compact answers.  Debug helper."""
import json
import os
import sys

sys.path.insert(0, os.path.dirname(os.path.abspath(__file__)))
import common
import lspclient


def main():
    exe = os.environ.get("LSP_EXE") or common.build_server()[0]
    method, text = sys.argv[1], sys.argv[2]
    pos = [(int(sys.argv[i]), int(sys.argv[i + 1])) for i in range(3, len(sys.argv) - 1, 2)]
    if not pos:
        for l, line in enumerate(text.split("\n")):
            pos += [(l, c) for c in range(len(line) + 1)]
    s = lspclient.Server(exe)
    s.initialize()
    uri = "file:///probe.spl"
    s.open(uri, text)
    last = None
    for l, c in pos:
        params = {"textDocument": {"uri": uri}, "position": {"line": l, "character": c}}
        if method == "references":
            params["context"] = {"includeDeclaration": True}
        if method == "rename":
            params["newName"] = "renamed"
        try:
            r = s.request("textDocument/" + method, params, timeout=3.0)
        except Exception as e:  # noqa
            r = "NO RESPONSE: %s" % e
        out = json.dumps(r, sort_keys=True)
        if out != last:
            print("(%d,%d) %s" % (l, c, out[:int(os.environ.get("W", "400"))]))
            last = out
    s.kill()


if __name__ == "__main__":
    main()
