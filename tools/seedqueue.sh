#!/bin/bash
# confirm + detect a list of seeded changes one after the other:  tools/seedqueue.sh C09/A C09/B ...
cd "$(dirname "$0")/.."
for t in "$@"; do
  python3 tools/seedtest.py confirm "$t"
  python3 tools/seedtest.py detect "$t"
done
