(* C04 - the SPL grammar as an abstract syntax whose shape IS the derivation, with a comment slot in
   front of every token.

   Cross-read against editors/nvim/tree-sitter-spl/grammar.js and the comments of spl_frontend/src/parser.rs:

     program   ::= gdecl* EOF
     gdecl     ::= 'type' ident '=' texpr ';'
                 | 'proc' ident '(' [param (',' param)*] ')' '{' vardecl* stmt* '}'
     param     ::= ['ref'] ident ':' texpr
     vardecl   ::= 'var' ident ':' texpr ';'
     texpr     ::= ident | 'array' '[' intlit ']' 'of' texpr
     stmt      ::= ';' | var ':=' expr ';' | ident '(' [expr (',' expr)*] ')' ';'
                 | 'if' '(' expr ')' stmt ['else' stmt]        (else binds to the nearest if)
                 | 'while' '(' expr ')' stmt | '{' stmt* '}'
     expr      ::= add [cmpop add]                              (one comparison, not associative)
     add       ::= mul | add ('+'|'-') mul                      (left associative)
     mul       ::= factor | mul ('*'|'/') factor                (left associative)
     factor    ::= intlit | var | '-' factor | '(' expr ')'
     var       ::= ident | var '[' expr ']'

   The precedence levels and the left-nesting of the operator chains are explicit in the TYPES
   (acmp > aadd > amul > afac; `MBin`/`ABin` take the chain on the left and one operand of the next
   level on the right), so no tree of this syntax can describe a derivation the grammar does not have.
   The only shape the types do not exclude is the dangling else; `else_ok` does (the then-branch of an
   if-with-else must not end in an if-without-else).

   Every constructor argument of type [cs] is the list of comment texts that sit between the previous
   token and the token it is written in front of (`flatten` shows which).

   `flatten`  : the token kinds of the program in source order, comments included.
   `expected` : the spl_frontend syntax tree (Model/Ast.v) the grammar mandates for it: every AstInfo range and
                every Reference offset is computed from lengths of `flatten`ed pieces, nothing else; no errors.
   Ranges are token-index ranges relative to the enclosing Reference, and the range of a node starts at
   the first comment in front of its first token - except that the comments in front of a declaration
   (`type`, `proc`, `var`, parameter) are its doc comments: they belong to the declaration's range and
   are listed in its `doc`, and are not part of the range of the declaration's first child. *)
From Spl Require Export Model.Ast.

Local Open Scope nat_scope.

Definition cs := list text.
Definition cm (c : cs) : list kind := map Comment c.

Inductive alit := LDec (v : N) | LHex (v : N) | LChr (c : char).
Inductive mulop := MTimes | MDivide.
Inductive addop := APlus | AMinus.
Inductive cmpop := CEq | CNe | CLt | CLe | CGt | CGe.

Inductive avar :=
| AName (c : cs) (x : text)                               (* c x *)
| AIndex (v : avar) (c1 : cs) (e : acmp) (c2 : cs)        (* v c1 [ e c2 ] *)
with afac :=
| FLit (c : cs) (l : alit)                                (* c lit *)
| FVar (v : avar)
| FNeg (c : cs) (f : afac)                                (* c - f *)
| FPar (c1 : cs) (e : acmp) (c2 : cs)                     (* c1 ( e c2 ) *)
with amul :=
| MFac (f : afac)
| MBin (m : amul) (c : cs) (op : mulop) (f : afac)        (* m c op f *)
with aadd :=
| AMul (m : amul)
| ABin (a : aadd) (c : cs) (op : addop) (m : amul)        (* a c op m *)
with acmp :=
| CAdd (a : aadd)
| CBin (l : aadd) (c : cs) (op : cmpop) (r : aadd).       (* l c op r *)

Inductive atype :=
| TName (c : cs) (x : text)                                            (* c x *)
| TArr (ca cl cz : cs) (size : alit) (cr co : cs) (base : atype).       (* ca array cl [ cz size cr ] co of base *)

(* comma-separated non-empty tails: (slot of the comma, element) *)
Definition aargs := option (acmp * list (cs * acmp)).

Inductive astmt :=
| SEmp (c : cs)                                                         (* c ; *)
| SAsg (v : avar) (c1 : cs) (e : acmp) (c2 : cs)                        (* v c1 := e c2 ; *)
| SCal (c1 : cs) (f : text) (c2 : cs) (a : aargs) (c3 c4 : cs)          (* c1 f c2 ( a c3 ) c4 ; *)
| SIfT (c1 c2 : cs) (e : acmp) (c3 : cs) (t : astmt)                    (* c1 if c2 ( e c3 ) t *)
| SIfE (c1 c2 : cs) (e : acmp) (c3 : cs) (t : astmt) (c4 : cs) (s : astmt)   (* ... t c4 else s *)
| SWhl (c1 c2 : cs) (e : acmp) (c3 : cs) (b : astmt)                    (* c1 while c2 ( e c3 ) b *)
| SBlk (c1 : cs) (b : astmts) (c2 : cs)                                 (* c1 { b c2 } *)
with astmts := SNil | SCons (s : astmt) (r : astmts).

Inductive aparam :=
| PVal (c : cs) (x : text) (cc : cs) (t : atype)                        (* c x cc : t *)
| PRef (cr c : cs) (x : text) (cc : cs) (t : atype).                    (* cr ref c x cc : t *)
Definition aparams := option (aparam * list (cs * aparam)).

(* c1 var c2 x c3 : t c4 ; *)
Record avardecl := { v_c1 : cs; v_c2 : cs; v_x : text; v_c3 : cs; v_t : atype; v_c4 : cs }.

Inductive adecl :=
| DType (c1 c2 : cs) (x : text) (c3 : cs) (t : atype) (c4 : cs)         (* c1 type c2 x c3 = t c4 ; *)
| DProc (c1 c2 : cs) (x : text) (c3 : cs) (ps : aparams) (c4 c5 : cs)   (* c1 proc c2 x c3 ( ps c4 ) c5 { *)
        (vs : list avardecl) (b : astmts) (c6 : cs).                    (*    vs b c6 } *)

(* decls, then the comments in front of EOF *)
Record aprog := { a_decls : list adecl; a_ceof : cs }.

(* ---- dangling else ---- *)
(* would an `else` written after s be taken by an if inside s ? *)
Fixpoint open_if (s : astmt) : bool :=
  match s with
  | SIfT _ _ _ _ _ => true
  | SIfE _ _ _ _ _ _ s' => open_if s'
  | SWhl _ _ _ _ b => open_if b
  | _ => false
  end.

Fixpoint else_ok (s : astmt) : bool :=
  match s with
  | SIfT _ _ _ _ t => else_ok t
  | SIfE _ _ _ _ t _ s' => negb (open_if t) && else_ok t && else_ok s'
  | SWhl _ _ _ _ b => else_ok b
  | SBlk _ b _ => else_oks b
  | _ => true
  end
with else_oks (b : astmts) : bool :=
  match b with SNil => true | SCons s r => else_ok s && else_oks r end.

Definition decl_ok (d : adecl) : bool :=
  match d with DType _ _ _ _ _ _ => true | DProc _ _ _ _ _ _ _ _ b _ => else_oks b end.
Definition prog_ok (p : aprog) : bool := forallb decl_ok (a_decls p).

(* ---- flatten ---- *)
Definition k_lit (l : alit) : kind :=
  match l with LDec v => IntT (IntOk v) | LHex v => HexT (IntOk v) | LChr c => CharT c end.
Definition k_mul (o : mulop) : kind := match o with MTimes => Times | MDivide => Divide end.
Definition k_add (o : addop) : kind := match o with APlus => Plus | AMinus => Minus end.
Definition k_cmp (o : cmpop) : kind :=
  match o with CEq => EqT | CNe => NeqT | CLt => LtT | CLe => LeT | CGt => GtT | CGe => GeT end.

Fixpoint fl_var (v : avar) : list kind :=
  match v with
  | AName c x => cm c ++ [Ident x]
  | AIndex v c1 e c2 => fl_var v ++ cm c1 ++ LBracket :: fl_cmp e ++ cm c2 ++ [RBracket]
  end
with fl_fac (f : afac) : list kind :=
  match f with
  | FLit c l => cm c ++ [k_lit l]
  | FVar v => fl_var v
  | FNeg c f => cm c ++ Minus :: fl_fac f
  | FPar c1 e c2 => cm c1 ++ LParen :: fl_cmp e ++ cm c2 ++ [RParen]
  end
with fl_mul (m : amul) : list kind :=
  match m with
  | MFac f => fl_fac f
  | MBin m c op f => fl_mul m ++ cm c ++ k_mul op :: fl_fac f
  end
with fl_add (a : aadd) : list kind :=
  match a with
  | AMul m => fl_mul m
  | ABin a c op m => fl_add a ++ cm c ++ k_add op :: fl_mul m
  end
with fl_cmp (e : acmp) : list kind :=
  match e with
  | CAdd a => fl_add a
  | CBin l c op r => fl_add l ++ cm c ++ k_cmp op :: fl_add r
  end.

Fixpoint fl_type (t : atype) : list kind :=
  match t with
  | TName c x => cm c ++ [Ident x]
  | TArr ca cl cz size cr co base =>
      cm ca ++ KArray :: cm cl ++ LBracket :: cm cz ++ k_lit size :: cm cr ++ RBracket :: cm co ++ KOf :: fl_type base
  end.

(* comma-separated tails *)
Definition fl_tail {A} (f : A -> list kind) (l : list (cs * A)) : list kind :=
  flat_map (fun ca => cm (fst ca) ++ Comma :: f (snd ca)) l.
Definition fl_sep {A} (f : A -> list kind) (o : option (A * list (cs * A))) : list kind :=
  match o with None => [] | Some (a, l) => f a ++ fl_tail f l end.

Fixpoint fl_stmt (s : astmt) : list kind :=
  match s with
  | SEmp c => cm c ++ [Semic]
  | SAsg v c1 e c2 => fl_var v ++ cm c1 ++ Assign :: fl_cmp e ++ cm c2 ++ [Semic]
  | SCal c1 f c2 a c3 c4 => cm c1 ++ Ident f :: cm c2 ++ LParen :: fl_sep fl_cmp a ++ cm c3 ++ RParen :: cm c4 ++ [Semic]
  | SIfT c1 c2 e c3 t => cm c1 ++ KIf :: cm c2 ++ LParen :: fl_cmp e ++ cm c3 ++ RParen :: fl_stmt t
  | SIfE c1 c2 e c3 t c4 s' =>
      cm c1 ++ KIf :: cm c2 ++ LParen :: fl_cmp e ++ cm c3 ++ RParen :: fl_stmt t ++ cm c4 ++ KElse :: fl_stmt s'
  | SWhl c1 c2 e c3 b => cm c1 ++ KWhile :: cm c2 ++ LParen :: fl_cmp e ++ cm c3 ++ RParen :: fl_stmt b
  | SBlk c1 b c2 => cm c1 ++ LCurly :: fl_stmts b ++ cm c2 ++ [RCurly]
  end
with fl_stmts (b : astmts) : list kind :=
  match b with SNil => [] | SCons s r => fl_stmt s ++ fl_stmts r end.

Definition fl_param (p : aparam) : list kind :=
  match p with
  | PVal c x cc t => cm c ++ Ident x :: cm cc ++ Colon :: fl_type t
  | PRef cr c x cc t => cm cr ++ KRef :: cm c ++ Ident x :: cm cc ++ Colon :: fl_type t
  end.

Definition fl_vardecl (v : avardecl) : list kind :=
  cm (v_c1 v) ++ KVar :: cm (v_c2 v) ++ Ident (v_x v) :: cm (v_c3 v) ++ Colon :: fl_type (v_t v) ++ cm (v_c4 v) ++ [Semic].

Definition fl_decl (d : adecl) : list kind :=
  match d with
  | DType c1 c2 x c3 t c4 => cm c1 ++ KType :: cm c2 ++ Ident x :: cm c3 ++ EqT :: fl_type t ++ cm c4 ++ [Semic]
  | DProc c1 c2 x c3 ps c4 c5 vs b c6 =>
      cm c1 ++ KProc :: cm c2 ++ Ident x :: cm c3 ++ LParen :: fl_sep fl_param ps ++ cm c4 ++ RParen :: cm c5 ++ LCurly ::
      flat_map fl_vardecl vs ++ fl_stmts b ++ cm c6 ++ [RCurly]
  end.

(* the token kinds of the program, without the final Eof *)
Definition flatten (p : aprog) : list kind := flat_map fl_decl (a_decls p) ++ cm (a_ceof p).

(* ---- expected ---- *)
(* [o] is always the index of the node's first token (its first leading comment), relative to the
   enclosing Reference; [len] abbreviates the number of tokens of a flattened piece. *)
Notation len l := (length l).

Definition v_lit (l : alit) : N := match l with LDec v | LHex v => v | LChr c => (c mod 256)%N end.
Definition o_mul (o : mulop) : operator := match o with MTimes => OMul | MDivide => ODiv end.
Definition o_add (o : addop) : operator := match o with APlus => OAdd | AMinus => OSub end.
Definition o_cmp (o : cmpop) : operator :=
  match o with CEq => OEqu | CNe => ONeq | CLt => OLst | CLe => OLse | CGt => OGrt | CGe => OGre end.

(* one token with its slot *)
Definition x_ident (o : nat) (c : cs) (x : text) : ident := {| id_val := x; id_info := mkinfo o (o + len c + 1) |}.
Definition x_lit (o : nat) (c : cs) (l : alit) : intlit := {| il_val := Some (v_lit l); il_info := mkinfo o (o + len c + 1) |}.

Fixpoint x_var (o : nat) (v : avar) : variable :=
  match v with
  | AName c x => NamedVar (x_ident o c x)
  | AIndex v' c1 e c2 =>
      (* the index expression is a Reference: offset = its first token, its own ranges start at 0 *)
      ArrAccess (x_var o v') (Some (x_cmp 0 e, o + len (fl_var v') + len c1 + 1)) (mkinfo o (o + len (fl_var v)))
  end
with x_fac (o : nat) (f : afac) : expr :=
  match f with
  | FLit c l => EInt (x_lit o c l)
  | FVar v => EVar (x_var o v)
  | FNeg c f' => EUn OSub (x_fac (o + len c + 1) f') (mkinfo o (o + len (fl_fac f)))
  | FPar c1 e c2 => EBrack (x_cmp (o + len c1 + 1) e) (mkinfo o (o + len (fl_fac f)))
  end
with x_mul (o : nat) (m : amul) : expr :=
  match m with
  | MFac f => x_fac o f
  | MBin m' c op f => EBin (o_mul op) (x_mul o m') (x_fac (o + len (fl_mul m') + len c + 1) f) (mkinfo o (o + len (fl_mul m)))
  end
with x_add (o : nat) (a : aadd) : expr :=
  match a with
  | AMul m => x_mul o m
  | ABin a' c op m => EBin (o_add op) (x_add o a') (x_mul (o + len (fl_add a') + len c + 1) m) (mkinfo o (o + len (fl_add a)))
  end
with x_cmp (o : nat) (e : acmp) : expr :=
  match e with
  | CAdd a => x_add o a
  | CBin l c op r => EBin (o_cmp op) (x_add o l) (x_add (o + len (fl_add l) + len c + 1) r) (mkinfo o (o + len (fl_cmp e)))
  end.

Fixpoint x_type (o : nat) (t : atype) : typeexpr :=
  match t with
  | TName c x => TNamed (x_ident o c x)
  | TArr ca cl cz size cr co base =>
      let o_size := o + len ca + 1 + len cl + 1 in
      let o_base := o_size + len cz + 1 + len cr + 1 + len co + 1 in
      TArray (Some (x_lit o_size cz size)) (Some (x_type 0 base, o_base)) (mkinfo o (o + len (fl_type t)))
  end.

(* a comma-separated list: every element is a Reference whose offset is its own first token (the
   token after the comma and the comma's comments) *)
Fixpoint x_tail {A B} (fl : A -> list kind) (x : A -> B) (o : nat) (l : list (cs * A)) : list (B * nat) :=
  match l with
  | [] => []
  | (c, a) :: r => (x a, o + len c + 1) :: x_tail fl x (o + len c + 1 + len (fl a)) r
  end.
Definition x_sep {A B} (fl : A -> list kind) (x : A -> B) (o : nat) (l : option (A * list (cs * A))) : list (B * nat) :=
  match l with None => [] | Some (a, r) => (x a, o) :: x_tail fl x (o + len (fl a)) r end.

Fixpoint x_stmt (o : nat) (s : astmt) : stmt :=
  match s with
  | SEmp c => SEmpty (mkinfo o (o + len (fl_stmt s)))
  | SAsg v c1 e c2 =>
      SAssign (x_var o v) (Some (x_cmp 0 e, o + len (fl_var v) + len c1 + 1)) (mkinfo o (o + len (fl_stmt s)))
  | SCal c1 f c2 a c3 c4 =>
      SCall (x_ident o c1 f) (x_sep fl_cmp (x_cmp 0) (o + len c1 + 1 + len c2 + 1) a) (mkinfo o (o + len (fl_stmt s)))
  | SIfT c1 c2 e c3 t =>
      let o_e := o + len c1 + 1 + len c2 + 1 in
      let o_t := o_e + len (fl_cmp e) + len c3 + 1 in
      SIf (Some (x_cmp 0 e, o_e)) (Some (x_stmt 0 t, o_t)) None (mkinfo o (o + len (fl_stmt s)))
  | SIfE c1 c2 e c3 t c4 s' =>
      let o_e := o + len c1 + 1 + len c2 + 1 in
      let o_t := o_e + len (fl_cmp e) + len c3 + 1 in
      let o_s := o_t + len (fl_stmt t) + len c4 + 1 in
      SIf (Some (x_cmp 0 e, o_e)) (Some (x_stmt 0 t, o_t)) (Some (x_stmt 0 s', o_s)) (mkinfo o (o + len (fl_stmt s)))
  | SWhl c1 c2 e c3 b =>
      let o_e := o + len c1 + 1 + len c2 + 1 in
      let o_b := o_e + len (fl_cmp e) + len c3 + 1 in
      SWhile (Some (x_cmp 0 e, o_e)) (Some (x_stmt 0 b, o_b)) (mkinfo o (o + len (fl_stmt s)))
  | SBlk c1 b c2 => SBlock (x_stmts (o + len c1 + 1) b) (mkinfo o (o + len (fl_stmt s)))
  end
(* a statement sequence: every statement is a Reference at its own first token *)
with x_stmts (o : nat) (b : astmts) : list (stmt * nat) :=
  match b with
  | SNil => []
  | SCons s r => (x_stmt 0 s, o) :: x_stmts (o + len (fl_stmt s)) r
  end.

(* parameters and variable declarations are References: their own range starts at 0 and includes the
   doc comments, the name's range does not (when the name is the first token) *)
Definition x_param (p : aparam) : paramdecl :=
  match p with
  | PVal c x cc t =>
      PValid c false (Some (x_ident (len c) [] x)) (Some (x_type 0 t, len c + 1 + len cc + 1)) (mkinfo 0 (len (fl_param p)))
  | PRef cr c x cc t =>
      PValid cr true (Some (x_ident (len cr + 1) c x)) (Some (x_type 0 t, len cr + 1 + len c + 1 + len cc + 1))
        (mkinfo 0 (len (fl_param p)))
  end.

Definition x_vardecl (v : avardecl) : vardecl :=
  VValid (v_c1 v) (Some (x_ident (len (v_c1 v) + 1) (v_c2 v) (v_x v)))
    (Some (x_type 0 (v_t v), len (v_c1 v) + 1 + len (v_c2 v) + 1 + len (v_c3 v) + 1))
    (mkinfo 0 (len (fl_vardecl v))).

Fixpoint x_vardecls (o : nat) (l : list avardecl) : list (vardecl * nat) :=
  match l with [] => [] | v :: r => (x_vardecl v, o) :: x_vardecls (o + len (fl_vardecl v)) r end.

Definition x_decl (d : adecl) : gdecl :=
  match d with
  | DType c1 c2 x c3 t c4 =>
      GType {| td_doc := c1; td_name := Some (x_ident (len c1 + 1) c2 x);
               td_ty := Some (x_type 0 t, len c1 + 1 + len c2 + 1 + len c3 + 1);
               td_info := mkinfo 0 (len (fl_decl d)) |}
  | DProc c1 c2 x c3 ps c4 c5 vs b c6 =>
      let o_ps := len c1 + 1 + len c2 + 1 + len c3 + 1 in
      let o_vs := o_ps + len (fl_sep fl_param ps) + len c4 + 1 + len c5 + 1 in
      GProc {| pd_doc := c1; pd_name := Some (x_ident (len c1 + 1) c2 x);
               pd_params := x_sep fl_param x_param o_ps ps;
               pd_vars := x_vardecls o_vs vs;
               pd_stmts := x_stmts (o_vs + len (flat_map fl_vardecl vs)) b;
               pd_info := mkinfo 0 (len (fl_decl d)) |}
  end.

Fixpoint x_decls (o : nat) (l : list adecl) : list (gdecl * nat) :=
  match l with [] => [] | d :: r => (x_decl d, o) :: x_decls (o + len (fl_decl d)) r end.

(* the program's range ends with its last declaration: the comments in front of EOF are outside *)
Definition expected (p : aprog) : program :=
  {| pg_decls := x_decls 0 (a_decls p); pg_info := mkinfo 0 (len (flat_map fl_decl (a_decls p))) |}.

(* ---- "no syntax diagnostic": the tree carries no error anywhere ---- *)
Definition clean (i : info) : bool := match i_errs i with [] => true | _ => false end.
Definition clean_ident (i : ident) : bool := clean (id_info i).
Definition clean_lit (i : intlit) : bool := clean (il_info i) && match il_val i with Some _ => true | None => false end.
Definition clean_opt {A} (f : A -> bool) (o : option A) : bool := match o with Some a => f a | None => false end.

Fixpoint clean_var (v : variable) : bool :=
  match v with
  | NamedVar i => clean_ident i
  | ArrAccess a idx inf => clean_var a && clean_opt (fun r => clean_expr (fst r)) idx && clean inf
  end
with clean_expr (e : expr) : bool :=
  match e with
  | EBin _ l r inf => clean_expr l && clean_expr r && clean inf
  | EBrack x inf => clean_expr x && clean inf
  | EInt i => clean_lit i
  | EUn _ x inf => clean_expr x && clean inf
  | EVar v => clean_var v
  | EErr _ => false
  end.

Fixpoint clean_texpr (t : typeexpr) : bool :=
  match t with
  | TNamed i => clean_ident i
  | TArray size base inf => clean_opt clean_lit size && clean_opt (fun r => clean_texpr (fst r)) base && clean inf
  end.

Fixpoint clean_stmt (s : stmt) : bool :=
  match s with
  | SEmpty inf => clean inf
  | SAssign v e inf => clean_var v && clean_opt (fun r => clean_expr (fst r)) e && clean inf
  | SCall n args inf => clean_ident n && forallb (fun r => clean_expr (fst r)) args && clean inf
  | SIf c t e inf =>
      clean_opt (fun r => clean_expr (fst r)) c && clean_opt (fun r => clean_stmt (fst r)) t
      && match e with Some r => clean_stmt (fst r) | None => true end && clean inf
  | SWhile c b inf => clean_opt (fun r => clean_expr (fst r)) c && clean_opt (fun r => clean_stmt (fst r)) b && clean inf
  | SBlock b inf => forallb (fun r => clean_stmt (fst r)) b && clean inf
  | SError _ => false
  end.

Definition clean_vardecl (v : vardecl) : bool :=
  match v with
  | VValid _ n t inf => clean_opt clean_ident n && clean_opt (fun r => clean_texpr (fst r)) t && clean inf
  | VError _ => false
  end.
Definition clean_paramdecl (p : paramdecl) : bool :=
  match p with
  | PValid _ _ n t inf => clean_opt clean_ident n && clean_opt (fun r => clean_texpr (fst r)) t && clean inf
  | PError _ => false
  end.
Definition clean_gdecl (g : gdecl) : bool :=
  match g with
  | GType d => clean_opt clean_ident (td_name d) && clean_opt (fun r => clean_texpr (fst r)) (td_ty d) && clean (td_info d)
  | GProc d =>
      clean_opt clean_ident (pd_name d) && forallb (fun r => clean_paramdecl (fst r)) (pd_params d)
      && forallb (fun r => clean_vardecl (fst r)) (pd_vars d) && forallb (fun r => clean_stmt (fst r)) (pd_stmts d)
      && clean (pd_info d)
  | GError _ => false
  end.
(* no error attached anywhere, no error node, no missing (None) mandatory child *)
Definition tree_clean (p : program) : bool :=
  forallb (fun r => clean_gdecl (fst r)) (pg_decls p) && clean (pg_info p).
