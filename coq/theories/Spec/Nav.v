(* The formal reading of the navigation properties C12 (go-to) and C13 (references / rename) over the
   Coq model - definitions only, no proofs (Proofs/GotoProofs.v, Proofs/RefsProofs.v), executable, so
   that the judge can decide instances (Judge/RunNav.v, command 37).

   Occurrences, bindings and expected answers are computed from the TREE alone, never from the
   symbol table (the identifier nodes inside statements and type expressions are enumerated with the
   tree walks of Model/Refs.v under the always-true test `all`; that the walks reach every
   identifier token is checked by the judge: command 37 lists the tokens of the occurrences and the
   check compares them with the identifier tokens of the generated program). *)
From Coq Require Import Lia Arith PeanoNat Bool List NArith Permutation.
From Spl Require Export Model.Goto Model.Refs.
Import ListNotations.
Local Open Scope nat_scope.

(* ------------------------------------------------------------------------------------------------
   The formal reading of C12.

   Occurrences: every identifier node of the tree with its syntactic role, the name of the
   procedure around it and its absolute token range (the identifier is the LAST token of the range).
   Binding under SPL scoping, from the tree alone: a declaring occurrence is bound to itself; a
   type identifier to the type declaration of that name; a variable use or a called name to the
   parameter / variable of that name of the enclosing procedure, else to the procedure declaration
   of that name; nothing else (predefined entities have no declaration). *)

Inductive role := RTypeDecl | RProcDecl | RParamDecl | RVarDecl | RTypeUse | RVarUse | RCall.

Definition role_eqb (a b : role) : bool :=
  match a, b with
  | RTypeDecl, RTypeDecl | RProcDecl, RProcDecl | RParamDecl, RParamDecl | RVarDecl, RVarDecl
  | RTypeUse, RTypeUse | RVarUse, RVarUse | RCall, RCall => true
  | _, _ => false
  end.

(* o_ty: for a declaration of a type / parameter / variable, the shape of its type expression:
   Some (Some T) = the named type T, Some None = an array type written in place *)
Record occ := { o_id : ident; o_role : role; o_proc : option text; o_ty : option (option text) }.

Definition all (i : ident) : bool := true.

Definition ty_shape (t : option (typeexpr * nat)) : option (option text) :=
  match t with
  | Some (TNamed i, _) => Some (Some (id_val i))
  | Some (TArray _ _ _, _) => Some None
  | None => None
  end.

Definition mk_occs (off : nat) (r : role) (p : option text) (l : list ident) : list occ :=
  map (fun i => {| o_id := shift_ident i off; o_role := r; o_proc := p; o_ty := None |}) l.

Definition param_occs (off : nat) (p : option text) (ps : list (paramdecl * nat)) : list occ :=
  flat_map (fun x =>
    match fst x with
    | PValid _ _ (Some i) ty _ =>
        [{| o_id := shift_ident (shift_ident i (snd x)) off; o_role := RParamDecl; o_proc := p; o_ty := ty_shape ty |}]
    | _ => []
    end) ps.

Definition var_occs (off : nat) (p : option text) (vs : list (vardecl * nat)) : list occ :=
  flat_map (fun x =>
    match fst x with
    | VValid _ (Some i) ty _ =>
        [{| o_id := shift_ident (shift_ident i (snd x)) off; o_role := RVarDecl; o_proc := p; o_ty := ty_shape ty |}]
    | _ => []
    end) vs.

Definition occs_of_decl (g : gdecl * nat) : list occ :=
  let off := snd g in
  match fst g with
  | GType td =>
      match td_name td with
      | Some i => [{| o_id := shift_ident i off; o_role := RTypeDecl; o_proc := None; o_ty := ty_shape (td_ty td) |}]
      | None => []
      end
      ++ mk_occs off RTypeUse None
           (match td_ty td with Some (te, toff) => opt_list (ident_in_texpr te toff) | None => [] end)
  | GProc pd =>
      let p := option_map id_val (pd_name pd) in
      mk_occs off RProcDecl p (opt_list (pd_name pd))
      ++ param_occs off p (pd_params pd)
      ++ mk_occs off RTypeUse p (types_in_params all (pd_params pd))
      ++ var_occs off p (pd_vars pd)
      ++ mk_occs off RTypeUse p (types_in_vars all (pd_vars pd))
      ++ mk_occs off RCall p (procs_in_stmts all (pd_stmts pd))
      ++ mk_occs off RVarUse p (vars_in_stmts all (pd_stmts pd))
  | GError _ => []
  end.

Definition occurrences (p : program) : list occ := flat_map occs_of_decl (pg_decls p).

Definition o_name (o : occ) : text := id_val (o_id o).
(* index of the identifier's own token *)
Definition o_tok (o : occ) : nat := i_e (id_info (o_id o)) - 1.

Definition opt_text_eqb (a b : option text) : bool :=
  match a, b with
  | Some x, Some y => text_eqb x y
  | None, None => true
  | _, _ => false
  end.

Definition find_declaring (occs : list occ) (roles : list role) (name : text) (proc : option (option text)) : option occ :=
  find (fun x => existsb (role_eqb (o_role x)) roles && text_eqb (o_name x) name
                 && match proc with Some p => opt_text_eqb (o_proc x) p | None => true end) occs.

Definition binding (occs : list occ) (o : occ) : option occ :=
  match o_role o with
  | RTypeDecl | RProcDecl | RParamDecl | RVarDecl => Some o
  | RTypeUse => find_declaring occs [RTypeDecl] (o_name o) None
  | RVarUse | RCall =>
      match find_declaring occs [RParamDecl; RVarDecl] (o_name o) (Some (o_proc o)) with
      | Some x => Some x
      | None => find_declaring occs [RProcDecl] (o_name o) None
      end
  end.

Definition loc_of_occ (d : doc) (o : occ) : option loc :=
  match nth_error (d_toks d) (o_tok o) with
  | Some t => Some (pos_range (ts t, te t) (d_text d))
  | None => None
  end.

Definition spec_declaration (d : doc) (o : occ) : option loc :=
  match binding (occurrences (d_ast d)) o with
  | Some b => loc_of_occ d b
  | None => None
  end.

Definition spec_implementation (d : doc) (o : occ) : option loc :=
  match binding (occurrences (d_ast d)) o with
  | Some b => match o_role b with RProcDecl => loc_of_occ d b | _ => None end
  | None => None
  end.

(* the declaration that created the array type named T: follow `type T = S` to the first
   declaration whose type expression is an array written in place *)
Fixpoint creator_decl (occs : list occ) (fuel : nat) (name : text) : option occ :=
  match fuel with
  | O => None
  | S f =>
      match find_declaring occs [RTypeDecl] name None with
      | Some t =>
          match o_ty t with
          | Some None => Some t
          | Some (Some s) => creator_decl occs f s
          | None => None
          end
      | None => None
      end
  end.

Definition spec_type_definition (d : doc) (o : occ) : option loc :=
  let occs := occurrences (d_ast d) in
  match binding occs o with
  | Some b =>
      match o_role b with
      | RTypeDecl => loc_of_occ d b
      | RParamDecl | RVarDecl =>
          match o_ty b with
          | Some (Some t) =>
              match creator_decl occs (length occs) t with Some c => loc_of_occ d c | None => None end
          | _ => None
          end
      | _ => None
      end
  | None => None
  end.

(* a text the implementation accepts without any diagnostic *)
Definition clean_doc (t : text) (d : doc) : Prop :=
  new_doc_res t = ODone d /\ doc_errors_res d = ROk []
  /\ forallb (fun tok => match terr tok with [] => true | _ => false end) (d_toks d) = true.

(* the position (l, c) lies inside the identifier token of occurrence o *)
Definition cursor_inside (d : doc) (o : occ) (l c : N) : Prop :=
  exists tok, nth_error (d_toks d) (o_tok o) = Some tok
              /\ in_range (ts tok, te tok) (get_insertion_index l c (d_text d)) = true.

Definition full_statement : Prop :=
  forall t d o l c,
    clean_doc t d -> In o (occurrences (d_ast d)) -> cursor_inside d o l c ->
    goto_declaration d l c = ROk (spec_declaration d o)
    /\ goto_definition d l c = ROk (spec_declaration d o)
    /\ goto_type_definition d l c = ROk (spec_type_definition d o)
    /\ goto_implementation d l c = ROk (spec_implementation d o).

(* ---- executable form of one instance, used for the witnesses ---- *)
Definition loc_eqb (a b : loc) : bool :=
  (fst (fst a) =? fst (fst b))%N && (snd (fst a) =? snd (fst b))%N
  && (fst (snd a) =? fst (snd b))%N && (snd (snd a) =? snd (snd b))%N.
Definition res_loc_eqb (r : res (option loc)) (e : option loc) : bool :=
  match r, e with
  | ROk None, None => true
  | ROk (Some a), Some b => loc_eqb a b
  | _, _ => false
  end.

(* all four handlers agree with the specification at occurrence o, at the first and the last
   column of its token *)
Definition agrees_at (d : doc) (o : occ) : bool :=
  match nth_error (d_toks d) (o_tok o) with
  | Some tok =>
      forallb (fun idx =>
        let p := as_position idx (d_text d) in
        res_loc_eqb (goto_declaration d (fst p) (snd p)) (spec_declaration d o)
        && res_loc_eqb (goto_type_definition d (fst p) (snd p)) (spec_type_definition d o)
        && res_loc_eqb (goto_implementation d (fst p) (snd p)) (spec_implementation d o))
        [ts tok; (te tok - 1)%N]
  | None => false
  end.

Definition doc_of (t : text) : doc :=
  match new_doc_res t with
  | ODone d => d
  | _ => {| d_text := []; d_toks := []; d_ast := {| pg_decls := []; pg_info := mkinfo 0 0 |}; d_table := [] |}
  end.

Definition is_clean (t : text) : bool :=
  match new_doc_res t with
  | ODone d =>
      match doc_errors_res d with ROk [] => true | _ => false end
      && forallb (fun tok => match terr tok with [] => true | _ => false end) (d_toks d)
  | _ => false
  end.

(* ------------------------------------------------------------------------------------------------
   The formal reading of C13 over the occurrences and bindings of Proofs/GotoProofs.v *)

(* two occurrences are bound to the same entity: the same declaring occurrence, or - for
   predefined entities, which have none - the same name *)
Definition same_entity (occs : list occ) (a b : occ) : bool :=
  match binding occs a, binding occs b with
  | Some x, Some y => Nat.eqb (o_tok x) (o_tok y)
  | None, None => text_eqb (o_name a) (o_name b)
  | _, _ => false
  end.

Fixpoint opt_locs (l : list (option loc)) : list loc :=
  match l with [] => [] | Some x :: r => x :: opt_locs r | None :: r => opt_locs r end.

Definition spec_references (d : doc) (o : occ) : list loc :=
  let occs := occurrences (d_ast d) in
  opt_locs (map (loc_of_occ d)
                (filter (fun x => same_entity occs x o && negb (Nat.eqb (o_tok x) (o_tok o))) occs)).

(* one edit per occurrence of the binding, the declaration included; a predefined entity has no
   declaration, so no rename is offered *)
Definition spec_rename (d : doc) (o : occ) : option (list loc) :=
  let occs := occurrences (d_ast d) in
  match binding occs o with
  | Some _ => Some (opt_locs (map (loc_of_occ d) (filter (fun x => same_entity occs x o) occs)))
  | None => None
  end.

Definition spec_prepare (d : doc) (o : occ) : option loc :=
  match binding (occurrences (d_ast d)) o with
  | Some _ => loc_of_occ d o
  | None => None
  end.

Definition full_statement_refs : Prop :=
  forall t d o l c,
    clean_doc t d -> In o (occurrences (d_ast d)) -> cursor_inside d o l c ->
    (exists rs, references d l c = ROk (Some rs) /\ Permutation rs (spec_references d o))
    /\ match spec_rename d o with
       | Some es' => exists es, rename d l c = ROk (Some es) /\ Permutation es es'
       | None => rename d l c = ROk None
       end
    /\ prepare_rename d l c = ROk (spec_prepare d o).

(* ---- the second half of the property: applying the edits ---- *)
Definition loc_start_ltb (a b : loc) : bool :=
  (fst (fst a) <? fst (fst b))%N || ((fst (fst a) =? fst (fst b))%N && (snd (fst a) <? snd (fst b))%N).

Fixpoint insert_desc (x : loc) (l : list loc) : list loc :=
  match l with
  | [] => [x]
  | y :: r => if loc_start_ltb y x then x :: l else y :: insert_desc x r
  end.

(* all edits of a WorkspaceEdit refer to the original text: apply them from the last to the first *)
Definition apply_rename (t : text) (edits : list loc) (new : text) : option text :=
  Doc.apply_changes t (map (fun r => {| Doc.crange := Some r; Doc.ctext := new |}) (fold_right insert_desc [] edits)).

(* an identifier spelling that occurs nowhere in the document and names nothing predefined *)
Definition fresh_name (d : doc) (new : text) : Prop :=
  (exists tok rest, lex new = Some (tok :: rest) /\ tk tok = Ident new /\ te tok = blen new)
  /\ (forall tok, In tok (d_toks d) -> tk tok <> Ident new)
  /\ existsb (text_eqb new) default_entries = false.

(* rename to a fresh name: the result is again diagnostic-free, its occurrences (same walk order,
   so position by position) are bound together exactly as before, and renaming the same occurrence
   back to the old name restores the original text *)
Definition roundtrip_statement : Prop :=
  forall t d n o l c new es t',
    clean_doc t d -> nth_error (occurrences (d_ast d)) n = Some o -> binding (occurrences (d_ast d)) o <> None ->
    cursor_inside d o l c -> fresh_name d new ->
    rename d l c = ROk (Some es) -> apply_rename t es new = Some t' ->
    exists d',
      clean_doc t' d'
      /\ length (occurrences (d_ast d')) = length (occurrences (d_ast d))
      /\ (forall i j a b a' b',
            nth_error (occurrences (d_ast d)) i = Some a -> nth_error (occurrences (d_ast d)) j = Some b ->
            nth_error (occurrences (d_ast d')) i = Some a' -> nth_error (occurrences (d_ast d')) j = Some b' ->
            same_entity (occurrences (d_ast d')) a' b' = same_entity (occurrences (d_ast d)) a b)
      /\ (forall o' l' c',
            nth_error (occurrences (d_ast d')) n = Some o' -> cursor_inside d' o' l' c' ->
            exists es', rename d' l' c' = ROk (Some es') /\ apply_rename t' es' (o_name o) = Some t).

(* ---- executable instance, witnesses ---- *)
Fixpoint count_loc (x : loc) (l : list loc) : nat :=
  match l with [] => 0 | y :: r => (if loc_eqb x y then 1 else 0) + count_loc x r end.
(* multiset equality *)
Definition same_locs (a b : list loc) : bool :=
  Nat.eqb (length a) (length b) && forallb (fun x => Nat.eqb (count_loc x a) (count_loc x b)) a.

Definition refs_agree_at (d : doc) (o : occ) : bool :=
  match nth_error (d_toks d) (o_tok o) with
  | Some tok =>
      forallb (fun idx =>
        let p := as_position idx (d_text d) in
        match references d (fst p) (snd p) with
        | ROk (Some rs) => same_locs rs (spec_references d o)
        | _ => false
        end
        && match rename d (fst p) (snd p), spec_rename d o with
           | ROk (Some es), Some es' => same_locs es es'
           | ROk None, None => true
           | _, _ => false
           end
        && res_loc_eqb (prepare_rename d (fst p) (snd p)) (spec_prepare d o))
        [ts tok; (te tok - 1)%N]
  | None => false
  end.

