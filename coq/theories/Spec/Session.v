(* Reference definitions for C18: what the JSON-RPC / LSP lifecycle prescribes, stated over the
   history of client messages, independently of the phase machine of the model. *)
From Spl Require Export Model.Lifecycle.

Definition is_exit (m : msg) : bool := match m with Notif MExit => true | _ => false end.
Definition is_init_req (m : msg) : bool := match m with Req _ MInitialize => true | _ => false end.
Definition is_initialized (m : msg) : bool := match m with Notif MInitialized => true | _ => false end.
Definition is_shutdown_req (m : msg) : bool := match m with Req _ MShutdown => true | _ => false end.

(* the rest of the history after the first message satisfying f *)
Fixpoint after (f : msg -> bool) (h : list msg) : option (list msg) :=
  match h with
  | [] => None
  | m :: r => if f m then Some r else after f r
  end.

Inductive sphase := SUninit | SInitWait | SMain | SDown.

(* where the session stands after history h (h contains no `exit` notification):
   before the first initialize request / before the first `initialized` after it /
   before the first shutdown request after that / after it *)
Definition spec_phase (h : list msg) : sphase :=
  match after is_init_req h with
  | None => SUninit
  | Some h1 =>
      match after is_initialized h1 with
      | None => SInitWait
      | Some h2 => match after is_shutdown_req h2 with None => SMain | Some _ => SDown end
      end
  end.

(* the answer the protocol prescribes for a request with method m in that situation *)
Definition spec_answer (s : sphase) (m : meth) : answer :=
  match s, m with
  | SUninit, MInitialize => Result
  | SUninit, _ => Error ServerNotInitialized
  | SInitWait, MInitialize => Error InvalidRequest
  | SInitWait, _ => Error ServerNotInitialized
  | SMain, MInitialize => Error InvalidRequest
  | SMain, MShutdown => Result
  | SMain, MSupported _ => Result
  | SMain, _ => Error MethodNotFound
  | SDown, _ => Error InvalidRequest
  end.

(* the responses prescribed for the messages of [ms], given the history [h] before them *)
Fixpoint spec_responses (h ms : list msg) : list resp :=
  match ms with
  | [] => []
  | Req id m :: r => {| rid := id; rans := spec_answer (spec_phase h) m |} :: spec_responses (h ++ [Req id m]) r
  | Notif m :: r => spec_responses (h ++ [Notif m]) r
  end.

(* the part of the session the server sees: everything before the first `exit` *)
Fixpoint before_exit (ms : list msg) : list msg :=
  match ms with
  | [] => []
  | m :: r => if is_exit m then [] else m :: before_exit r
  end.

Definition has_exit (ms : list msg) : bool := existsb is_exit ms.

Definition spec_status (ms : list msg) (clean : bool) : N :=
  if has_exit ms then
    match spec_phase (before_exit ms) with SDown => 0 | _ => 1 end
  else if clean then 0 else 1.

Definition req_ids (ms : list msg) : list Z :=
  flat_map (fun m => match m with Req id _ => [id] | Notif _ => [] end) ms.
