(* The LSP text model (specification side of C08): a text is a sequence of lines separated by
   "\n", "\r\n" or "\r"; a position is (line, UTF-16 column); a column past the end of a line
   means the end of that line; a line past the end means the end of the text. *)
From Spl Require Export Base.Chars.

(* lines with their terminators; the last line has the empty terminator *)
Fixpoint split_lines_acc (cur : text) (s : text) : list (text * text) :=
  match s with
  | [] => [(rev cur, [])]
  | c :: r =>
      if c =? 10 then (rev cur, [10]) :: split_lines_acc [] r
      else if c =? 13 then
        match r with
        | c2 :: r' => if c2 =? 10 then (rev cur, [13; 10]) :: split_lines_acc [] r'
                      else (rev cur, [13]) :: split_lines_acc [] r
        | [] => (rev cur, [13]) :: split_lines_acc [] r
        end
      else split_lines_acc (c :: cur) r
  end.

Definition split_lines (t : text) : list (text * text) := split_lines_acc [] t.

(* the longest prefix of a line whose UTF-16 length does not exceed col *)
Fixpoint col_prefix (col : N) (line : text) : text :=
  match line with
  | [] => []
  | c :: r => if u16len c <=? col then c :: col_prefix (col - u16len c) r else []
  end.

Fixpoint offset_in_lines (ls : list (text * text)) (l col base : N) : N :=
  match ls with
  | [] => base
  | (content, term) :: rest =>
      if l =? 0 then base + blen (col_prefix col content)
      else match rest with
           | [] => base + blen content + blen term      (* line past the end: end of the text *)
           | _ => offset_in_lines rest (l - 1) col (base + blen content + blen term)
           end
  end.

Definition offset_of (t : text) (l col : N) : N := offset_in_lines (split_lines t) l col 0.

(* the column does not point between the two halves of a surrogate pair *)
Fixpoint col_ok_line (col : N) (line : text) : bool :=
  match line with
  | [] => true
  | c :: r => if col =? 0 then true else if u16len c <=? col then col_ok_line (col - u16len c) r else false
  end.

Definition col_ok (t : text) (l col : N) : bool :=
  match nth_error (split_lines t) (N.to_nat l) with
  | Some (content, _) => col_ok_line col content
  | None => true
  end.

(* client-side application of a change addressed by positions *)
Definition splice (t : text) (a b : N) (ins : text) : option text :=
  (* replace the bytes [a, b) - both offsets are character boundaries by construction *)
  let fix take (n : N) (s : text) : option (text * text) :=
    if n =? 0 then Some ([], s) else
    match s with
    | [] => None
    | c :: r => if n <? ulen c then None
                else match take (n - ulen c) r with Some (x, y) => Some (c :: x, y) | None => None end
    end in
  if b <? a then None else
  match take a t with
  | Some (pre, rest) => match take (b - a) rest with Some (_, post) => Some (pre ++ ins ++ post) | None => None end
  | None => None
  end.

Definition lsp_apply (t : text) (range : option ((N * N) * (N * N))) (new : text) : option text :=
  match range with
  | None => Some new
  | Some ((l1, c1), (l2, c2)) => splice t (offset_of t l1 c1) (offset_of t l2 c2) new
  end.
